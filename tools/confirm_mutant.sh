#!/bin/bash
# usage: confirm_mutant.sh <PROP> <k>     confirms /tmp/wt/<PROP>/_out/m<k> in a fresh scratch worktree of /repo
# writes /tmp/wt/confirm/<PROP>-m<k>.json ; the scratch worktree is removed afterwards.
P=$1; K=$2
SRC=/tmp/wt/$P/_out/m$K
OUT=/tmp/wt/confirm; mkdir -p $OUT
WT=/tmp/wt/confirm_wt_${P}_m$K
git -C /repo worktree remove --force $WT >/dev/null 2>&1
git -C /repo worktree add -q --detach $WT HEAD || exit 3
cd $WT
res() { echo "{\"prop\":\"$P\",\"k\":$K,\"applies\":$1,\"demo_with\":$2,\"suite_with\":\"$3\",\"demo_without\":$4}" > $OUT/$P-m$K.json; }
if ! git apply --check $SRC/patch.diff 2>/dev/null; then res false null "" null; git -C /repo worktree remove --force $WT; exit 0; fi
git apply $SRC/patch.diff
mkdir -p _out/m$K; cp $SRC/demo.py _out/m$K/demo.py
PYTHONPATH=$WT/src timeout 900 /venv/bin/python _out/m$K/demo.py > $OUT/$P-m$K.demo_with.log 2>&1; DW=$?
SUITE=$(flock /tmp/wt/suite.slot.$((RANDOM % 4)) env PYTHONPATH=$WT/src timeout 3000 /venv/bin/python -m pytest -q -p no:cacheprovider --timeout=900 2>&1 | tail -1)
git checkout -q -- src
PYTHONPATH=$WT/src timeout 900 /venv/bin/python _out/m$K/demo.py > $OUT/$P-m$K.demo_without.log 2>&1; DN=$?
res true $DW "$SUITE" $DN
cd /; git -C /repo worktree remove --force $WT
