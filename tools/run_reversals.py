#!/venv/bin/python
"""Re-introduce each repaired defect (reverse of one `fix:` commit of /repo) on a scratch copy and run the checks that claim it."""
import json, os, shutil, subprocess, sys, tempfile, glob
from concurrent.futures import ThreadPoolExecutor
ALL = [f"C{i:02d}" for i in range(1, 21)]
subj = {l.split(" ", 1)[0]: l.split(" ", 1)[1] for l in subprocess.run(["git", "-C", "/repo", "log", "--format=%h %s"], capture_output=True, text=True).stdout.splitlines()}

def run_one(path):
    c = os.path.basename(path)[:-5]
    tmp = tempfile.mkdtemp(prefix="sa_rev_")
    out = {}
    try:
        shutil.copytree("/repo/src", os.path.join(tmp, "src"), ignore=shutil.ignore_patterns("__pycache__", "tests"))
        r = subprocess.run(["patch", "-R", "-p1", "-s", "-d", tmp, "-i", path], capture_output=True, text=True)
        if r.returncode != 0:
            return c, {"error": "reverse patch does not apply cleanly: " + r.stdout[:200]}
        for p in ALL:
            r = subprocess.run(["/venv/bin/python", "-m", "sa.check", p, "--repo", tmp, "--no-evidence"], cwd="/verif", capture_output=True, text=True)
            rules = sorted({l.strip().split(" ")[0] for l in r.stdout.splitlines() if l.startswith("  R")})
            if r.returncode != 0:
                out[p] = {"exit": r.returncode, "rules": rules}
    finally:
        shutil.rmtree(tmp, ignore_errors=True)
    return c, out

res = {}
with ThreadPoolExecutor(max_workers=8) as ex:
    for c, out in ex.map(run_one, sorted(glob.glob("/verif/seeded/_fix_reversals/*.diff"))):
        res[c] = {"subject": subj.get(c, ""), "detected_by": out}
        det = {p: v["rules"] for p, v in out.items() if isinstance(v, dict) and v.get("exit") == 1}
        err = [p for p, v in out.items() if isinstance(v, dict) and v.get("exit") == 2]
        print(c, subj.get(c, "")[:70], "->", det or out.get("error"), ("exit2:" + ",".join(err)) if err else "")
json.dump(res, open("/verif/seeded/_fix_reversals/MATRIX.json", "w"), indent=1, sort_keys=True)
