import sys
from sa.index import Index
from sa.callgraph import CallGraph
from sa.report import Check
from sa.terms import pp
def mk(prop, root="/repo/src/dliswriter"):
    ix=Index(root); cg=CallGraph(ix)
    return Check(prop,"quick",0,ix,cg,quiet=True)
