#!/venv/bin/python
"""Copy the confirmed round-7 held-out changes from /tmp/wt/<P>/_out/m8 into /verif/seeded/<P>-m<k>/ with meta.json
(k = first free number >= 8 for that property; first-run verdict of the property's own check from /tmp/wt/first_<P>.txt)."""
import json, os, shutil, glob, re
for f in sorted(glob.glob("/tmp/wt/confirm/*-m8.json")):
    r = json.load(open(f))
    P = r["prop"]
    ok = r["applies"] and r["demo_with"] not in (0, None) and "475 passed" in r["suite_with"] and r["demo_without"] == 0
    if not ok:
        print("NOT CONFIRMED", P, r); continue
    src = f"/tmp/wt/{P}/_out/m8"
    if not os.path.exists(os.path.join(src, "patch.diff")):
        continue  # already stored and its scratch worktree removed
    patch = open(os.path.join(src, "patch.diff")).read()
    existing = [d for d in glob.glob(f"/verif/seeded/{P}-m*") if os.path.exists(d + "/patch.diff") and open(d + "/patch.diff").read() == patch]
    if existing:
        print("already stored", P, existing[0]); continue
    k = 8
    while os.path.exists(f"/verif/seeded/{P}-m{k}"):
        k += 1
    dst = f"/verif/seeded/{P}-m{k}"
    os.makedirs(dst)
    for n in ("patch.diff", "demo.py", "notes.md"):
        if os.path.exists(os.path.join(src, n)):
            shutil.copy(os.path.join(src, n), os.path.join(dst, n))
    notes = open(os.path.join(src, "notes.md")).read() if os.path.exists(os.path.join(src, "notes.md")) else ""
    m = re.search(r"(?is)needs to manifest:?\**\s*(.{0,600})", notes)
    first = open(f"/tmp/wt/first_{P}.txt").read() if os.path.exists(f"/tmp/wt/first_{P}.txt") else ""
    fr = "caught" if "first-run exit 1" in first else ("analysis-error" if "first-run exit 2" in first else "missed")
    rules = sorted(set(re.findall(r"^\s+(R\d\d\.\d+)", first, re.M)))
    meta = {"property": P, "mutant": f"m{k}", "round": 7,
            "origin": "independent sub-agent (round 7, held-out) given only the property text and a scratch worktree",
            "summary": " ".join(notes.split("\n")[0:2])[:400],
            "needs_to_manifest": " ".join(m.group(1).split())[:600] if m else "",
            "first_run_of_own_check": fr, "first_run_rules": rules,
            "confirmed": {"how": "tools/confirm_mutant.sh: fresh scratch worktree of /repo HEAD 0c17475: git apply patch.diff; demo.py; full suite; git checkout; demo.py",
                          "demo_exit_with_change": r["demo_with"], "suite_with_change": r["suite_with"],
                          "demo_exit_without_change": r["demo_without"]}}
    json.dump(meta, open(os.path.join(dst, "meta.json"), "w"), indent=1)
    print("stored", dst, fr, rules)
