#!/venv/bin/python
"""Generate /verif/MANIFEST.json from the table below (run from /verif)."""
import importlib, json, sys
sys.path.insert(0, "/verif")

TECH = {
 "C01": "abstract interpretation (BytesAI: linear constraints + Fourier-Motzkin + parity) of the validator, the record loop with the segmenter inlined, the label writer, the segment attribute class (all flag combinations), the output buffer and the byte writer; CFG ordering / who-may-write rules",
 "C02": "abstract interpretation with inductive loop invariants (Houdini over templates) + exact unrolling for witnesses (partition, bracketing bits, padding flag vs pad bytes); value-flow summary of the record loop (nesting and order of the iterables); effect rules",
 "C03": "value-flow normal form (E6: inlined def-use summaries) of the chunk-dtype plan and of the row serialiser (byte-order normalisation, one copying swap per slot, field order from the channel mapping), CFG dominance of the channel-order guard, table cross-check vs RP66, abstract interpretation (UVARI, chunk tiling); value flow of add_channel (the kept data do not depend on the declared cast)",
 "C04": "abstract interpretation of the component writers over an exhaustive finite space of value shapes; attribute declaration table checks",
 "C05": "table extraction and cross-checking (add_* forwarding, labels, set types vs RP66); value-flow normal form of set_attributes / converters / setters (inlined, helper-insensitive); semantic write-path store inventory with path conditions (defaults only where unset); abstract interpretation of the primitive emitters",
 "C06": "abstract interpretation of every primitive emitter over its whole value domain; struct format table vs RP66 Appendix B; call-site enumeration",
 "C07": "value-flow normal form with inlining, generator fusion and closure substitution: the reference-membership walk found semantically in check_objects, origin forwarding / numbering / back-fill read off inlined summaries of the 21 add_* sites; effect rules (copy number predicate, append-only lists, memo invalidation)",
 "C08": "value-flow normal form of the chunk-dtype plan (per-field dtype selection), the channel set-up from data (dimension rule, conflicts raise) and the row serialiser; effect rules (single writer of the representation code); call-graph who-may-call; table cross-check",
 "C09": "abstract interpretation of the record generator (generators inlined) on a symbolic two-logical-file storage unit; value-flow summaries of the registry (no overwrite), of the frame-data list construction and of the defining origin",
 "C10": "abstract interpretation of the output buffer, byte writer, chunk validator, record loop (one whole visible record per buffer call) and chunk generator for all sizes (monomials + monotonicity lemmas for the tiling); package-wide, key-sensitive forwarding closure of the chunk-size parameters over value-flow summaries",
 "C11": "value-flow normal form: sibling agreement of load_chunk implementations on window-aware row addressing (helper expanded), dispatch totality, mapping-driven field filling, merge of inline and write-time data; chunk-window arithmetic by abstract interpretation",
 "C12": "guard inventory over inlined value-flow summaries (each rejection: a raise under exactly its condition, on the write path before generation), closed table of non-re-raising exception handlers, shared emitter / byte-order obligations",
 "C13": "semantic write-path store inventory (object.field written, value and path condition rewritten into the frame's terms through helpers) for INDEX-MIN/MAX/SPACING/DIRECTION; inlined summary of the spacing helper (widening before diff, relative tolerance; direction decided under each sign pattern of the index differences - a sign-set abstraction over the summary); provenance fixpoint for persistence",
 "C14": "closed state inventory: memo/cache detection, package-wide provenance fixpoint (which stored values derive from write() arguments / from nondeterminism sources) over value-flow summaries, module/class-level containers, mode-flag CFG discipline",
 "C15": "raise reachability by abstract interpretation for all body lengths and all accepted record lengths, with concrete (S, vrl) witnesses; validator set comparison",
 "C16": "abstract interpretation of the no-format body builder for three payload kinds; value-flow summaries + CFG dominance for the record list (appended exactly once to one plain list, yielded as it is); padding obligations of the segment builder",
 "C17": "CFG path rules (save / set / restore on every normal and exceptional exit) for every writer of the mode flag; flag readers classified on value-flow summaries with three-valued evaluation of path conditions; inlined frame set-up (restriction not bypassable); regex AST of the name pattern; return alternatives of the enum converter (given text accepted by member value only)",
 "C18": "abstract interpretation of the record generator; who-may-use rules for the shared registry; inlined value-flow summaries of the registry entry points (ownership guard before registration, owner recorded) and of the 21 add_* sites",
 "C19": "interprocedural may-alias taint analysis of caller-owned data (parameters, returns, generators, instance fields) against an enumerated set of in-place sinks, with an always-on positive control",
 "C20": "CFG ordering rules (publish last) on 22 constructors and 21 add_* methods; effect reachability before publication; setter atomicity; semantic write-path store inventory with provenance; order of refusals and derived stores on inlined value-flow summaries",
}
NOTE = {
 "proof": "Trusted: Python semantics of the modelled subset, struct sizes/ranges, the transfer functions and decision procedure in sa/absint.py + sa/linarith.py (tested both ways by sa/selftest.py), RP66 V1 reference tables in sa/rp66_ref.py. Little-endian host assumed by the package (stated, not checked).",
 "other": "Decides named structural clauses that are necessary conditions of the behaviour (see DESIGN.md section 4 for what is and is not decided). Trusted: sa/ engines (index, call graph with CHA / by-name / escaping-function fallbacks, CFG, reaching definitions, effect tables) and numpy/h5py operation summaries.",
}
props = [json.loads(l) for l in open("/verif/properties.jsonl")]
checks = []
for p in props:
    pid = p["id"]
    mod = importlib.import_module(f"sa.props.{pid.lower()}")
    checks.append({
        "property_id": pid,
        "quick_cmd": f"/venv/bin/python -m sa.check {pid} --tier quick",
        "thorough_cmd": f"/venv/bin/python -m sa.check {pid} --tier thorough",
        "evidence_file": f"/verif/evidence/{pid}.json",
        "replay_cmd_template": f"/venv/bin/python -m sa.check {pid} --replay {{path}}",
        "engine": "sa",
        "level_claimed": {"category": mod.LEVEL, "text": mod.EXPLANATION, "design_ref": f"DESIGN.md section 4, {pid}"},
        "level_note": NOTE[mod.LEVEL],
        "technique": "static analysis: " + TECH[pid],
    })
man = {
 "version": 1,
 "setup_cmd": "/venv/bin/python -m compileall -q /verif/sa",
 "hooks": {"guard": "WELL_ID_DLISWRITER_VERIF", "enable": "no hooks: every check is static and never imports or runs dliswriter",
           "baseline_off_cmd": "cd /repo && /venv/bin/python -m pytest -q -p no:cacheprovider --timeout=900",
           "source_commits": [], "add_only": True},
 "engines": [{"name": "sa", "path": "/verif/sa", "serves_properties": [p["id"] for p in props],
              "kind_free_text": "repository-specific static analysis on Python ast: program index + call graph (E1), statement CFG with exceptional edges (E2), relational abstract interpreter for byte-length arithmetic with its own Fourier-Motzkin decision procedure (E3), table extraction vs RP66 reference tables (E4), effect / memo / taint analyses (E5), value-flow normal form: per-function def-use summaries with inlining, generator fusion, field resolution through constructors and a provenance fixpoint (E6); before all of them, alpha-normalisation of consistently renamed private names and desugaring of match statements on the parsed trees (E0). The content-level properties also include the shared transport-layer rule group (segmentation, output buffer, byte writer). Nothing in /repo is imported or executed."}],
 "checks": checks,
 "notes": "Exit 0 = all obligations discharged (listed known findings are printed as KNOWN-FINDING); exit 1 + VIOLATION line = a rule instance refuted on a named construct; exit 2 + ANALYSIS-ERROR = analysis could not be carried out. thorough = quick + two-way self-validation of the rules on scratch copies: seeded breaks (hand-written variants, the 156 sub-agent changes under /verif/seeded, the reversals of the repaired defects) must fire, behaviour-preserving twins (hand-written and the five sub-agent refactoring corpora under /verif/seeded/_refactors*) must stay silent beyond what the tree under test itself raises; the normal form is self-checked (sa/terms_check.py). Known findings: /verif/known_findings.json.",
 "not_applicable": [],
}
json.dump(man, open("/verif/MANIFEST.json", "w"), indent=1)
print("checks:", len(checks))
