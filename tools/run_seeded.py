#!/venv/bin/python
"""Run the checks against every seeded change in /verif/seeded (each applied to a scratch copy of /repo/src, never to
/repo) and write the detection matrix /verif/seeded/MATRIX.json.  usage: run_seeded.py [--all-props] [names...]"""
import json, os, shutil, subprocess, sys, tempfile, glob
from concurrent.futures import ThreadPoolExecutor

ALL = [f"C{i:02d}" for i in range(1, 21)]


def run_one(args):
    name, props = args
    d = f"/verif/seeded/{name}"
    tmp = tempfile.mkdtemp(prefix="sa_seed_")
    out = {}
    try:
        shutil.copytree("/repo/src", os.path.join(tmp, "src"), ignore=shutil.ignore_patterns("__pycache__", "tests"))
        r = subprocess.run(["git", "apply", "--unsafe-paths", f"--directory={tmp}", os.path.join(d, "patch.diff")],
                           cwd="/", capture_output=True, text=True)
        if r.returncode != 0:
            r = subprocess.run(["patch", "-p1", "-s", "-d", tmp, "-i", os.path.join(d, "patch.diff")],
                               capture_output=True, text=True)
            if r.returncode != 0:
                return name, {"error": "patch does not apply"}
        for p in props:
            r = subprocess.run(["/venv/bin/python", "-m", "sa.check", p, "--repo", tmp, "--no-evidence"], cwd="/verif",
                               capture_output=True, text=True)
            rules = sorted({l.strip().split(" ")[0] for l in r.stdout.splitlines() if l.startswith("  R")})
            first = next((l.strip()[:200] for l in r.stdout.splitlines() if l.startswith("  R")), "")
            if r.returncode == 2:
                first = next((l[:200] for l in r.stdout.splitlines() if l.startswith("ANALYSIS-ERROR")), "")
            out[p] = {"exit": r.returncode, "rules": rules, "first": first}
    finally:
        shutil.rmtree(tmp, ignore_errors=True)
    return name, out


def main():
    args = [a for a in sys.argv[1:] if not a.startswith("--")]
    allp = "--all-props" in sys.argv
    names = args or sorted(os.path.basename(os.path.dirname(p)) for p in glob.glob("/verif/seeded/*/patch.diff"))
    jobs = []
    for n in names:
        own = n.split("-")[0]
        jobs.append((n, ALL if allp else [own]))
    res = {}
    with ThreadPoolExecutor(max_workers=12) as ex:
        for name, out in ex.map(run_one, jobs):
            res[name] = out
            own = name.split("-")[0]
            o = out.get(own, {})
            others = [p for p, v in out.items() if p != own and isinstance(v, dict) and v.get("exit") == 1]
            print(f"{name}: own check exit={o.get('exit')} rules={o.get('rules')} also={others}")
    path = "/verif/seeded/MATRIX.json"
    old = json.load(open(path)) if os.path.exists(path) else {}
    old.update(res)
    json.dump(old, open(path, "w"), indent=1, sort_keys=True)


main()
