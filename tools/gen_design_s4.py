#!/venv/bin/python
"""Regenerate section 4 of /verif/DESIGN.md (per-property decisions) from the heads of sa/props/cNN.py, the seeded
matrix (seeded/MATRIX.json, tools/run_seeded.py --all-props) and the reversal matrix (seeded/_fix_reversals/MATRIX.json).
Everything between the line starting with '## 4.' and the separator line before '## 5.' is replaced."""
import importlib, json, os, re, sys
sys.path.insert(0, "/verif")

INTRO = """## 4. Per-property decisions (as built)

For every property: the level claimed, what is decided and what is not (the text each check also writes
into its evidence file), the rules as implemented (taken verbatim from the head of `sa/props/cNN.py`, so
this section cannot drift from the code), and which seeded changes the check catches (§6).  Rule ids
(`R07.3`) are the ids printed in reports and evidence.  `m1..m3` = first round of sub-agent changes; the
later ones come from the held-out rounds (§8), the round is recorded in each `meta.json`.
"""


def main():
    mat = json.load(open("/verif/seeded/MATRIX.json"))
    rev = json.load(open("/verif/seeded/_fix_reversals/MATRIX.json"))
    out = [INTRO]
    for i in range(1, 21):
        p = f"C{i:02d}"
        mod = importlib.import_module(f"sa.props.{p.lower()}")
        doc = (mod.__doc__ or "").strip("\n")
        title, _, rest = doc.partition("\n")
        out.append(f"### {title.strip()}\n")
        out.append(f"Level: **{mod.LEVEL}**.  {mod.EXPLANATION}\n")
        rest = rest.strip("\n")
        if rest:
            out.append("```\n" + rest + "\n```\n")
        out.append("Catches (independent sub-agent changes, each confirmed to break the property and pass the 475 tests):")
        for name in sorted(k for k in mat if k.startswith(p + "-m")):
            row = mat[name]
            own = row.get(p, {})
            meta = {}
            try:
                meta = json.load(open(f"/verif/seeded/{name}/meta.json"))
            except OSError:
                pass
            summ = " ".join(str(meta.get("summary", "")).split())[:100]
            also = sorted(q for q, v in row.items() if q != p and isinstance(v, dict) and v.get("exit") == 1)
            rules = ", ".join(own.get("rules", [])) or f"exit {own.get('exit')}"
            out.append(f"* `{name}` ({summ}) → {rules}" + (f"; also {', '.join(also)}" if also else ""))
        for c, v in sorted(rev.items()):
            d = v.get("detected_by", {}).get(p)
            if isinstance(d, dict) and d.get("exit") == 1:
                subj = v.get("subject", "")
                subj = subj[5:] if subj.startswith("fix: ") else subj
                out.append(f"* reversal of `{c}` ({subj[:70]}) → {', '.join(d.get('rules', []))}")
        out.append("")
    text = "\n".join(out)
    d = open("/verif/DESIGN.md").read()
    a = d.index("## 4. Per-property decisions")
    b = d.index("## 5. ")
    sep = d.rfind("\n-----", a, b)
    if sep < 0:
        sep = b
    d = d[:a] + text + "\n" + d[sep + 1 if sep != b else b:]
    open("/verif/DESIGN.md", "w").write(d)
    print("section 4 regenerated:", len(text.splitlines()), "lines")


if __name__ == "__main__":
    main()
