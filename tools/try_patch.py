#!/venv/bin/python
"""usage: try_patch.py <patch.diff> <PROP> [<PROP> ...]
Apply the patch to a scratch copy of /repo/src (never to /repo), run the named property checks against it, print the
verdicts, remove the scratch copy."""
import os, shutil, subprocess, sys, tempfile

def main():
    patch, props = sys.argv[1], sys.argv[2:]
    tmp = tempfile.mkdtemp(prefix="sa_try_")
    try:
        shutil.copytree("/repo/src", os.path.join(tmp, "src"), ignore=shutil.ignore_patterns("__pycache__", "tests"))
        r = subprocess.run(["git", "apply", "--unsafe-paths", f"--directory={tmp}", os.path.abspath(patch)],
                           cwd="/", capture_output=True, text=True)
        if r.returncode != 0:
            r = subprocess.run(["patch", "-p1", "-s", "-d", tmp, "-i", os.path.abspath(patch)], capture_output=True, text=True)
            if r.returncode != 0:
                print("PATCH-FAILED", r.stderr[:300]); return 3
        rc = 0
        for p in props:
            r = subprocess.run(["/venv/bin/python", "-m", "sa.check", p, "--repo", tmp, "--no-evidence"],
                               cwd="/verif", capture_output=True, text=True)
            lines = [l for l in r.stdout.splitlines() if l.startswith(("VIOLATION", "ANALYSIS-ERROR", "  R")) or " obligations=" in l]
            print(f"== {p}: exit {r.returncode}")
            for l in lines[:8]:
                print("   ", l[:260])
            rc = max(rc, r.returncode)
        return rc
    finally:
        shutil.rmtree(tmp, ignore_errors=True)

sys.exit(main())
