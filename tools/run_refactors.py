#!/venv/bin/python
"""Run all 20 checks against every behaviour-preserving refactoring patch (each applied to a scratch copy of /repo/src):
any exit 1 is a false alarm, any exit 2 an analysis that a harmless edit breaks.
usage: run_refactors.py [dir-with-diffs ...]   (default /verif/seeded/_refactors)"""
import json, os, shutil, subprocess, sys, tempfile, glob
from concurrent.futures import ThreadPoolExecutor
ALL = [f"C{i:02d}" for i in range(1, 21)]


def run_one(path):
    tmp = tempfile.mkdtemp(prefix="sa_rf_")
    out = {}
    try:
        shutil.copytree("/repo/src", os.path.join(tmp, "src"), ignore=shutil.ignore_patterns("__pycache__", "tests"))
        r = subprocess.run(["patch", "-p1", "-s", "-f", "-d", tmp, "-i", os.path.abspath(path)], capture_output=True, text=True)
        if r.returncode != 0:
            return path, {"error": "patch does not apply"}
        for p in ALL:
            r = subprocess.run(["/venv/bin/python", "-m", "sa.check", p, "--repo", tmp, "--no-evidence"], cwd="/verif",
                               capture_output=True, text=True)
            if r.returncode != 0:
                lines = [l.strip()[:300] for l in r.stdout.splitlines() if l.startswith(("  R", "ANALYSIS-ERROR"))]
                out[p] = {"exit": r.returncode, "reports": lines[:6]}
    finally:
        shutil.rmtree(tmp, ignore_errors=True)
    return path, out


def main():
    dirs = [a for a in sys.argv[1:] if not a.startswith("--")] or ["/verif/seeded/_refactors"]
    paths = []
    for d in dirs:
        paths += sorted(glob.glob(os.path.join(d, "**", "*.diff"), recursive=True)) if os.path.isdir(d) else [d]
    bad = 0
    res = {}
    with ThreadPoolExecutor(max_workers=6) as ex:
        for path, out in ex.map(run_one, paths):
            name = os.path.relpath(path, dirs[0]) if os.path.isdir(dirs[0]) else path
            res[name] = out
            if out:
                bad += 1
                print(f"{name}:")
                for p, v in out.items():
                    if p == "error":
                        print("    ", v)
                        continue
                    print(f"   {p} exit={v['exit']}")
                    for l in v["reports"]:
                        print("       ", l)
            else:
                print(f"{name}: silent on all 20")
    print(f"{len(paths)} refactorings, {bad} with a report")
    if "--write" in sys.argv:
        json.dump(res, open("/verif/seeded/_refactors/MATRIX.json", "w"), indent=1, sort_keys=True)
    return 1 if bad else 0


sys.exit(main())
