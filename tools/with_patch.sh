#!/bin/bash
# usage: with_patch.sh <patch> <python-file>   - run a debug script with PKG root of a patched scratch copy as argv[1]
set -e
T=$(mktemp -d /dev/shm/wp_XXXX)
mkdir -p $T/src; cp -r /repo/src/dliswriter $T/src/
(cd $T && git apply --unsafe-paths --directory=$T $1 2>/dev/null || patch -p1 -s -d $T -i $1)
PYTHONPATH=/verif:/verif/tools /venv/bin/python $2 $T/src/dliswriter || true
rm -rf $T
