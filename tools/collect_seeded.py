#!/venv/bin/python
"""Copy confirmed agent mutants from /tmp/wt/<P>/_out/m<k> into /verif/seeded/<P>-m<k>/ with meta.json."""
import json, os, shutil, glob, re
for f in sorted(glob.glob("/tmp/wt/confirm/*.json")):
    r = json.load(open(f))
    P, k = r["prop"], r["k"]
    ok = r["applies"] and r["demo_with"] not in (0, None) and "475 passed" in r["suite_with"] and r["demo_without"] == 0
    src = f"/tmp/wt/{P}/_out/m{k}"
    dst = f"/verif/seeded/{P}-m{k}"
    if not ok:
        print("NOT CONFIRMED", P, k, r)
        continue
    os.makedirs(dst, exist_ok=True)
    for n in ("patch.diff", "demo.py", "notes.md"):
        if os.path.exists(os.path.join(src, n)):
            shutil.copy(os.path.join(src, n), os.path.join(dst, n))
    notes = open(os.path.join(src, "notes.md")).read() if os.path.exists(os.path.join(src, "notes.md")) else ""
    first = " ".join(notes.split("\n")[0:3])[:300]
    needs = ""
    m = re.search(r"(?is)(needed to manifest|what it needs|needs|trigger)[^\n]*\n?(.{0,400})", notes)
    if m:
        needs = " ".join(m.group(0).split())[:400]
    meta = {
        "property": P, "mutant": f"m{k}", "origin": "independent sub-agent given only the property text and a scratch worktree",
        "summary": first, "needs_to_manifest": needs,
        "confirmed": {
            "how": "tools/confirm_mutant.sh in a fresh scratch worktree of /repo HEAD: git apply patch.diff; demo.py; full suite; git checkout; demo.py",
            "demo_exit_with_change": r["demo_with"], "suite_with_change": r["suite_with"], "demo_exit_without_change": r["demo_without"]},
    }
    json.dump(meta, open(os.path.join(dst, "meta.json"), "w"), indent=1)
print(len(glob.glob("/verif/seeded/*/meta.json")), "seeded mutants collected")
