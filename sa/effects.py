"""E5 - effects: field write sets, memo / cache inventory, process-lifetime state, caller-data taint helpers."""

from __future__ import annotations

import ast
from typing import Optional

from .index import Index, FuncInfo, ClassInfo, Scope, walk_local, walk_expr
from .common import norm, is_self_attr

MUTATORS = {"append", "extend", "insert", "pop", "remove", "clear", "update", "setdefault", "sort", "reverse",
            "add", "discard", "popitem", "__setitem__", "__delitem__"}
CACHE_DECORATORS = ("lru_cache", "cache", "cached_property", "memoize", "memoized", "cachedmethod")


class Store:
    __slots__ = ("func", "node", "base", "attr", "kind", "value")

    def __init__(self, func, node, base, attr, kind, value=None):
        self.func, self.node, self.base, self.attr, self.kind, self.value = func, node, base, attr, kind, value

    @property
    def where(self):
        return f"{self.func.module.relpath}:{self.node.lineno}"

    @property
    def target(self):
        return f"{norm(self.base)}.{self.attr}" if self.base is not None else self.attr

    def __repr__(self):
        return f"<Store {self.func.short}: {self.target} ({self.kind})>"


def stores_in(func: FuncInfo) -> list[Store]:
    """Attribute stores (x.a = v, x.a += v, x.a[i] = v, del x.a[...], x.a.mutator(...), setattr(x, 'a', v)) in func."""
    out = []
    for n in walk_local(func.node):
        targets = []
        val = None
        if isinstance(n, ast.Assign):
            targets, val = n.targets, n.value
        elif isinstance(n, ast.AugAssign):
            targets, val = [n.target], n.value
        elif isinstance(n, ast.AnnAssign) and n.value is not None:
            targets, val = [n.target], n.value
        elif isinstance(n, ast.Delete):
            targets = n.targets
        for t in targets:
            for tt in (t.elts if isinstance(t, (ast.Tuple, ast.List)) else [t]):
                if isinstance(tt, ast.Attribute):
                    out.append(Store(func, n, tt.value, tt.attr, "assign" if not isinstance(n, ast.AugAssign) else "aug",
                                     val))
                elif isinstance(tt, ast.Subscript) and isinstance(tt.value, ast.Attribute):
                    out.append(Store(func, n, tt.value.value, tt.value.attr, "item", val))
        if isinstance(n, ast.Call):
            f = n.func
            if isinstance(f, ast.Attribute) and f.attr in MUTATORS and isinstance(f.value, ast.Attribute):
                out.append(Store(func, n, f.value.value, f.value.attr, "mutator:" + f.attr,
                                 n.args[0] if n.args else None))
            if isinstance(f, ast.Name) and f.id == "setattr" and len(n.args) >= 3:
                a = n.args[1]
                name = a.value if isinstance(a, ast.Constant) and isinstance(a.value, str) else f"<{norm(a)}>"
                out.append(Store(func, n, n.args[0], name, "setattr", n.args[2]))
            if isinstance(f, ast.Attribute) and f.attr in ("__setattr__",) and len(n.args) >= 2:
                a = n.args[-2]
                name = a.value if isinstance(a, ast.Constant) and isinstance(a.value, str) else f"<{norm(a)}>"
                out.append(Store(func, n, f.value, name, "setattr", n.args[-1]))
            if isinstance(f, ast.Attribute) and f.attr in ("pop", "update", "__setitem__", "clear", "setdefault") \
                    and isinstance(f.value, ast.Attribute) and f.value.attr == "__dict__":
                a = n.args[0] if n.args else None
                name = a.value if isinstance(a, ast.Constant) and isinstance(a.value, str) else "<dynamic>"
                out.append(Store(func, n, f.value.value, name, "dict:" + f.attr))
    return out


class Memo:
    def __init__(self, kind, func, detail, node):
        self.kind, self.func, self.detail, self.node = kind, func, detail, node

    @property
    def key(self):
        return f"{self.kind}:{self.func.short}" + (f":{self.detail}" if self.kind == "manual" else "")

    @property
    def where(self):
        return f"{self.func.module.relpath}:{getattr(self.node, 'lineno', self.func.node.lineno)}"

    def __repr__(self):
        return f"<Memo {self.key}>"


def memo_sites(ix: Index) -> list[Memo]:
    """Every place where a computed result is kept for later calls:
    * functions / properties decorated with a cache decorator;
    * the manual lazy-cache idiom: a function that stores a freshly computed value into an attribute of its receiver
      (or of a class / module object) which the same function also tests or returns - "compute once, keep"."""
    out = []
    for f in ix.functions.values():
        if not isinstance(f.node, ast.FunctionDef):
            continue
        for d in f.decorators:
            if any(d.split("(")[0].split(".")[-1] == c for c in CACHE_DECORATORS):
                out.append(Memo("decorator", f, d, f.node))
        if f.kind == "setter" or f.name in ("__init__", "__new__", "__post_init__"):
            continue
        params = set(f.param_names)
        for s in stores_in(f):
            if s.kind not in ("assign", "item", "setattr") or not isinstance(s.base, ast.Name):
                continue
            if s.base.id not in params or f.param_names.index(s.base.id) != 0:
                continue
            # value derived from parameters alone (a plain setter-like store) is not a memo
            if s.value is None:
                continue
            val_names = {x.id for x in ast.walk(s.value) if isinstance(x, ast.Name)}
            computed = any(isinstance(x, ast.Call) for x in ast.walk(s.value)) or bool(val_names - params)
            tgt = f"{s.base.id}.{s.attr}"
            tested = False
            returned = False
            for n in walk_local(f.node):
                if isinstance(n, (ast.If, ast.IfExp, ast.While)) and _mentions(n.test, s.base.id, s.attr):
                    tested = True
                if isinstance(n, ast.BoolOp) and any(_mentions(v, s.base.id, s.attr) for v in n.values[:-1]):
                    tested = True
                if isinstance(n, ast.Return) and n.value is not None and _mentions(n.value, s.base.id, s.attr):
                    returned = True
            if computed and tested and returned:
                out.append(Memo("manual", f, s.attr, s.node))
    # de-duplicate manual memos per (function, field)
    seen, uniq = set(), []
    for m in out:
        if m.key not in seen:
            seen.add(m.key)
            uniq.append(m)
    return uniq


def _mentions(expr, base: str, attr: str) -> bool:
    for x in ast.walk(expr):
        if isinstance(x, ast.Attribute) and x.attr == attr and isinstance(x.value, ast.Name) and x.value.id == base:
            return True
        if isinstance(x, ast.Subscript) and isinstance(x.value, ast.Attribute) and x.value.attr == "__dict__" \
                and isinstance(x.slice, ast.Constant) and x.slice.value == attr:
            return True
    return False


def module_level_mutables(ix: Index):
    """(module, name, expr) for module- and class-level bindings to mutable containers (list / dict / set literals,
    comprehensions, calls of list/dict/set/defaultdict)."""
    out = []

    def mutable(e):
        if isinstance(e, (ast.List, ast.Dict, ast.Set, ast.ListComp, ast.DictComp, ast.SetComp)):
            return True
        if isinstance(e, ast.Call) and isinstance(e.func, ast.Name) and e.func.id in ("list", "dict", "set",
                                                                                      "defaultdict", "OrderedDict"):
            return True
        if isinstance(e, ast.Subscript):
            return mutable(e.value)
        return False
    for m in ix.modules.values():
        for name, e in m.assigns.items():
            if "." not in name and mutable(e):
                out.append((m, None, name, e))
        for c in m.classes.values():
            for name, e in c.class_assigns.items():
                if mutable(e):
                    out.append((m, c, name, e))
    return out


def receiver_classes(ix: Index, func: FuncInfo, base: ast.expr) -> list[ClassInfo]:
    t = ix.infer(base, Scope(ix, func))
    if t is None:
        return []
    if t[0] == "inst":
        return [t[1]]
    if t[0] == "union":
        return [x[1] for x in t[1] if x[0] == "inst"]
    return []
