"""Shared extractors: EFLR item/set classes, the attribute declaration table, the add_* forwarding table,
small AST helpers and the whitelisted constant evaluator."""

from __future__ import annotations

import ast
import struct
from typing import Optional

from . import AnalysisError
from .index import Index, ClassInfo, FuncInfo, Scope, walk_local


# ----------------------------------------------------------------------------------------- constant evaluator

class NotConst(Exception):
    pass


_BINOPS = {
    ast.Add: lambda a, b: a + b, ast.Sub: lambda a, b: a - b, ast.Mult: lambda a, b: a * b,
    ast.FloorDiv: lambda a, b: a // b, ast.Mod: lambda a, b: a % b, ast.Pow: lambda a, b: a ** b,
    ast.LShift: lambda a, b: a << b, ast.RShift: lambda a, b: a >> b, ast.BitOr: lambda a, b: a | b,
    ast.BitAnd: lambda a, b: a & b, ast.BitXor: lambda a, b: a ^ b, ast.Div: lambda a, b: a / b,
}


def const_eval(node: ast.AST, env: Optional[dict] = None):
    """Evaluate a literal expression; raises NotConst for anything outside the whitelist.  Nothing is executed
    except arithmetic on literals, slicing, int()/str.format()/len()/struct.calcsize on literals."""
    env = env or {}
    if isinstance(node, ast.Constant):
        return node.value
    if isinstance(node, ast.Name):
        if node.id in env:
            return env[node.id]
        raise NotConst(node.id)
    if isinstance(node, ast.UnaryOp):
        v = const_eval(node.operand, env)
        if isinstance(node.op, ast.USub):
            return -v
        if isinstance(node.op, ast.Not):
            return not v
        if isinstance(node.op, ast.Invert):
            return ~v
        if isinstance(node.op, ast.UAdd):
            return +v
    if isinstance(node, ast.BinOp) and type(node.op) in _BINOPS:
        a, b = const_eval(node.left, env), const_eval(node.right, env)
        if isinstance(node.op, ast.Pow) and (not isinstance(b, int) or abs(b) > 64):
            raise NotConst("pow")
        if isinstance(node.op, ast.Mult) and isinstance(a, (str, bytes, list)) and isinstance(b, int) and b > 4096:
            raise NotConst("mult")
        try:
            return _BINOPS[type(node.op)](a, b)
        except Exception as exc:  # noqa: BLE001
            raise NotConst(str(exc))
    if isinstance(node, (ast.List, ast.Tuple)):
        vals = [const_eval(e, env) for e in node.elts]
        return vals if isinstance(node, ast.List) else tuple(vals)
    if isinstance(node, ast.Subscript):
        v = const_eval(node.value, env)
        if isinstance(node.slice, ast.Slice):
            lo = const_eval(node.slice.lower, env) if node.slice.lower else None
            hi = const_eval(node.slice.upper, env) if node.slice.upper else None
            st = const_eval(node.slice.step, env) if node.slice.step else None
            return v[lo:hi:st]
        return v[const_eval(node.slice, env)]
    if isinstance(node, ast.ListComp) and len(node.generators) == 1 and not node.generators[0].ifs:
        g = node.generators[0]
        it = const_eval(g.iter, env)
        if isinstance(g.target, ast.Name) and len(it) <= 4096:
            return [const_eval(node.elt, {**env, g.target.id: x}) for x in it]
        raise NotConst("comp")
    if isinstance(node, ast.Call):
        f = node.func
        args = [const_eval(a, env) for a in node.args]
        if node.keywords:
            raise NotConst("kw")
        if isinstance(f, ast.Name):
            if f.id == "range" and all(isinstance(a, int) for a in args) and len(range(*args)) <= 4096:
                return list(range(*args))
            if f.id == "reversed" and len(args) == 1 and isinstance(args[0], (list, tuple, str)):
                return list(reversed(args[0]))
            if f.id == "int" and args:
                try:
                    return int(*args)
                except Exception as exc:  # noqa: BLE001
                    raise NotConst(str(exc))
            if f.id == "len":
                return len(args[0])
            if f.id in ("sum", "min", "max", "abs", "tuple", "list", "str", "bool", "float"):
                try:
                    return {"sum": sum, "min": min, "max": max, "abs": abs, "tuple": tuple, "list": list,
                            "str": str, "bool": bool, "float": float}[f.id](*args)
                except Exception as exc:  # noqa: BLE001
                    raise NotConst(str(exc))
        if isinstance(f, ast.Attribute):
            if f.attr == "format" and isinstance(f.value, ast.Constant) and isinstance(f.value.value, str):
                return f.value.value.format(*args)
            if f.attr == "calcsize":
                return struct.calcsize(*args)
            recv = const_eval(f.value, env)
            if isinstance(recv, str) and f.attr in ("upper", "lower", "strip", "replace", "lstrip", "rstrip"):
                return getattr(recv, f.attr)(*args)
        raise NotConst(ast.unparse(node))
    if isinstance(node, ast.Compare) and len(node.ops) == 1:
        a, b = const_eval(node.left, env), const_eval(node.comparators[0], env)
        op = node.ops[0]
        table = {ast.Eq: a == b, ast.NotEq: a != b}
        try:
            table.update({ast.Lt: a < b, ast.LtE: a <= b, ast.Gt: a > b, ast.GtE: a >= b})
        except TypeError:
            pass
        if type(op) in table:
            return table[type(op)]
    if isinstance(node, ast.JoinedStr):
        out = ""
        for v in node.values:
            if isinstance(v, ast.Constant):
                out += v.value
            else:
                raise NotConst("fstring")
        return out
    raise NotConst(type(node).__name__)


def try_const(node, env=None, default=None):
    try:
        return const_eval(node, env)
    except NotConst:
        return default


# ----------------------------------------------------------------------------------------- small AST helpers

def is_self_attr(node, attr=None, selfname="self") -> bool:
    return isinstance(node, ast.Attribute) and isinstance(node.value, ast.Name) and node.value.id == selfname \
        and (attr is None or node.attr == attr)


def norm(node) -> str:
    """Normalised statement / expression text used as a construct key (independent of line numbers, layout)."""
    try:
        return " ".join(ast.unparse(node).split())
    except Exception:  # noqa: BLE001
        return type(node).__name__


def calls_in(node):
    for n in ast.walk(node):
        if isinstance(n, ast.Call):
            yield n


def call_name(call: ast.Call) -> str:
    f = call.func
    if isinstance(f, ast.Name):
        return f.id
    if isinstance(f, ast.Attribute):
        return f.attr
    return ""


def kw(call: ast.Call, name: str):
    for k in call.keywords:
        if k.arg == name:
            return k.value
    return None


def contains_raise(stmts) -> bool:
    for st in stmts:
        for n in ast.walk(st):
            if isinstance(n, ast.Raise):
                return True
    return False


def top_level_stmts(func: FuncInfo):
    return list(func.node.body)


def find_super_init_call(func: FuncInfo) -> Optional[ast.stmt]:
    for st in func.node.body:
        if isinstance(st, ast.Expr) and isinstance(st.value, ast.Call):
            c = st.value
            if isinstance(c.func, ast.Attribute) and c.func.attr == "__init__" and isinstance(c.func.value, ast.Call) \
                    and isinstance(c.func.value.func, ast.Name) and c.func.value.func.id == "super":
                return st
    return None


# ----------------------------------------------------------------------------------------- EFLR model tables

class AttrDecl:
    def __init__(self, item_cls, field, attr_cls, label, call, stmt, func):
        self.item_cls: ClassInfo = item_cls
        self.field: str = field
        self.attr_cls: ClassInfo = attr_cls
        self.label = label
        self.call: ast.Call = call
        self.stmt = stmt
        self.func: FuncInfo = func
        self.kwargs: dict[str, ast.expr] = {}
        self.top_level = True
        self.before_super = True

    @property
    def key(self):
        return f"{self.item_cls.name}.{self.field}"

    @property
    def where(self):
        return f"{self.func.module.relpath}:{self.stmt.lineno}"

    def rp66_label(self):
        if not isinstance(self.label, str):
            return None
        return self.label.strip("_").upper().replace("_", "-")


class Model:
    """The declarative heart of the code base, extracted from the source."""

    def __init__(self, ix: Index):
        self.ix = ix
        self.Attribute = ix.get_class("Attribute")
        self.EFLRItem = ix.get_class("EFLRItem")
        self.EFLRSet = ix.get_class("EFLRSet")
        self.LogicalFile = ix.get_class("LogicalFile")
        self.DLISFile = ix.get_class("DLISFile")
        self.item_classes = [c for c in ix.classes.values() if c is not self.EFLRItem
                             and c.is_subclass_of(self.EFLRItem)]
        self.set_classes = [c for c in ix.classes.values() if c is not self.EFLRSet
                            and c.is_subclass_of(self.EFLRSet)]
        self.attr_classes = [c for c in ix.classes.values() if c.is_subclass_of(self.Attribute)]
        self.decls: list[AttrDecl] = []
        for ic in self.item_classes:
            self._scan_item(ic)

    def _scan_item(self, ic: ClassInfo):
        init = ic.methods.get("__init__")
        if init is None:
            return
        sup = find_super_init_call(init)
        seen_super = False
        for st in init.node.body:
            if st is sup:
                seen_super = True
            for st2 in self._written_out(init, st):
                self._scan_stmt(ic, init, st2, top=True, before_super=not seen_super)

    def _written_out(self, init, st):
        """The declaration statement(s) `st` stands for, in the plain form `self.<field> = <AttributeClass>(<label>, k=v, ..)`:
        a loop over a constant tuple of names with `setattr(self, name, Cls(name))` is one assignment per name; a local alias
        (`make = partial(Cls, k=v)` / `make = Cls`) is replaced by what it stands for; `**<local dict literal>` is spelled
        out.  Synthetic nodes keep the line numbers of the statements they come from."""
        import copy
        aliases, dicts = {}, {}
        for a in init.node.body:
            if isinstance(a, ast.Assign) and len(a.targets) == 1 and isinstance(a.targets[0], ast.Name):
                v = a.value
                if isinstance(v, ast.Call) and isinstance(v.func, (ast.Name, ast.Attribute)) and \
                        (v.func.id if isinstance(v.func, ast.Name) else v.func.attr) == "partial" and v.args and \
                        len(v.args) == 1:
                    aliases[a.targets[0].id] = (v.args[0], list(v.keywords))
                elif isinstance(v, (ast.Name, ast.Attribute)):
                    t = self.ix.infer(v, Scope(self.ix, init))
                    if t is not None and t[0] == "cls":
                        aliases[a.targets[0].id] = (v, [])
                elif isinstance(v, ast.Dict) and all(isinstance(k, ast.Constant) and isinstance(k.value, str)
                                                      for k in v.keys):
                    dicts[a.targets[0].id] = v
                elif isinstance(v, ast.Call) and isinstance(v.func, ast.Name) and v.func.id == "dict" and not v.args \
                        and all(k.arg for k in v.keywords):
                    dicts[a.targets[0].id] = ast.Dict(keys=[ast.Constant(value=k.arg) for k in v.keywords],
                                                      values=[k.value for k in v.keywords])

        def plain(call):
            call = copy.copy(call)
            if isinstance(call.func, ast.Name) and call.func.id in aliases:
                fn, kws = aliases[call.func.id]
                call.func = fn
                call.keywords = list(kws) + list(call.keywords)
            kws = []
            for k in call.keywords:
                if k.arg is None and isinstance(k.value, ast.Name) and k.value.id in dicts:
                    d = dicts[k.value.id]
                    kws += [ast.keyword(arg=dk.value, value=dv) for dk, dv in zip(d.keys, d.values)]
                else:
                    kws.append(k)
            call.keywords = kws
            return call
        if isinstance(st, ast.Assign) and len(st.targets) == 1 and is_self_attr(st.targets[0]) \
                and isinstance(st.value, ast.Call):
            new = copy.copy(st)
            new.value = plain(st.value)
            return [ast.fix_missing_locations(ast.copy_location(new, st))]
        if isinstance(st, ast.For) and isinstance(st.target, ast.Name) and not st.orelse:
            names = None
            try:
                names = const_eval(st.iter)
            except NotConst:
                if isinstance(st.iter, ast.Name) and st.iter.id in init.module.assigns:
                    try:
                        names = const_eval(init.module.assigns[st.iter.id])
                    except NotConst:
                        names = None
            if isinstance(names, (list, tuple)) and names and all(isinstance(n, str) and n.isidentifier() for n in names):
                out = []
                for body_st in st.body:
                    c = body_st.value if isinstance(body_st, ast.Expr) else None
                    if not (isinstance(c, ast.Call) and isinstance(c.func, ast.Name) and c.func.id == "setattr" and
                            len(c.args) == 3 and isinstance(c.args[0], ast.Name) and c.args[0].id == "self" and
                            isinstance(c.args[1], ast.Name) and c.args[1].id == st.target.id and
                            isinstance(c.args[2], ast.Call)):
                        return [st]
                    for n in names:
                        class _Sub(ast.NodeTransformer):
                            def visit_Name(self, node, n=n):
                                if node.id == st.target.id:
                                    return ast.copy_location(ast.Constant(value=n), node)
                                return node
                        call = _Sub().visit(copy.deepcopy(c.args[2]))
                        asg = ast.Assign(targets=[ast.Attribute(value=ast.Name(id="self", ctx=ast.Load()), attr=n,
                                                                ctx=ast.Store())], value=plain(call))
                        out.append(ast.fix_missing_locations(ast.copy_location(asg, body_st)))
                return out
        return [st]

    def _scan_stmt(self, ic, init, st, top, before_super):
        if isinstance(st, ast.Assign) and len(st.targets) == 1 and is_self_attr(st.targets[0]) \
                and isinstance(st.value, ast.Call):
            t = self.ix.infer(st.value.func, Scope(self.ix, init))
            if t is not None and t[0] == "cls" and t[1].is_subclass_of(self.Attribute):
                call = st.value
                label = None
                if call.args:
                    label = try_const(call.args[0])
                elif kw(call, "label") is not None:
                    label = try_const(kw(call, "label"))
                else:
                    # classes like ReprCodeAttribute fix their label in their own constructor
                    label = self._fixed_label(t[1])
                d = AttrDecl(ic, st.targets[0].attr, t[1], label, call, st, init)
                d.kwargs = {k.arg: k.value for k in call.keywords if k.arg}
                d.top_level = top
                d.before_super = before_super
                self.decls.append(d)
                return
        # declarations hidden in nested blocks are recorded as conditional
        for field in ("body", "orelse", "finalbody", "handlers"):
            for sub in getattr(st, field, []) or []:
                if isinstance(sub, ast.ExceptHandler):
                    for s2 in sub.body:
                        self._scan_stmt(ic, init, s2, False, before_super)
                elif isinstance(sub, ast.stmt):
                    self._scan_stmt(ic, init, sub, False, before_super)

    def _fixed_label(self, attr_cls: ClassInfo):
        init = attr_cls.lookup("__init__")
        if init is None:
            return None
        sup = find_super_init_call(init)
        if sup is None:
            return None
        c = sup.value
        if c.args:
            return try_const(c.args[0])
        return try_const(kw(c, "label")) if kw(c, "label") is not None else None

    def decls_of(self, item_cls: ClassInfo) -> list[AttrDecl]:
        out = []
        for c in reversed(item_cls.mro()):
            out += [d for d in self.decls if d.item_cls is c]
        return out

    # effective constructor keyword (following super().__init__ chains of the Attribute subclasses)
    def effective_kw(self, d: AttrDecl, name: str):
        """Constant value of keyword `name` as it reaches Attribute.__init__, or None if not determined / default."""
        val = try_const(d.kwargs[name], default=NotConst) if name in d.kwargs else None
        if val is NotConst:
            val = None
        cls = d.attr_cls
        for c in cls.mro():
            init = c.methods.get("__init__")
            if init is None or c is self.Attribute:
                continue
            sup = find_super_init_call(init)
            if sup is None:
                continue
            forced = kw(sup.value, name)
            if forced is not None:
                v = try_const(forced, default=NotConst)
                if v is not NotConst:
                    val = v
        if val is None:
            ainit = self.Attribute.methods.get("__init__")
            if ainit is not None:
                a = ainit.node.args
                names = [p.arg for p in a.args]
                if name in names:
                    idx = names.index(name) - (len(names) - len(a.defaults))
                    if idx >= 0:
                        val = try_const(a.defaults[idx])
        return val

    def class_const(self, cls: ClassInfo, name: str):
        ca = cls.lookup_class_attr(name)
        if ca is None:
            return None
        return ca[0]

    # -------------------------------------------------------------- add_* forwarding
    def add_methods(self):
        """[(method FuncInfo, item ClassInfo, constructor Call)] for every LogicalFile.add_* that builds an item."""
        out = []
        for name, f in self.LogicalFile.methods.items():
            if not name.startswith("add_"):
                continue
            sc = Scope(self.ix, f)
            found = False
            for n in walk_local(f.node):
                if isinstance(n, ast.Call):
                    t = self.ix.infer(n.func, sc)
                    if t is not None and t[0] == "cls" and t[1].is_subclass_of(self.EFLRItem):
                        out.append((f, t[1], n))
                        found = True
                        break
            if found:
                continue
            # the item is built by a helper of the logical file that is handed the item class: the "constructor call"
            # of the add_* method is then its call of that helper
            for n in walk_local(f.node):
                if not isinstance(n, ast.Call):
                    continue
                try:
                    tg = [g for g in self.ix.resolve_call(n, sc)[0] if getattr(g, "cls", None) is self.LogicalFile]
                except Exception:  # noqa: BLE001
                    tg = []
                for g in tg:
                    called = {c.func.id for c in walk_local(g.node) if isinstance(c, ast.Call)
                              and isinstance(c.func, ast.Name) and c.func.id in g.param_names}
                    gp = g.param_names[1:] if g.kind != "staticmethod" else g.param_names
                    for pname in called:
                        arg = None
                        if pname in gp and gp.index(pname) < len(n.args):
                            arg = n.args[gp.index(pname)]
                        for k in n.keywords:
                            if k.arg == pname:
                                arg = k.value
                        t = self.ix.infer(arg, sc) if arg is not None else None
                        if t is not None and t[0] == "cls" and t[1].is_subclass_of(self.EFLRItem):
                            out.append((f, t[1], n))
                            found = True
                            break
                    if found:
                        break
                if found:
                    break
        return out


# ------------------------------------------------------------------------------------- module-level registries
def module_dict_expr(ix: Index, mod, name: str):
    """The effective initialiser of a module-level dict `name`: the entries of its literal plus the entries registered at
    import time by (a) module-level statements `name[K] = V` and (b) the registry-decorator idiom

        def deco(K):                      @deco(SomeKey)
            def register(func):           def some_function(...): ...
                name[K] = func
                return func
            return register

    Returns an ast.Dict (keys / values are the original expression nodes; a decorated function is an ast.Name), or the
    original initialiser when it is not a dict literal / dict() call.  Other writers of the table (inside functions
    that run later) are not import-time registrations and are left to the rules that look for run-time mutation."""
    init = mod.assigns.get(name)
    if isinstance(init, ast.Call) and isinstance(init.func, ast.Name) and init.func.id == "dict" and not init.args \
            and not init.keywords:
        init = ast.Dict(keys=[], values=[])
    if not isinstance(init, ast.Dict):
        return init
    keys, values = list(init.keys), list(init.values)
    for st in mod.tree.body:
        if isinstance(st, ast.Assign) and len(st.targets) == 1 and isinstance(st.targets[0], ast.Subscript) \
                and isinstance(st.targets[0].value, ast.Name) and st.targets[0].value.id == name:
            keys.append(st.targets[0].slice)
            values.append(st.value)
    # registry decorators defined in this module
    factories = {}
    for fn in mod.tree.body:
        if not isinstance(fn, ast.FunctionDef) or len(fn.args.args) != 1:
            continue
        inner = [s for s in fn.body if isinstance(s, ast.FunctionDef)]
        rets = [s for s in fn.body if isinstance(s, ast.Return)]
        if len(inner) != 1 or len(rets) != 1 or not isinstance(rets[0].value, ast.Name) or \
                rets[0].value.id != inner[0].name or len(inner[0].args.args) != 1:
            continue
        kparam, fparam = fn.args.args[0].arg, inner[0].args.args[0].arg
        # (docstrings, assertions and log calls in the registering function do not change what is registered)
        body = [s for s in inner[0].body if not (
            (isinstance(s, ast.Expr) and isinstance(s.value, ast.Constant)) or isinstance(s, ast.Assert) or
            (isinstance(s, ast.Expr) and isinstance(s.value, ast.Call) and isinstance(s.value.func, ast.Attribute)
             and isinstance(s.value.func.value, ast.Name) and s.value.func.value.id in ("logger", "logging")))]
        if len(body) == 2 and isinstance(body[0], ast.Assign) and len(body[0].targets) == 1 and \
                isinstance(body[0].targets[0], ast.Subscript) and isinstance(body[0].targets[0].value, ast.Name) and \
                body[0].targets[0].value.id == name and isinstance(body[0].targets[0].slice, ast.Name) and \
                body[0].targets[0].slice.id == kparam and isinstance(body[0].value, ast.Name) and \
                body[0].value.id == fparam and isinstance(body[1], ast.Return) and \
                isinstance(body[1].value, ast.Name) and body[1].value.id == fparam:
            factories[fn.name] = True
    if factories:
        for fn in mod.tree.body:
            if isinstance(fn, ast.FunctionDef):
                for d in fn.decorator_list:
                    if isinstance(d, ast.Call) and isinstance(d.func, ast.Name) and d.func.id in factories \
                            and len(d.args) == 1 and not d.keywords:
                        keys.append(d.args[0])
                        values.append(ast.copy_location(ast.Name(id=fn.name, ctx=ast.Load()), fn))
    if len(keys) == len(init.keys):
        return init
    out = ast.Dict(keys=keys, values=values)
    ast.copy_location(out, init)
    ast.fix_missing_locations(out)
    return out


def import_time_registrars(ix: Index, mod, name: str) -> set:
    """Names of the (nested) functions of the registry-decorator idiom that write `name` at import time only."""
    out = set()
    eff = module_dict_expr(ix, mod, name)
    if eff is mod.assigns.get(name):
        return out
    for fn in mod.tree.body:
        if isinstance(fn, ast.FunctionDef):
            for inner in fn.body:
                if isinstance(inner, ast.FunctionDef) and any(
                        isinstance(n, ast.Subscript) and isinstance(n.value, ast.Name) and n.value.id == name
                        and isinstance(n.ctx, ast.Store) for n in ast.walk(inner)):
                    # only used as a decorator at module level?
                    used_elsewhere = False
                    for f in ix.functions.values():
                        if f.module is mod:
                            for n in walk_local(f.node):
                                if isinstance(n, ast.Call) and isinstance(n.func, ast.Name) and n.func.id == fn.name:
                                    used_elsewhere = True
                    if not used_elsewhere:
                        out.add(f"{fn.name}.<locals>.{inner.name}")
    return out


def item_list_field(ix: Index) -> str:
    """Name of the EFLRSet field holding the registered items: the list `register_item` appends its argument to."""
    eset = ix.get_class("EFLRSet")
    for f in eset.methods.values():
        params = set(f.param_names[1:])
        for n in walk_local(f.node):
            if isinstance(n, ast.Call) and isinstance(n.func, ast.Attribute) and n.func.attr == "append" \
                    and isinstance(n.func.value, ast.Attribute) and isinstance(n.func.value.value, ast.Name) \
                    and n.func.value.value.id == "self" and len(n.args) == 1 and isinstance(n.args[0], ast.Name) \
                    and n.args[0].id in params:
                return n.func.value.attr
    raise AnalysisError("EFLRSet: the list the items are registered in was not found")


def dispatch_table_name(ix: Index) -> str:
    """Name of the module-level dict `write_struct` looks the encoder up in (`<name>.get(representation_code, ...)`)."""
    ws = ix.get_function("write_struct")
    first = ws.param_names[0]
    for n in walk_local(ws.node):
        if isinstance(n, ast.Call) and isinstance(n.func, ast.Attribute) and n.func.attr in ("get", "__getitem__") \
                and isinstance(n.func.value, ast.Name) and n.args and isinstance(n.args[0], ast.Name) \
                and n.args[0].id == first and n.func.value.id in ws.module.assigns:
            return n.func.value.id
        if isinstance(n, ast.Subscript) and isinstance(n.value, ast.Name) and isinstance(n.slice, ast.Name) \
                and n.slice.id == first and n.value.id in ws.module.assigns:
            return n.value.id
    raise AnalysisError("write_struct: the dispatch table it consults was not found")


def enum_converter(ix, te):
    """The function that converts a value for an enum-valued attribute, by role: the closure ValidatorEnum.make_converter
    returns, or - when make_converter returns `partial(cls.method, label, allow_none, soft)` - that method.
    -> (FuncInfo, term of the value parameter, term naming the enum class inside it)"""
    from . import AnalysisError
    mk = ix.get_class("ValidatorEnum").lookup("make_converter")
    if mk is None:
        raise AnalysisError("ValidatorEnum.make_converter not found")
    nested = [f for f in ix.functions.values() if f.parent is mk and isinstance(f.node, ast.FunctionDef)]
    if len(nested) == 1:
        return nested[0], ("param", nested[0].param_names[0]), ("free", "cls")
    su = te.summary(mk)
    for _, t, _n in su.returns:
        if t[0] == "call" and t[1][0] == "global" and t[1][1].split(".")[-1] == "partial" and t[2] and \
                t[2][0][0] == "attr" and t[2][0][1] in (("param", "cls"), ("param", "self")):
            m = mk.cls.lookup(t[2][0][2])
            if m is not None and m.param_names:
                bound = len(t[2]) - 1 + len(t[3])
                params = m.param_names[1:] if m.kind != "staticmethod" else m.param_names
                rest = [p for p in params[bound - len(t[3]):] if p not in {k for k, _ in t[3]}]
                if len(rest) == 1:
                    return m, ("param", rest[0]), ("param", m.param_names[0])
    raise AnalysisError("ValidatorEnum.make_converter: the converter it returns (closure or partial of a method) was "
                        "not found")
