"""Desugaring of `match` statements into the if / elif chains they abbreviate (applied by the Index to the parsed trees,
never to the files; line numbers are kept).  Only the pattern forms whose meaning is an isinstance / equality / identity
test on the subject are rewritten - class patterns without sub-patterns (`case str():`), value patterns (`case 3:`,
`case Color.RED:`), singletons (`case None:`), or-patterns of those, capture / wildcard patterns (`case x:`, `case _:`) and
`as` bindings, each with an optional guard.  A `match` using any other form (sequence, mapping, class patterns with
sub-patterns) is left as it is; the engines then report it as a construct outside their subset (exit 2), as before.
"""

from __future__ import annotations

import ast
import itertools

_ids = itertools.count(1)


class _Unsupported(Exception):
    pass


def _test(pat, subj: str):
    """(test expression or None for 'always', [(name, value expression)] bindings)"""
    def S():
        return ast.Name(id=subj, ctx=ast.Load())
    if isinstance(pat, ast.MatchClass):
        if pat.patterns or pat.kwd_patterns:
            raise _Unsupported
        return ast.Call(func=ast.Name(id="isinstance", ctx=ast.Load()), args=[S(), pat.cls], keywords=[]), []
    if isinstance(pat, ast.MatchValue):
        return ast.Compare(left=S(), ops=[ast.Eq()], comparators=[pat.value]), []
    if isinstance(pat, ast.MatchSingleton):
        return ast.Compare(left=S(), ops=[ast.Is()], comparators=[ast.Constant(value=pat.value)]), []
    if isinstance(pat, ast.MatchAs):
        if pat.pattern is None:
            return None, ([(pat.name, S())] if pat.name else [])
        t, b = _test(pat.pattern, subj)
        return t, b + ([(pat.name, S())] if pat.name else [])
    if isinstance(pat, ast.MatchOr):
        tests = []
        for p in pat.patterns:
            t, b = _test(p, subj)
            if b:
                raise _Unsupported
            if t is None:
                return None, []
            tests.append(t)
        # isinstance(x, A) or isinstance(x, B)  ->  isinstance(x, (A, B))
        if all(isinstance(t, ast.Call) and isinstance(t.func, ast.Name) and t.func.id == "isinstance" for t in tests):
            return ast.Call(func=ast.Name(id="isinstance", ctx=ast.Load()),
                            args=[S(), ast.Tuple(elts=[t.args[1] for t in tests], ctx=ast.Load())], keywords=[]), []
        return ast.BoolOp(op=ast.Or(), values=tests), []
    raise _Unsupported


def _rewrite_match(node: ast.Match):
    subj = f"__match_subject_{next(_ids)}"
    cases = []
    for case in node.cases:
        test, binds = _test(case.pattern, subj)
        pre = [ast.Assign(targets=[ast.Name(id=n, ctx=ast.Store())], value=v) for n, v in binds]
        if case.guard is not None:
            if binds:
                raise _Unsupported      # the guard may use the captured name: keep it simple
            test = case.guard if test is None else ast.BoolOp(op=ast.And(), values=[test, case.guard])
        cases.append((test, pre + list(case.body)))
    orelse: list = []
    for test, body in reversed(cases):
        # (an irrefutable case makes the ones after it unreachable)
        orelse = body if test is None else [ast.If(test=test, body=body, orelse=orelse)]
    return [ast.Assign(targets=[ast.Name(id=subj, ctx=ast.Store())], value=node.subject)] + orelse


class _Desugar(ast.NodeTransformer):
    def __init__(self):
        self.count = 0

    def visit_Match(self, node):
        self.generic_visit(node)
        try:
            new = _rewrite_match(node)
        except _Unsupported:
            return node
        self.count += 1
        for n in new:
            ast.copy_location(n, node)
            for sub in ast.walk(n):
                if not hasattr(sub, "lineno"):
                    ast.copy_location(sub, node)
            ast.fix_missing_locations(n)
        return new


def desugar(tree: ast.Module) -> int:
    d = _Desugar()
    d.visit(tree)
    return d.count
