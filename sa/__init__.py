"""Static analysis machinery for the dliswriter properties (see /verif/DESIGN.md).

Nothing in this package imports or executes dliswriter; every decision is taken from the
syntax trees of /repo/src/dliswriter/**/*.py, parsed afresh on every run.
"""

import os

REPO = os.environ.get("SA_REPO", "/repo")
PKG_DIR = os.path.join(REPO, "src", "dliswriter")
VERIF = os.path.dirname(os.path.dirname(os.path.abspath(__file__)))


class AnalysisError(Exception):
    """The analysis could not be carried out (vanished anchor, unsupported construct, ...): exit 2."""
