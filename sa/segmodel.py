"""Shared abstract runs for the physical-layout properties (C01, C02, C15, C16): the visible-record-length
validator, the segmenter and the visible-record builder are interpreted once by BytesAI for *all* body lengths S >= 0
and *all* record lengths accepted by the validator; the property modules then state obligations on the results."""

from __future__ import annotations

import ast

from . import AnalysisError
from .absint import (Interp, State, SeqV, IntV, BoolV, TupleV, ObjV, OpaqueV, NoneV, sym_bool, Out, NONE)
from .linarith import LinExpr, Cons, le, lt, ge, gt, eq, entails, infeasible_cached, find_model
from .index import Scope, walk_local
from .common import norm


class SegmentModel:
    def __init__(self, ix, cg):
        self.ix = ix
        self.cg = cg
        self.it = Interp(ix)
        self.vrl = LinExpr.sym("vrl")
        self.S = LinExpr.sym("S")
        self._find_anchors()
        self._run_validator()
        self._capacity_expr()
        self._run_segmenter()

    # ------------------------------------------------------------------ anchors (by role, names as fallback)
    def _find_anchors(self):
        ix = self.ix
        self.write = ix.get_method("DLISFile", "write")
        # the writer class = the class constructed with visible_record_length= on the write path
        writer_cls = None
        for f in [self.write] + list(self.write.nested.values()):
            sc = Scope(ix, f)
            for n in walk_local(f.node):
                if isinstance(n, ast.Call) and any(k.arg == "visible_record_length" for k in n.keywords):
                    t = ix.infer(n.func, sc)
                    if t is not None and t[0] == "cls":
                        writer_cls = t[1]
                        self.writer_ctor_call = (f, n)
        if writer_cls is None:
            raise AnalysisError("anchor: class constructed with visible_record_length= in DLISFile.write not found")
        self.writer_cls = writer_cls
        # record loop: the method of the writer class containing a call of a generator method on represent_as_bytes()
        self.record_loop = None
        for m in writer_cls.methods.values():
            for n in walk_local(m.node):
                if isinstance(n, ast.For):
                    for c in ast.walk(n.iter):
                        if isinstance(c, ast.Call) and isinstance(c.func, ast.Attribute) \
                                and isinstance(c.func.value, ast.Call) \
                                and isinstance(c.func.value.func, ast.Attribute) \
                                and c.func.value.func.attr == "represent_as_bytes":
                            self.record_loop = (m, n)
                            self.seg_call = c
        if self.record_loop is None:
            raise AnalysisError("anchor: loop over <record>.represent_as_bytes().<segmenter>(...) not found in "
                                f"{writer_cls.name}")
        seg_name = self.seg_call.func.attr
        cands = [f for f in ix.functions.values() if f.name == seg_name and f.cls is not None and f.is_generator()]
        if len(cands) != 1:
            raise AnalysisError(f"anchor: segmenter generator '{seg_name}': {len(cands)} candidates")
        self.segmenter = cands[0]
        self.lrb_cls = self.segmenter.cls
        # the visible-record builder: the method of the writer called with the loop targets
        loop = self.record_loop[1]
        self.vr_builder = None
        self.add_bytes_call = None
        sc = Scope(ix, self.record_loop[0])
        for n in ast.walk(loop):
            if isinstance(n, ast.Call):
                tg, _, _ = ix.resolve_call(n, sc)
                for t in tg:
                    if t.cls is writer_cls and t is not self.record_loop[0]:
                        self.vr_builder = t
                        self.vr_call = n
        if self.vr_builder is None:
            raise AnalysisError("anchor: visible record builder call inside the record loop not found")
        # validator: static/regular method of the writer called from __init__ with the record length
        init = writer_cls.lookup("__init__")
        self.writer_init = init
        if init is None:
            raise AnalysisError("anchor: writer constructor not found")

    # ------------------------------------------------------------------ R01.4: accepted record lengths
    def _run_validator(self):
        it, ix = self.it, self.ix
        st = State()
        writer = st.new_obj(self.writer_cls, tag="writer")
        outs = it.call_function(self.writer_init, [writer, OpaqueV("filename"), IntV(self.vrl)], {}, st,
                                self.writer_init.node)
        self.validator_normal = [o for o in outs if o.kind == "val"]
        self.validator_raise = [o for o in outs if o.kind == "raise"]
        if not self.validator_normal:
            raise AnalysisError("writer constructor has no non-raising path")
        self.writer_fields = []
        for o in self.validator_normal:
            self.writer_fields.append((o.st, o.st.fields(writer)))
        self.writer_obj = writer

    def accepted_constraints(self, b_name="vrl_half"):
        b = LinExpr.sym(b_name)
        return [eq(self.vrl, 2 * b), ge(self.vrl, 20), le(self.vrl, 16384)]

    # ------------------------------------------------------------------ capacity expression handed to the segmenter
    def _capacity_expr(self):
        it, ix = self.it, self.ix
        m, loop = self.record_loop
        call = self.seg_call
        if len(call.args) != 1:
            raise AnalysisError("segmenter call: expected one positional argument (the capacity)")
        arg = call.args[0]
        expr = arg
        if isinstance(arg, ast.Name):
            defs = [n for n in walk_local(m.node) if isinstance(n, ast.Assign) and len(n.targets) == 1
                    and isinstance(n.targets[0], ast.Name) and n.targets[0].id == arg.id]
            if len(defs) != 1:
                raise AnalysisError(f"capacity variable {arg.id}: {len(defs)} definitions")
            expr = defs[0].value
        self.capacity_src = norm(expr)
        st0, fields = self.writer_fields[0]
        st = st0.clone()
        st.frames.append({"self": self.writer_obj})
        it.cur_func.append(m)
        try:
            outs = it.eval(expr, st)
        finally:
            it.cur_func.pop()
        vals = [o for o in outs if o.kind == "val" and isinstance(o.value, IntV)]
        if len(vals) != 1:
            raise AnalysisError(f"capacity expression `{self.capacity_src}` did not evaluate to one integer")
        self.M = vals[0].value.e
        self.base_cons = list(vals[0].st.cons)

    # ------------------------------------------------------------------ the segmenter for all S, all accepted vrl
    def _run_segmenter(self):
        it = self.it
        st = State()
        for c in self.base_cons:
            st.add(c)
        st.add(ge(self.S, 0))
        self.is_eflr = sym_bool(st, "is_eflr")
        obj = st.new_obj(self.lrb_cls, tag="record", fields={})
        init = self.lrb_cls.lookup("__init__")
        body = SeqV("bytes", self.S, [("param", self.S, "body")])
        lrtype = SeqV("bytes", 1, [("param", LinExpr.c(1), "lrtype")])
        outs = it.call_function(init, [obj, body, lrtype, self.is_eflr], {}, st, init.node)
        inits = [o for o in outs if o.kind == "val"]
        if len(inits) != 1:
            raise AnalysisError("LogicalRecordBytes constructor: expected exactly one path")
        st = inits[0].st
        self.record_obj = obj
        self.record_fields_after_init = dict(st.fields(obj))
        outs = it.call_function(self.segmenter, [obj, IntV(self.M)], {}, st, self.segmenter.node)
        self.seg_outs = outs
        self.loop_reports = [sp.report for sp in it.loop_specs.values()]
        self.yields = []
        seen = set()
        for o in outs:
            for e in o.st.events:
                if e[0] == "yield":
                    key = (id(e[2]), id(e[3]))
                    if key in seen:
                        continue
                    seen.add(key)
                    exact = not any(t == ("loop", "inductive") for t in o.st.trace)
                    self.yields.append({"where": e[1], "value": e[2], "cons": e[3], "exact": exact, "st": o.st})
        self.raises = [o for o in outs if o.kind == "raise"]
        self.exits = [o for o in outs if o.kind == "val"]
        self.iter_ends, self.loop_exits = [], []
        seen = set()
        for o in outs:
            for e in o.st.events:
                if e[0] == "iteration-end" and id(e[4]) not in seen:
                    seen.add(id(e[4]))
                    self.iter_ends.append(e)
                if e[0] == "loop-exit" and id(e[3]) not in seen:
                    seen.add(id(e[3]))
                    self.loop_exits.append(e)

    # ------------------------------------------------------------------ helpers for obligations
    @staticmethod
    def witness(cons, extra=()):
        m = find_model(list(cons) + list(extra), budget=400000)
        if m is None:
            return None
        return {k: v for k, v in m.items() if "#" not in k and not k.startswith("__")}

    def decompose_segment(self, y):
        """Split the yielded (bytes, size) into header / body slice / padding pieces; None if it has another shape."""
        v = y["value"]
        if not isinstance(v, TupleV) or len(v.items) != 2 or not isinstance(v.items[0], SeqV) \
                or not isinstance(v.items[1], IntV):
            return None
        seq, size = v.items
        return seq, size.e
