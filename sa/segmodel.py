"""Shared abstract runs for the physical-layout properties (C01, C02, C15, C16): the visible-record-length
validator, the segmenter and the visible-record builder are interpreted once by BytesAI for *all* body lengths S >= 0
and *all* record lengths accepted by the validator; the property modules then state obligations on the results."""

from __future__ import annotations

import ast

from . import AnalysisError
from .absint import (Interp, State, SeqV, IntV, BoolV, TupleV, ObjV, OpaqueV, NoneV, sym_bool, Out, NONE,
                     Unsupported)
from .linarith import LinExpr, Cons, le, lt, ge, gt, eq, entails, infeasible_cached, find_model
from .index import Scope, walk_local
from .common import norm


class LazyWitness:
    def __init__(self, alts):
        self.alts = alts

    def __or__(self, other):
        if other is None:
            return self
        return LazyWitness(self.alts + other.alts)

    __ror__ = __or__

    def resolve(self):
        for cons, extra in self.alts:
            m = find_model(cons + extra, budget=400000)
            if m is not None:
                return {k: v for k, v in m.items() if "#" not in k and not k.startswith("__")}
        return None


class SegmentModel:
    def __init__(self, ix, cg):
        self.ix = ix
        self.cg = cg
        self.it = Interp(ix)
        self.vrl = LinExpr.sym("vrl")
        self.S = LinExpr.sym("S")
        self._find_anchors()
        self._run_validator()
        self._capacity_expr()
        self.error = None
        try:
            self._run_segmenter()
        except Unsupported as exc:
            # structural rules can still be evaluated; the property module re-raises this if nothing else was found
            self.error = exc
            self.it.emit = type(self.it).emit.__get__(self.it)
            self.seg_outs, self.yields, self.raises, self.exits, self.iter_ends, self.loop_exits = [], [], [], [], [], []
            self.loop_reports = []

    # ------------------------------------------------------------------ anchors (by role, names as fallback)
    def _find_anchors(self):
        ix = self.ix
        self.write = ix.get_method("DLISFile", "write")
        # the writer class = the class constructed with visible_record_length= on the write path
        writer_cls = None
        # (searched in write itself, its nested functions / lambdas and the helpers it reaches: the driver code may be
        # split off into a private method)
        from .callgraph import CallGraph
        cands = [self.write] + list(self.write.nested.values())
        if getattr(self, "cg", None) is None:
            self.cg = CallGraph(ix)
        cg = self.cg
        cands += [f for f in cg.reachable([self.write]) if f not in cands and f.module is self.write.module]
        for f in cands:
            if writer_cls is not None:
                break
            sc = Scope(ix, f)
            for n in walk_local(f.node):
                if isinstance(n, ast.Call) and any(k.arg == "visible_record_length" for k in n.keywords):
                    t = ix.infer(n.func, sc)
                    if t is not None and t[0] == "cls":
                        writer_cls = t[1]
                        self.writer_ctor_call = (f, n)
        if writer_cls is None:
            raise AnalysisError("anchor: class constructed with visible_record_length= in DLISFile.write not found")
        self.writer_cls = writer_cls
        # record loop: the method of the writer class containing a call of a generator method on represent_as_bytes()
        self.record_loop = None
        gen_methods = {}
        for f in ix.functions.values():
            if f.cls is not None and f.parent is None and f.is_generator() and f.cls.lookup("make_segment") is not None:
                gen_methods[f.name] = f
        if not gen_methods:
            # fall back: any generator method of a class whose constructor takes the record bytes
            for f in ix.functions.values():
                if f.cls is not None and f.parent is None and f.is_generator() and "Bytes" in f.cls.name:
                    gen_methods[f.name] = f
        for m in writer_cls.methods.values():
            for n in walk_local(m.node):
                if isinstance(n, ast.For):
                    for c in ast.walk(n.iter):
                        if isinstance(c, ast.Call) and isinstance(c.func, ast.Attribute) \
                                and c.func.attr in gen_methods and "represent_as_bytes" in norm(m.node):
                            self.record_loop = (m, n)
                            self.seg_call = c
        if self.record_loop is None:
            raise AnalysisError("anchor: loop over <record>.represent_as_bytes().<segmenter>(...) not found in "
                                f"{writer_cls.name}")
        seg_name = self.seg_call.func.attr
        cands = [f for f in ix.functions.values() if f.name == seg_name and f.cls is not None and f.is_generator()]
        if len(cands) != 1:
            raise AnalysisError(f"anchor: segmenter generator '{seg_name}': {len(cands)} candidates")
        self.segmenter = cands[0]
        self.lrb_cls = self.segmenter.cls
        # the visible-record builder: the method of the writer called with the loop targets
        loop = self.record_loop[1]
        self.vr_builder = None
        self.add_bytes_call = None
        sc = Scope(ix, self.record_loop[0])
        for n in ast.walk(loop):
            if isinstance(n, ast.Call):
                tg, _, _ = ix.resolve_call(n, sc)
                for t in tg:
                    if t.cls is writer_cls and t is not self.record_loop[0]:
                        self.vr_builder = t
                        self.vr_call = n
        if self.vr_builder is None:
            raise AnalysisError("anchor: visible record builder call inside the record loop not found")
        # entry: the writer method the driver hands the logical records to (the record loop may sit in a helper of it)
        self.entry = self.record_loop[0]
        df, dn = self.writer_ctor_call
        sc = Scope(ix, df)
        reach_cache = {}
        for n in walk_local(df.node):
            if isinstance(n, ast.Call) and isinstance(n.func, ast.Attribute):
                tg, _, _ = ix.resolve_call(n, sc)
                for t in tg:
                    if t.cls is writer_cls and t.parent is None:
                        if t not in reach_cache:
                            reach_cache[t] = set(self.cg.reachable([t])) if self.cg is not None else {t}
                        if self.record_loop[0] in reach_cache[t] or t is self.record_loop[0]:
                            self.entry = t
        # validator: static/regular method of the writer called from __init__ with the record length
        init = writer_cls.lookup("__init__")
        self.writer_init = init
        if init is None:
            raise AnalysisError("anchor: writer constructor not found")

    # ------------------------------------------------------------------ R01.4: accepted record lengths
    def _run_validator(self):
        it, ix = self.it, self.ix
        st = State()
        writer = st.new_obj(self.writer_cls, tag="writer")
        outs = it.call_function(self.writer_init, [writer, OpaqueV("filename"), IntV(self.vrl)], {}, st,
                                self.writer_init.node)
        self.validator_normal = [o for o in outs if o.kind == "val"]
        self.validator_raise = [o for o in outs if o.kind == "raise"]
        if not self.validator_normal:
            raise AnalysisError("writer constructor has no non-raising path")
        self.writer_fields = []
        for o in self.validator_normal:
            self.writer_fields.append((o.st, o.st.fields(writer)))
        self.writer_obj = writer

    def accepted_constraints(self, b_name="vrl_half"):
        b = LinExpr.sym(b_name)
        return [eq(self.vrl, 2 * b), ge(self.vrl, 20), le(self.vrl, 16384)]

    # ------------------------------------------------------------------ capacity expression handed to the segmenter
    def _capacity_expr(self):
        it, ix = self.it, self.ix
        m, loop = self.record_loop
        call = self.seg_call
        if len(call.args) != 1:
            raise AnalysisError("segmenter call: expected one positional argument (the capacity)")
        arg = call.args[0]
        expr = arg
        if isinstance(arg, ast.Name):
            defs = [n for n in walk_local(m.node) if isinstance(n, ast.Assign) and len(n.targets) == 1
                    and isinstance(n.targets[0], ast.Name) and n.targets[0].id == arg.id]
            if len(defs) > 1:
                raise AnalysisError(f"capacity variable {arg.id}: {len(defs)} definitions")
            if defs:
                expr = defs[0].value   # (no local definition: a parameter of a helper; the interpretation of the
                #                         entry method computes it at the call site)
        self.capacity_src = norm(expr)
        st0, fields = self.writer_fields[0]
        self.base_cons = list(st0.cons)
        self.M = None

    # ------------------------------------------------------------------ the whole record loop, for all S, all vrl
    def _run_segmenter(self):
        """Interpret the writer's record loop itself (so that restructurings of the loop - fast paths, helper
        functions - are analysed as they are): one symbolic record with body length S, the segmenter generator
        inlined into the `for` that consumes it, the visible-record builder inlined, the output buffer replaced by a
        summary that logs each visible record handed over (the buffer itself is C10's subject)."""
        it = self.it
        ix = self.ix
        st0, fields = self.writer_fields[0]
        st = State()
        for c in self.base_cons:
            st.add(c)
        st.add(ge(self.S, 0))
        self.is_eflr = sym_bool(st, "is_eflr")
        writer = st.new_obj(self.writer_cls, tag="writer", fields=dict(fields))
        # the label has been written
        for k, v in list(st.fields(writer).items()):
            if isinstance(v, BoolV) and v.f == ("f",):
                st.fields(writer)[k] = BoolV(("t",))
        bw = [v for v in fields.values() if isinstance(v, ObjV)]
        for b in bw:
            if b.oid not in st.heap:
                st.heap[b.oid] = {"fields": dict(st0.heap[b.oid]["fields"])}
                st.next_oid = max(st.next_oid, b.oid + 1)
        lr_cls = ix.get_class("LogicalRecord")
        rab = lr_cls.lookup("represent_as_bytes")
        body = SeqV("bytes", self.S, [("param", self.S, "body")])
        lrtype = SeqV("bytes", 1, [("param", LinExpr.c(1), "lrtype")])
        init = self.lrb_cls.lookup("__init__")
        self.record_objs = []

        def represent_summary(interp, args, kwargs, s, node):
            obj = s.new_obj(self.lrb_cls, tag="record")
            outs = interp.call_function(init, [obj, body, lrtype, self.is_eflr], {}, s, node)
            res = []
            for o in outs:
                if o.kind == "val":
                    self.record_objs.append(obj)
                    self.record_fields_after_init = dict(o.st.fields(obj))
                    res.append(Out("val", o.st, obj))
                else:
                    res.append(o)
            return res
        it.summaries[rab.qualname] = represent_summary
        buf_cls = ix.get_class("BufferedOutput")
        add = buf_cls.lookup("add_bytes")
        drain = buf_cls.lookup("pass_bytes_to_writer")

        def add_summary(interp, args, kwargs, s, node):
            v = args[1] if len(args) > 1 else kwargs.get("bts")
            size = args[2] if len(args) > 2 else kwargs.get("size")
            s.events.append(("vr-out", interp.where(node), v, list(s.cons), size))
            return interp.val(s, NONE)

        def drain_summary(interp, args, kwargs, s, node):
            s.events.append(("drain", interp.where(node)))
            return interp.val(s, NONE)
        it.summaries[add.qualname] = add_summary
        it.summaries[drain.qualname] = drain_summary
        # segments handed over by the generator are logged so that tiling (one VR per segment) can be checked
        orig_emit = it.emit

        def emit(v, s, node):
            if it.cur_func and it.cur_func[-1] is self.segmenter:
                s.events.append(("segment", it.where(node), v, list(s.cons)))
            return orig_emit(v, s, node)
        it.emit = emit
        rec = st.new_obj(lr_cls, tag="logical-record")
        X = LinExpr.sym("output_chunk_size")
        st.add(ge(X, self.vrl))
        f = self.entry
        outs = it.drive(f, [writer, TupleV([rec], is_list=True), IntV(X)], {}, st)
        it.emit = orig_emit
        self.seg_outs = outs
        self.loop_reports = [sp.report for sp in it.loop_specs.values() if sp.report]
        self.yields = []
        seen = set()
        for o in outs:
            exact = not any(t == ("loop", "inductive") for t in o.st.trace)
            for e in o.st.events:
                if e[0] == "vr-out" and id(e[3]) not in seen:
                    seen.add(id(e[3]))
                    y = self._segment_from_vr(e, exact, o.st)
                    self.yields.append(y)
        self.raises = [o for o in outs if o.kind == "raise"]
        self.exits = [o for o in outs if o.kind == "val"]
        self.iter_ends, self.loop_exits = [], []
        seen = set()
        for o in outs:
            for e in o.st.events:
                if e[0] == "iteration-end" and id(e[4]) not in seen:
                    seen.add(id(e[4]))
                    self.iter_ends.append(e)
                if e[0] == "loop-exit" and id(e[3]) not in seen:
                    seen.add(id(e[3]))
                    self.loop_exits.append(e)

    def _segment_from_vr(self, e, exact, st):
        """A visible record handed to the buffer -> (segment bytes, size the segment header declares)."""
        _, where, vr, cons, size_arg = e
        y = {"where": where, "cons": cons, "exact": exact, "st": st, "vr": vr, "size_arg": size_arg,
             "value": None, "vr_header": None}
        if isinstance(vr, SeqV) and len(vr.pieces) >= 4 and vr.pieces[0][0] == "pack:>H":
            hdr = vr.pieces[:3]
            seg_pieces = vr.pieces[3:]
            seg_len = LinExpr.c(0)
            for p in seg_pieces:
                seg_len = seg_len + p[1]
            seg = SeqV("bytes", seg_len, list(seg_pieces))
            declared = None
            if seg_pieces and seg_pieces[0][0] == "pack:>H" and isinstance(seg_pieces[0][2][0], LinExpr):
                declared = seg_pieces[0][2][0]
            y["vr_header"] = hdr
            if declared is not None:
                y["value"] = TupleV([seg, IntV(declared)])
        return y

    # ------------------------------------------------------------------ helpers for obligations
    @staticmethod
    def witness(cons, extra=()):
        """A lazily computed concrete witness (model of the path condition + extra): only searched for when an
        obligation actually fails.  `a | b` = first alternative that has a model."""
        return LazyWitness([(list(cons), list(extra))])

    def decompose_segment(self, y):
        """Split the yielded (bytes, size) into header / body slice / padding pieces; None if it has another shape."""
        v = y["value"]
        if not isinstance(v, TupleV) or len(v.items) != 2 or not isinstance(v.items[0], SeqV) \
                or not isinstance(v.items[1], IntV):
            return None
        seq, size = v.items
        return seq, size.e


_MODELS: dict = {}


def shared_model(ix, cg):
    """One SegmentModel per index object (several rule groups of one check run interpret the same record loop)."""
    key = id(ix)
    m = _MODELS.get(key)
    if m is None or m[0] is not ix:
        m = (ix, SegmentModel(ix, cg))
        _MODELS.clear()
        _MODELS[key] = m
    return m[1]
