"""Positive control for the C19 taint engine: never imported or executed; analysed as source only."""
import numpy as np


class Holder:
    def __init__(self, arr):
        self._rows = arr

    def rows(self):
        for r in self._rows:
            yield r


def helper(x):
    x.sort()                       # sink 1: in-place method on a parameter bound to caller data


def write_rows(data):
    view = data["a"][2:5]
    view[0] = 1                    # sink 2: slice store through a view
    helper(data["b"].T)
    h = Holder(data["c"])
    for row in h.rows():
        row.byteswap(True)         # sink 3: in-place byte swap of a yielded row
    np.nan_to_num(data["d"], copy=False)   # sink 4
    data["e"] = np.zeros(3)        # sink 5: the caller's dict
    safe = data["f"].astype(float)
    safe[0] = 2                    # not a sink: astype copies
