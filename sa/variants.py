"""Seeded breaks and behaviour-preserving twins for the two-way self-validation (see selftest.py).

Each variant: id, prop, edits = [(path relative to src/dliswriter, old text, new text)], expect = rule id(s) that must
fire, or 'silent'.  The old text must occur exactly once in the file.
"""

VARIANTS = []


def V(id, prop, edits, expect, what=""):
    if isinstance(edits, tuple):
        edits = [edits]
    VARIANTS.append({"id": id, "prop": prop, "edits": edits, "expect": expect, "what": what})


HCM = "utils/high_compatibility_mode.py"
VC = "utils/internal/value_checkers.py"
VE = "utils/internal/validator_enum.py"
FILE = "file/file.py"
FRAME = "logical_record/eflr_types/frame.py"
ORIGIN = "logical_record/eflr_types/origin.py"

# ---------------------------------------------------------------------------------------------- C17
V("C17-b1", "C17", (HCM, "    try:\n        yield\n    finally:\n        global_config.high_compat_mode = arch",
                    "    yield\n    global_config.high_compat_mode = arch"), "R17.1",
  "restore only on the normal path: an exception inside the context leaves the mode on")
V("C17-b2", "C17", (HCM, "        global_config.high_compat_mode = arch", "        global_config.high_compat_mode = False"),
  "R17.1", "restore a constant: leaving a nested context switches the outer one off")
V("C17-b3", "C17", (VC, "HC_STRING_PATTERN.fullmatch(s)", "HC_STRING_PATTERN.match(s)"), "R17.5",
  "prefix match only")
V("C17-b4", "C17", (VC, 'r"[A-Z0-9_-]+"', 'r"[A-Za-z0-9_-]+"'), "R17.5", "pattern admits lower case")
V("C17-b5", "C17", (FILE, "    if global_config.high_compat_mode:\n        raise RuntimeError(message)\n    logger.warning(message)",
                    "    logger.warning(message)"), "R17.4", "raise_or_warn only warns")
V("C17-b6", "C17", (VE, "if soft and not global_config.high_compat_mode:", "if soft:"), "R17.4",
  "soft enum converter never raises")
V("C17-b7", "C17", (FRAME, "                if global_config.high_compat_mode:\n                    raise RuntimeError(m)\n", ""),
  "R17.4", "non-uniform spacing tolerated in the mode")
V("C17-b8", "C17", (ORIGIN, "                n = self.parent.n_items + 1\n", "                n = np.random.randint(1, 2 ** 20)\n"),
  "R17.4", "file set number random in the mode")
V("C17-b9", "C17", (FILE, "        self._check_data(data_object)\n        fr.setup_from_data(data_object)\n        return MultiFrameData(fr, data_object, **kwargs)",
                    "        fr.setup_from_data(data_object)\n        return MultiFrameData(fr, data_object, **kwargs)"),
  ["R17.6", "R17.4"], "signed-integer check dropped from the write path")
V("C17-b10", "C17", (VC, "    if not global_config.high_compat_mode:\n        return s\n", "    if not _HC:\n        return s\n"),
  ["R17.4", "R17.3"], "validator consults a stale module constant instead of the live flag")
V("C17-b11", "C17", ("logical_record/core/eflr/eflr_item.py", "        self.name = validate_string(name)    #: name of the item",
                     "        self.name = name    #: name of the item"), "R17.5", "object names no longer validated")
V("C17-b12", "C17", (HCM, "    arch = global_config.high_compat_mode\n    global_config.high_compat_mode = True\n",
                     "    global_config.high_compat_mode = True\n    arch = global_config.high_compat_mode\n"), "R17.1",
  "flag saved after it was overwritten")
V("C17-b13", "C17", ("logical_record/core/attribute/attribute.py", "        self._units = self._unit_checker(units)",
                     "        try:\n            self._units = self._unit_checker(units)\n        except ValueError:\n            self._units = units"),
  "R17.4", "unit validation error swallowed")
V("C17-t1", "C17", [(HCM, "    arch = global_config.high_compat_mode\n", "    previous = global_config.high_compat_mode\n"),
                    (HCM, "        global_config.high_compat_mode = arch", "        global_config.high_compat_mode = previous")],
  "silent", "rename the saved variable")
V("C17-t2", "C17", (VC, "    if not global_config.high_compat_mode:\n        return s\n\n    if HC_STRING_PATTERN.fullmatch(s) is None:\n        raise ValueError(",
                    "    if global_config.high_compat_mode and HC_STRING_PATTERN.fullmatch(s) is None:\n        raise ValueError("),
  "silent", "merge the two tests of the validator")
V("C17-t3", "C17", (FILE, "    if global_config.high_compat_mode:\n        raise RuntimeError(message)\n    logger.warning(message)",
                    "    if not global_config.high_compat_mode:\n        logger.warning(message)\n    else:\n        raise RuntimeError(message)"),
  "silent", "inverted test in raise_or_warn")
V("C17-t4", "C17", (HCM, "    try:\n        yield\n    finally:\n        global_config.high_compat_mode = arch",
                    "    try:\n        yield\n    except BaseException:\n        global_config.high_compat_mode = arch\n        raise\n    else:\n        global_config.high_compat_mode = arch"),
  "silent", "handler-plus-reraise instead of finally")

# ---------------------------------------------------------------------------------------------- C01 / C02 / C15
LRB = "logical_record/core/logical_record/logical_record_bytes.py"
WR = "file/writer.py"
SA = "logical_record/core/logical_record/segment_attributes.py"
SUL = "logical_record/misc/storage_unit_label.py"
CONV = "utils/internal/converters.py"

V("C01-b1", "C01", (LRB, "        if (size + n_pad_bytes) % 2:\n            n_pad_bytes += 1\n", ""), "R01.5",
  "no pad byte for odd bodies: odd segment sizes")
V("C01-b2", "C01", (LRB, "            size += n_pad_bytes\n            segment_attributes.has_padding = True\n",
                    "            size += n_pad_bytes\n"), "R01.5", "pad bytes appended without the padding flag")
V("C01-b3", "C01", (WR, "self._visible_record_length - 8", "self._visible_record_length - 6"), ["R01.5", "R01.7"],
  "capacity two bytes too large: a full odd/even segment overflows the record")
V("C01-b4", "C01", (WR, "        size += 4  # 4 header bytes will be added", "        size += 2  # 4 header bytes will be added"),
  "R01.7", "visible record length field two bytes short")
V("C01-b5", "C01", (SUL, "bts = _susn_as_bytes + _dlisv_as_bytes + _sus_as_bytes + _mrl_as_bytes + _ssi_as_bytes",
                    "bts = _susn_as_bytes + _sus_as_bytes + _dlisv_as_bytes + _mrl_as_bytes + _ssi_as_bytes"),
  "R01.1", "two label fields swapped (length still 80)")
V("C01-b6", "C01", (SA, "weights = [2 ** i for i in range(8)][::-1]", "weights = [2 ** i for i in range(8)]"),
  ["R01.6", "R01.5"], "bit weights not reversed")
V("C01-b7", "C01", (WR, "        if vrl % 2:\n            raise ValueError(\"Visible record length must be an even number\")\n", ""),
  ["R01.4", "R01.5", "R01.7"], "odd record lengths accepted")
V("C01-b8", "C01", (LRB, "new_bts += n_pad_bytes * RepC.USHORT.convert(n_pad_bytes)", "new_bts += n_pad_bytes * self.padding"),
  "R01.5", "pad bytes always 0x01: wrong pad count for short segments")
V("C01-b9", "C01", (LRB, "n_pad_bytes = max(16 - size, 0)", "n_pad_bytes = max(14 - size, 0)"), "R01.5",
  "minimum segment length 14")
V("C01-b10", "C01", (WR, "        if vrl > 16384:", "        if vrl > 16386:"), "R01.4", "record length 16386 accepted")
V("C01-b12", "C01", (SUL, "get_ascii_bytes(self.set_identifier, 60, justify_left=True)",
                     "get_ascii_bytes(self.set_identifier, 59, justify_left=True)"), "R01.1", "label 79 bytes")
V("C01-b13", "C01", (LRB, "RepC.UNORM.convert(size) + segment_attributes.to_struct() + self._lr_type_struct",
                     "RepC.UNORM.convert(size) + self._lr_type_struct + segment_attributes.to_struct()"), "R01.5",
  "attribute and type bytes swapped in the segment header")
V("C01-b14", "C01", (WR, "return RepresentationCode.UNORM.convert(size) + self._fmt_version + body",
                     "return RepresentationCode.UNORM.convert(size - 4) + self._fmt_version + body"), "R01.7",
  "visible record length excludes its header")
V("C01-b15", "C01", (WR, "RepresentationCode.USHORT.convert(255) + RepresentationCode.USHORT.convert(1)",
                     "RepresentationCode.USHORT.convert(255) + RepresentationCode.USHORT.convert(0)"), "R01.7",
  "format version FF 00")
V("C01-b16", "C01", (SA, "        self._value[7] = b", "        self._value[6] = b"), ["R01.6", "R01.5"],
  "padding setter writes the trailing-length bit")
V("C01-b17", "C01", (WR, "output.add_bytes(self._make_visible_record(segment, segment_size))",
                     "output.add_bytes(self._make_visible_record(segment, segment_size), segment_size)"), ["R01.8", "R01.7"],
  "buffer told a size 4 bytes short")
V("C01-b18", "C01", (FILE, "            writer.write_storage_unit_label(self.storage_unit_label)\n            writer.write_logical_records(\n                logical_records, output_chunk_size=output_chunk_size\n            )",
                     "            writer._sul_written = True\n            writer.write_logical_records(\n                logical_records, output_chunk_size=output_chunk_size\n            )\n            writer.write_storage_unit_label(self.storage_unit_label)"),
  "R01.2", "label written after the records")
V("C01-b19", "C01", (FILE, "visible_record_length=self.storage_unit_label.max_record_length,", "visible_record_length=8192,"),
  "R01.3", "writer ignores the record length declared in the label")
V("C01-b20", "C01", (LRB, "            n_bytes = min(remaining_size, max_n_bytes)  # size of the current (to be created) segment body",
                     "            n_bytes = min(remaining_size, max_n_bytes + 1)"), ["R01.5", "R01.7"],
  "segment body one byte over the capacity")
V("C01-b21", "C01", (CONV, "    padding = (required_length - lv) * ' '", "    padding = (required_length - lv - 1) * ' '"),
  "R01.1", "fixed-width fields one character short when padded")
V("C01-t1", "C01", (LRB, "            size += n_pad_bytes\n", "            size = size + n_pad_bytes\n"), "silent", "")
V("C01-t2", "C01", (LRB, "n_pad_bytes = max(16 - size, 0)", "n_pad_bytes = 16 - size if size < 16 else 0"), "silent", "")
V("C01-t3", "C01", [(WR, "        max_lr_segment_size = self._visible_record_length - 8", "        capacity = self._visible_record_length - 4 - 4"),
                    (WR, "make_segments(max_lr_segment_size)", "make_segments(capacity)")], "silent", "")
V("C01-t4", "C01", (LRB, "            n_bytes = min(remaining_size, max_n_bytes)  # size of the current (to be created) segment body",
                    "            n_bytes = remaining_size if remaining_size <= max_n_bytes else max_n_bytes"), "silent", "")
V("C01-t5", "C01", (LRB, "        if (size + n_pad_bytes) % 2:", "        if (size + n_pad_bytes) % 2 == 1:"), "silent", "")
V("C01-t6", "C01", (WR, "        if vrl < 20:\n            raise ValueError(\"Visible record length must be at least 20 bytes\")\n\n        if vrl > 16384:\n            raise ValueError(\"Visible record length cannot be larger than 16384 bytes\")\n",
                    "        if not 20 <= vrl <= 16384:\n            raise ValueError(\"Visible record length must be within 20..16384 bytes\")\n"), "silent", "")

LR = "logical_record/core/logical_record/logical_record.py"
NFD = "logical_record/iflr_types/no_format_frame_data.py"

V("C02-b1", "C02", (LRB, "            start_pos += n_bytes\n", "            start_pos += n_bytes - 1\n"), "R02.1",
  "one byte duplicated at every segment boundary")
V("C02-b2", "C02", (LRB, "                n_bytes -= (12 - future_remaining_size)\n", "                n_bytes -= (11 - future_remaining_size)\n"),
  "R02.1", "one byte dropped when a segment is shortened")
V("C02-b3", "C02", (LRB, "            is_first=(start_pos == 0),", "            is_first=(start_pos >= 0),"), "R02.2",
  "no segment ever has the predecessor bit")
V("C02-b4", "C02", (LRB, "            is_last = end_pos == self._size\n", "            is_last = True\n"), "R02.2",
  "every segment claims to be the last")
V("C02-b5", "C02", (LRB, "new_bts = header_bytes + self._bts[start_pos:end_pos]", "new_bts = header_bytes + self._bts[start_pos + 1:end_pos]"),
  "R02.1", "first byte of every slice dropped")
V("C02-b6", "C02", (WR, "            for segment, segment_size in lr.represent_as_bytes().make_segments(max_lr_segment_size):",
                    "            for segment, segment_size in reversed(list(lr.represent_as_bytes().make_segments(max_lr_segment_size))):"),
  "R02.4", "segments written in reverse order")
V("C02-b7", "C02", (LR, "            cls._lr_type_struct = RepresentationCode.USHORT.convert(cls.logical_record_type.value)",
                    "            LogicalRecord._lr_type_struct = RepresentationCode.USHORT.convert(cls.logical_record_type.value)"),
  "R02.3", "type byte memo shared by all record classes")
V("C02-b8", "C02", (LRB, "        while remaining_size > 0:", "        while remaining_size > 12:"), "R02.1",
  "short tail never emitted")
V("C02-b9", "C02", (LRB, "                future_remaining_size = 12\n", "                future_remaining_size = 11\n"), "R02.1",
  "bookkeeping off by one after shortening")
V("C02-b10", "C02", (LR, "            self._make_body_bytes(),\n", "            self._make_body_bytes().rstrip(b'\\x00'),\n"), "R02.3",
  "trailing zero bytes of the body stripped")
V("C02-t1", "C02", (LRB, "            start_pos += n_bytes\n", "            start_pos = start_pos + n_bytes\n"), "silent", "")
V("C02-t2", "C02", (LRB, "            if 0 < future_remaining_size < 12:", "            if future_remaining_size > 0 and future_remaining_size < 12:"),
  "silent", "")
V("C02-t3", "C02", (LRB, "            is_first=(start_pos == 0),", "            is_first=(not start_pos),"), "silent", "")

V("C15-b1", "C15", (LRB, "        segment_attributes = SegmentAttributes(", "        if n_bytes < 12:\n            raise ValueError('too short')\n\n        segment_attributes = SegmentAttributes("),
  "R15.1", "segment builder refuses short bodies again")
V("C15-b2", "C15", (LRB, "        if max_n_bytes < 12:", "        if max_n_bytes < 24:"), ["R15.1", "R15.3"],
  "segmenter refuses record lengths 20..30 that the validator accepts")
V("C15-b3", "C15", (NFD, "        return self.no_format_object.obname + data_encoded\n",
                    "        bts = self.no_format_object.obname + data_encoded\n        return bts + max(12 - len(bts), 0) * b'\\x01'\n"),
  "R15.2", "in-body padding of no-format payloads is back")
V("C15-b4", "C15", (WR, "        if vrl < 20:", "        if vrl < 16:"), ["R15.1", "R15.3"], "record lengths 16/18 validated but unwritable")
V("C15-b5", "C15", (SUL, "    max_record_length_limit = 16384     #: maximal allowed length of a visible record",
                    "    max_record_length_limit = 8192     #: maximal allowed length of a visible record"), "R15.3",
  "label refuses lengths the writer accepts")
V("C15-b6", "C15", (LRB, "        n_pad_bytes = max(16 - size, 0)\n", "        n_pad_bytes = max(16 - size, 0) if is_last else 0\n"),
  "R15.2", "minimum-length padding only on the last segment (agent mutant C15-m1)")
V("C15-t1", "C15", (LRB, "        if max_n_bytes < 12:", "        if not max_n_bytes >= 12:"), "silent", "")

# ---------------------------------------------------------------------------------------------- C16
V("C16-b1", "C16", (NFD, "        return self.no_format_object.obname + data_encoded\n",
                    "        bts = self.no_format_object.obname + data_encoded\n        return bts + max(12 - len(bts), 0) * b'\\x01'\n"),
  "R16.1", "in-body padding appended to short payloads")
V("C16-b2", "C16", (NFD, "self.data.encode('ascii')", "self.data.encode('ascii', 'replace')"), "R16.1",
  "non-ASCII text silently replaced by '?'")
V("C16-b3", "C16", (NFD, "        return self.no_format_object.obname + data_encoded\n",
                    "        return self.no_format_object.obname + data_encoded[:8000]\n"), "R16.1", "long payloads truncated")
V("C16-b4", "C16", (FILE, "        self._no_format_frame_data.append(d)\n", "        self._no_format_frame_data.insert(0, d)\n"),
  "R16.2", "records stored in reverse order")
V("C16-b5", "C16", (FILE, "            yield from logical_file._no_format_frame_data\n",
                    "            yield from sorted(logical_file._no_format_frame_data, key=lambda d: d.no_format_object.name)\n"),
  "R16.2", "records grouped by object name when written")
V("C16-b6", "C16", (NFD, "        self.data = data\n", "        self.data = data.strip() if isinstance(data, str) else data\n"),
  "R16.1", "text payloads stripped of surrounding blanks")
V("C16-b7", "C16", (LRB, "new_bts += n_pad_bytes * RepC.USHORT.convert(n_pad_bytes)", "new_bts += n_pad_bytes * self.padding"),
  "R16.3", "pad count byte always 1: tiny payloads come back with 0x01 bytes appended (agent mutant C16-m3)")
V("C16-b8", "C16", (NFD, "        return self.no_format_object.obname + data_encoded\n",
                    "        return data_encoded + self.no_format_object.obname\n"), "R16.1", "payload before the reference")
V("C16-t1", "C16", [(NFD, "            data_encoded = self.data\n", "            payload = self.data\n"),
                    (NFD, "            data_encoded = self.data.encode('ascii')\n", "            payload = self.data.encode('ascii')\n"),
                    (NFD, "self.no_format_object.obname + data_encoded", "self.no_format_object.obname + payload")],
  "silent", "rename")
V("C16-t2", "C16", (NFD, "        if isinstance(self.data, (bytes, bytearray)):\n            data_encoded = self.data\n        else:\n            data_encoded = self.data.encode('ascii')\n",
                    "        data_encoded = self.data if not isinstance(self.data, str) else self.data.encode('ascii')\n"),
  "silent", "conditional expression")

# ---------------------------------------------------------------------------------------------- C10
SDW = "utils/source_data_wrappers.py"
V("C10-b1", "C10", (WR, "            new_size = size\n\n        self._bts[self._filled_size:new_size] = bts", "\n        self._bts[self._filled_size:new_size] = bts"),
  "R10.1", "forgotten `new_size = size` after a flush: the bytearray shrinks and bytes vanish")
V("C10-b2", "C10", (WR, "        if new_size > self._buffer_size:", "        if new_size >= self._buffer_size:"), "silent",
  "flush one record early: still correct (behaviour-preserving w.r.t. the file)")
V("C10-b3", "C10", (WR, "        mode = 'ab' if self._append else 'wb'", "        mode = 'ab'"), "R10.3", "never truncates a pre-existing file")
V("C10-b4", "C10", (WR, "        self._append = True  # in the future calls, append bytes to the file\n", ""), "R10.3",
  "every flush truncates the file")
V("C10-b5", "C10", (WR, "self._writer.write_bytes(self._bts[:self._filled_size], self._filled_size)",
                    "self._writer.write_bytes(self._bts, self._filled_size)"), "R10.1", "whole buffer written at every flush")
V("C10-b6", "C10", (WR, "        if output_chunk_size < self._visible_record_length:", "        if output_chunk_size < self._visible_record_length - 4:"),
  "R10.4", "chunk smaller than a record accepted")
V("C10-b7", "C10", (SDW, "            yield from self.load_chunk(i * chunk_rows, (i + 1) * chunk_rows)",
                    "            yield from self.load_chunk(i * chunk_rows, (i + 1) * chunk_rows - 1)"), "R10.5",
  "last row of every full chunk dropped")
V("C10-b8", "C10", (SDW, "            yield from self.load_chunk(n_full_chunks * chunk_rows, None)",
                    "            yield from self.load_chunk(n_full_chunks * chunk_rows + 1, None)"), "R10.5",
  "first row of the remainder chunk dropped")
V("C10-b9", "C10", (SDW, "        if remainder_rows:\n            logger.debug(f\"Loading chunk {total_chunks}/{total_chunks} ({remainder_rows} rows)\")",
                    "        if remainder_rows > 1:\n            logger.debug(f\"Loading chunk {total_chunks}/{total_chunks} ({remainder_rows} rows)\")"),
  "R10.5", "a remainder of exactly one row is dropped")
V("C10-b10", "C10", (SDW, "        return slice(self._from_idx + start, self._from_idx + stop)", "        return slice(start, stop)"),
  "R10.5", "window offset lost in the chunk slice")
V("C10-b11", "C10", (WR, "        self._total_size += (size or len(bts))", "        self._total_size += len(bts) if size is None else size + 1"),
  "R10.3", "reported total size off by one per flush")
V("C10-b12", "C10", (WR, "            self.pass_bytes_to_writer()  # also sets up a new output buffer\n", "            self._writer.write_bytes(bts)\n            return\n"),
  ["R10.1", "R10.2"], "record that does not fit is written directly, before the buffered ones")
V("C10-b13", "C10", ("file/multi_frame_data.py", "make_chunked_generator(chunk_rows=self._chunk_rows)",
                     "make_chunked_generator(chunk_rows=self._chunk_rows or 1000)"), "R10.6", "hidden default chunk size")
V("C10-t1", "C10", (WR, "        size = size or len(bts)\n        new_size = self._filled_size + size\n",
                    "        if not size:\n            size = len(bts)\n        new_size = size + self._filled_size\n"), "silent", "")
V("C10-t2", "C10", (SDW, "            yield from self.load_chunk(i * chunk_rows, (i + 1) * chunk_rows)",
                    "            first_row = i * chunk_rows\n            yield from self.load_chunk(first_row, first_row + chunk_rows)"),
  "silent", "")

# ---------------------------------------------------------------------------------------------- C06
SW = "utils/internal/struct_writer.py"
IE = "utils/internal/internal_enums.py"
ATT = "logical_record/core/attribute/attribute.py"
ESET = "logical_record/core/eflr/eflr_set.py"
V("C06-b1", "C06", (SW, "    if value < 128:", "    if value <= 128:"), "R06.2", "128 written in one byte (0x80 = 2-byte marker)")
V("C06-b2", "C06", (SW, "    if value < 16384:", "    if value <= 16384:"), "R06.2", "16384 written as C0 00 (agent mutant C03-m3)")
V("C06-b3", "C06", (SW, "RepresentationCode.UNORM.convert(value + UNORM_OFFSET)", "RepresentationCode.UNORM.convert(value | UNORM_OFFSET)"),
  "silent", "OR instead of add in the 2-byte branch: identical for 128..16383 (bits cannot interact)")
V("C06-b3b", "C06", (SW, "RepresentationCode.ULONG.convert(value + ULONG_OFFSET)", "RepresentationCode.ULONG.convert(value | ULONG_OFFSET)"),
  "R06.2", "OR instead of add in the 4-byte branch: values >= 2^30 no longer overflow and are wrapped (agent mutants C06-m1, C12-m2)")
V("C06-b4", "C06", (SW, "UNORM_OFFSET = 32768 ", "UNORM_OFFSET = 16384 "), "R06.2", "wrong marker bits for the 2-byte form")
V("C06-b5", "C06", (SW, "    if len(value_str) > 255:\n        raise ValueError(f\"IDENT (and UNITS) values cannot be longer than 255 characters; \"\n                         f\"got {len(value_str)} characters: '{value_str}'\")\n",
                    "    value_str = value_str[:255]\n"), "R06.3", "over-long identifiers truncated silently")
V("C06-b6", "C06", (SW, "    return RepresentationCode.USHORT.convert(len(value_str)) + value_str.encode('ascii')",
                    "    return write_struct_uvari(len(value_str)) + value_str.encode('ascii')"), "R06.3",
  "IDENT with a UVARI length prefix")
V("C06-b7", "C06", (ATT, "            bts += write_struct_ident(self._label)", "            bts += write_struct_ascii(self._label)"),
  "R06.3", "labels through the ASCII emitter")
V("C06-b8", "C06", [(ATT, "from dliswriter.utils.internal.struct_writer import write_struct, write_struct_ident, write_struct_uvari",
                     "from dliswriter.utils.internal.struct_writer import write_struct, write_struct_ident, write_struct_uvari, write_struct_ascii")],
  "silent", "unused import")
V("C06-b9", "C06", (SW, "    value += RepresentationCode.USHORT.convert(int(time_zone + month, 2))", "    value += RepresentationCode.USHORT.convert(int(month + time_zone, 2))"),
  "R06.4", "time zone and month nibbles swapped")
V("C06-b10", "C06", (SW, "min(round(date_time.microsecond / 1000), 999)", "round(date_time.microsecond / 1000)"), "R06.4",
  "milliseconds can be 1000 (agent mutants C05-m1 / C06-m2 family)")
V("C06-b11", "C06", (SW, "    date_time = date_time.astimezone(timezone.utc)\n", ""), "R06.4", "no conversion to UTC although TZ says GMT")
V("C06-b12", "C06", (SW, "        obname = origin_reference + copy_number + name", "        obname = copy_number + origin_reference + name"),
  "R06.5", "origin and copy number swapped in OBNAME")
V("C06-b13", "C06", (SW, "    return write_struct_ident(value.parent.set_type) + value.obname", "    return value.obname + write_struct_ident(value.parent.set_type)"),
  "R06.5", "OBJREF fields in the wrong order")
V("C06-b14", "C06", (IE, "    SNORM = 13, Struct('>h')", "    SNORM = 13, Struct('<h')"), "R06.1", "little-endian SNORM")
V("C06-b15", "C06", (IE, "    ULONG = 17, Struct('>I')", "    ULONG = 17, Struct('>i')"), "R06.1", "signed ULONG")
V("C06-b16", "C06", (IE, "        return self.converter.pack(value)", "        return self.converter.pack(value & 0xFFFFFFFF if isinstance(value, int) else value)"),
  "R06.1", "out-of-range integers wrapped instead of rejected")
V("C06-b17", "C06", (SW, "def write_struct(representation_code: RepresentationCode, value: Any) -> bytes:",
                     "@lru_cache(maxsize=65536)\ndef write_struct(representation_code: RepresentationCode, value: Any) -> bytes:"),
  "R06.7", "value memo is back")
V("C06-b18", "C06", (SW, "    value_str = str(value)\n    return write_struct_uvari(len(value_str)) + value_str.encode('ascii')",
                     "    value_str = str(value)\n    return write_struct_uvari(len(value_str)) + value_str.encode('utf-8')"), "R06.3",
  "ASCII values written as UTF-8 with the length in characters (agent mutant C04-m2)")
V("C06-b19", "C06", (ESET, "write_struct_ident(self.set_name)", "write_struct_ident(self.set_name[:8])"), "silent",
  "truncation upstream of the emitter is not C06's emitter rule (C05/C12)")
V("C06-t1", "C06", (SW, "    if value < 128:\n        return RepresentationCode.USHORT.convert(value)\n\n    if value < 16384:\n        return RepresentationCode.UNORM.convert(value + UNORM_OFFSET)\n",
                    "    if value <= 127:\n        return RepresentationCode.USHORT.convert(value)\n\n    if value <= 16383:\n        return RepresentationCode.UNORM.convert(UNORM_OFFSET + value)\n"),
  "silent", "inclusive bounds")
V("C06-t2", "C06", (SW, "        obname = origin_reference + copy_number + name\n", "        obname = b''.join((origin_reference, copy_number, name)) if False else origin_reference + copy_number + name\n"),
  "silent", "")

# ---------------------------------------------------------------------------------------------- C04
EITEM = "logical_record/core/eflr/eflr_item.py"
FH = "logical_record/eflr_types/file_header.py"
V("C04-b1", "C04", (ATT, "        if count is not None and count != 1:", "        if count and count != 1:"), ["R04.1", "R04.2"],
  "empty list: value announced with default count 1, nothing written (original defect F-EMPTYLIST)")
V("C04-b2", "C04", (ATT, "        if isinstance(value, (list, tuple)):\n            raise TypeError(f\"{self} is single-valued; got {type(value)}: {value}\")\n", ""),
  "R04.2", "lists accepted by single-valued attributes (original defect F-SCALARLIST)")
V("C04-b3", "C04", (ATT, "            return len(self.flatten_list(self._value))", "            return sum(len(v) if isinstance(v, (list, tuple)) else 1 for v in self._value)"),
  "R04.2", "count of nested values counts one level only (agent mutant C04-m1)")
V("C04-b4", "C04", (ATT, "        if self._units:\n            bts += write_struct_ident(self._units)\n            characteristics += '1'",
                    "        if self._units:\n            bts += write_struct_ident(self._units)\n            characteristics += '0'"),
  "R04.1", "units written but not flagged")
V("C04-b5", "C04", (ATT, "        # representation code\n        if self.representation_code:\n            bts += RepresentationCode.USHORT.convert(self.representation_code.value)\n            characteristics += '1'",
                    "        # representation code\n        if self.representation_code:\n            characteristics += '1'"),
  "R04.1", "code flagged but not written")
V("C04-b6", "C04", (ATT, "        # units\n        if self._units:", "        # units\n        if self._units and not self._multivalued:"),
  "silent", "units dropped for multivalued attributes: grammar stays consistent (C05 territory)")
V("C04-b7", "C04", (EITEM, "                _bytes += b'\\x00'\n", "                pass\n"), "R04.1",
  "unset attributes skipped instead of marked absent")
V("C04-b8", "C04", (EITEM, "        return b'p' + self.obname + self._make_attrs_bytes()", "        return b'\\x60' + self.obname + self._make_attrs_bytes()"),
  "R04.1", "wrong object descriptor")
V("C04-b9", "C04", (ESET, "            _bytes = b'\\xf8' + self._set_type_struct + write_struct_ident(self.set_name)",
                    "            _bytes = b'\\xf0' + self._set_type_struct + write_struct_ident(self.set_name)"),
  "R04.1", "named set with the 'type only' descriptor")
V("C04-b10", "C04", (ESET, "            child0 = self._eflr_item_list[0]", "            child0 = self._eflr_item_list[-1]"), "R04.3",
  "template from the last item")
V("C04-b11", "C04", (ESET, "        for ei in eflr_items:\n            bts += ei.make_item_body_bytes()", "        for ei in reversed(eflr_items):\n            bts += ei.make_item_body_bytes()"),
  ["R04.1"], "objects in reverse order")
V("C04-b12", "C04", (FH, "        bts += pack_ushort(10)\n", "        bts += pack_ushort(12)\n"), "R04.1", "FILE-HEADER sequence number length byte 12 for 10 characters")
V("C04-b13", "C04", (FH, "        bts += pack_ushort(int('00110100', 2))\n        bts += write_struct_ident('SEQUENCE-NUMBER')",
                     "        bts += pack_ushort(int('00110000', 2))\n        bts += write_struct_ident('SEQUENCE-NUMBER')"),
  "R04.1", "template descriptor without the code bit although the code byte follows")
V("C04-b14", "C04", ("logical_record/eflr_types/zone.py", "        self.maximum = DTimeAttribute('maximum', allow_float=True)", "        self.maximum = DTimeAttribute('minimum', allow_float=True)"),
  "R04.3", "duplicate label in the ZONE template")
V("C04-b15", "C04", ("logical_record/eflr_types/axis.py", "        self.spacing = NumericAttribute('spacing')\n\n        super().__init__(name, parent=parent, **kwargs)",
                     "        super().__init__(name, parent=parent, **kwargs)\n        self.spacing = NumericAttribute('spacing')"),
  "R04.3", "attribute declared after registration")
V("C04-b16", "C04", (ESET, "        if not eflr_items:\n            return b''\n", ""), "R04.5", "empty sets produce a record")
V("C04-b17", "C04", (FH, "        bts += get_ascii_bytes(str(self.sequence_number), 10, justify_left=False)", "        bts += str(self.sequence_number).rjust(10).encode('ascii')"),
  "silent", "rjust instead of the raising fixed-width helper: harmless while the constructor bounds the number "
            "(agent mutant C04-m3, site 2 alone)")
V("C04-b18", "C04", [(FH, "        bts += get_ascii_bytes(str(self.sequence_number), 10, justify_left=False)", "        bts += str(self.sequence_number).rjust(10).encode('ascii')"),
                     (FH, "    max_sequence_number = int(1e10 - 1)     #: max value for sequence number; largest 10-digit integer", "    max_sequence_number = 10 ** 10")],
  "R04.1", "both sites of agent mutant C04-m3: sequence number 10^10 accepted and written in 11 characters")
V("C04-t1", "C04", (ATT, "        if count is not None and count != 1:", "        if not (count is None or count == 1):"), "silent", "")
V("C04-t2", "C04", (EITEM, "            if attr.value is None:\n                _bytes += b'\\x00'\n            else:\n                _bytes += attr.get_as_bytes()",
                    "            _bytes += b'\\x00' if attr.value is None else attr.get_as_bytes()"), "silent", "")
V("C17-t5", "C17", (HCM, "    def wrapper(*args: Any, **kwargs: Any) -> None:\n        with high_compatibility_mode():\n            func(*args, **kwargs)\n",
                    "    def wrapper(*args: Any, **kwargs: Any) -> None:\n        previous = global_config.high_compat_mode\n        global_config.high_compat_mode = True\n        try:\n            func(*args, **kwargs)\n        finally:\n            global_config.high_compat_mode = previous\n"),
  "silent", "decorator with its own save / try / finally restore")
V("C17-b14", "C17", (HCM, "    def wrapper(*args: Any, **kwargs: Any) -> None:\n        with high_compatibility_mode():\n            func(*args, **kwargs)\n",
                     "    def wrapper(*args: Any, **kwargs: Any) -> None:\n        previous = global_config.high_compat_mode\n        global_config.high_compat_mode = True\n        func(*args, **kwargs)\n        global_config.high_compat_mode = previous\n"),
  "R17.2", "decorator restores only on the normal path (agent mutant C17-m1)")
V("C17-b15", "C17", (FRAME, "        index_channel: ChannelItem = self.channels.value[0]\n", "        if self.spacing.value is not None:\n            return\n\n        index_channel: ChannelItem = self.channels.value[0]\n"),
  "R17.6", "uniform-spacing check skipped when a spacing is present (agent mutant C17-m3)")

# ---------------------------------------------------------------------------------------------- C14
V("C14-b1", "C14", (SW, "def write_struct(representation_code: RepresentationCode, value: Any) -> bytes:",
                    "@lru_cache(maxsize=65536)\ndef write_struct(representation_code: RepresentationCode, value: Any) -> bytes:"),
  ["R14.8", "R14.1"], "value memo on write_struct (original defect F-MEMO)")
V("C14-b2", "C14", (EITEM, "        if key in ('name', '_origin_reference', '_copy_number'):", "        if key in ('name', '_copy_number'):"),
  "R14.2", "origin changes no longer invalidate the OBNAME memo")
V("C14-b3", "C14", (EITEM, "        if key in ('name', '_origin_reference', '_copy_number'):\n            # identity of the item changes: the memoised OBNAME bytes (see 'obname' below) are no longer valid\n            self.__dict__.pop('obname', None)\n\n", ""),
  "R14.2", "OBNAME memo never invalidated (original defect F-OBNAME)")
V("C14-b4", "C14", (FILE, "            data_object = DictDataWrapper(\n                self._data_dict | data,", "            self._data_dict = self._data_dict | data\n            data_object = DictDataWrapper(\n                self._data_dict,"),
  "R14.5", "data of one write kept for the next (original defect F-DATADICT)")
V("C14-b5", "C14", (ORIGIN, "        if self.creation_time.value is None:\n", "        if True:\n"), "R14.6", "creation time always 'now'")
V("C14-b6", "C14", (SW, "    func = _struct_dict.get(representation_code, None)  # get a converter corresponding to the repr code",
                    "    func = _struct_dict.setdefault(representation_code, None)"), "R14.7", "dispatch table mutated at run time")
V("C14-b7", "C14", (SUL, "        return LogicalRecordBytes(bts, lr_type_struct=b'')", "        self._cached = getattr(self, '_cached', None) or LogicalRecordBytes(bts, lr_type_struct=b'')\n        return self._cached"),
  ["R14.8", "R14.5"], "label bytes memoised")
V("C14-b8", "C14", (LR, "            cls._lr_type_struct = RepresentationCode.USHORT.convert(cls.logical_record_type.value)",
                    "            LogicalRecord._lr_type_struct = RepresentationCode.USHORT.convert(cls.logical_record_type.value)"),
  ["R14.3", "R14.5", "R14.8"], "type byte memo on the base class")
V("C14-t1", "C14", (EITEM, "        if key in ('name', '_origin_reference', '_copy_number'):", "        if key in {'name', '_origin_reference', '_copy_number', '_parent'}:"),
  "silent", "wider invalidation set")
V("C14-t2", "C14", [(EITEM, "    @cached_property\n    def obname(self) -> bytes:", "    @property\n    def obname(self) -> bytes:")], "silent",
  "OBNAME not memoised at all")

# ---------------------------------------------------------------------------------------------- C09
SETS = "file/eflr_sets_dict.py"
V("C09-b1", "C09", (FILE, "            yield from logical_file._eflr_sets[eflr_types.OriginSet].values()\n\n", "\n"), "R09.1",
  "origin sets not emitted right after the header")
V("C09-b2", "C09", (FILE, "                if set_type not in (eflr_types.FileHeaderSet, eflr_types.OriginSet):", "                if set_type not in (eflr_types.FileHeaderSet,):"),
  "R09.1", "origin sets emitted twice")
V("C09-b3", "C09", (FILE, "            yield from logical_file._no_format_frame_data\n\n            for multi_frame_data in multi_frame_data_objects[idx_lf]:\n                yield from multi_frame_data",
                    "            for multi_frame_data in multi_frame_data_objects[idx_lf]:\n                yield from multi_frame_data\n\n            yield from logical_file._no_format_frame_data"),
  "silent", "frame data before no-format data: both are IFLRs after all sets (order between them is not mandated)")
V("C09-b4", "C09", (FILE, "        for idx_lf, logical_file in enumerate(self.logical_files):\n            yield logical_file.file_header_item.parent",
                    "        for idx_lf, logical_file in enumerate(sorted(self.logical_files, key=lambda lf: lf.file_header.sequence_number)):\n            yield logical_file.file_header_item.parent"),
  "R09.1", "logical files ordered by header sequence number; frame data indexed by position (agent mutant C18-m2)")
V("C09-b5", "C09", (SETS, "        if eflr_set_instance is None:\n            eflr_set_instance = eflr_set_type(set_name=set_name)\n            eflr_set_dict[set_name] = eflr_set_instance",
                    "        if eflr_set_instance is None or not eflr_set_instance.n_items:\n            eflr_set_instance = eflr_set_type(set_name=set_name)\n            eflr_set_dict[set_name] = eflr_set_instance"),
  "R09.2", "an existing empty set is replaced by a new object in the file-level registry")
V("C09-b6", "C09", (FILE, "            file_id=self.file_header.header_id,\n", "            file_id=name,\n"), "R09.5", "FILE-ID taken from the origin's name")
V("C09-b7", "C09", (FILE, "            if do.file_id.value != fh_id:\n                raise ValueError(", "            if do.file_id.value != fh_id:\n                logger.warning("),
  "R09.5", "FILE-ID mismatch only warned about")
V("C09-b8", "C09", (FH, "        bts += get_ascii_bytes(self.header_id, 65, justify_left=True)", "        bts += get_ascii_bytes(self.header_id, 65, justify_left=False)"),
  "R09.4", "header id right-justified")
V("C09-b9", "C09", (ORIGIN, "                self.file_set_number.value = v\n", "                pass\n"), "R09.5", "no random FILE-SET-NUMBER assigned")
V("C09-t1", "C09", (FILE, "            for set_type, set_dict in logical_file._eflr_sets.items():\n                if set_type not in (eflr_types.FileHeaderSet, eflr_types.OriginSet):\n                    yield from set_dict.values()",
                    "            for set_type, set_dict in logical_file._eflr_sets.items():\n                if set_type in (eflr_types.FileHeaderSet, eflr_types.OriginSet):\n                    continue\n                yield from set_dict.values()"),
  "silent", "continue form")

# ---------------------------------------------------------------------------------------------- C20
CHAN = "logical_record/eflr_types/channel.py"
V("C20-b1", "C20", [(EITEM, "        self._parent = parent  #: EFLRSet instance this item belongs to\n", "        self._parent = parent  #: EFLRSet instance this item belongs to\n        self._parent.register_item(self)\n"),
                    (EITEM, "        # the item is registered with its parent only now, when nothing can go wrong any more:\n        # an item whose set-up has failed (e.g. because of an invalid attribute value) must not be left in the set\n        self._parent.register_item(self)\n", "")],
  "R20.1", "registration before validation (original defect F-ZOMBIE)")
V("C20-b2", "C20", [(CHAN, "        # (done before super().__init__, which registers the channel with its parent: the cast dtype might be rejected)\n        self._dataset_name: Union[str, None] = dataset_name\n        self._set_cast_dtype(cast_dtype)\n\n        super().__init__(name, parent=parent, **kwargs)\n",
                     "        super().__init__(name, parent=parent, **kwargs)\n\n        self._dataset_name: Union[str, None] = dataset_name\n        self._set_cast_dtype(cast_dtype)\n")],
  "R20.1", "cast dtype validated after the channel was registered")
V("C20-b3", "C20", (FILE, "        if data is not None:\n            self._data_dict[ch.dataset_name] = data\n\n        return ch",
                    "        return ch"), "silent", "inline data dropped: not a C20 matter")
V("C20-b4", "C20", (ATT, "        self._value = self.convert_value(val)", "        self._value = val\n        self._value = self.convert_value(val)"),
  "R20.4", "raw value stored before conversion can reject it")
V("C20-b5", "C20", (CHAN, "        if dt is not None:\n            ReprCodeConverter.validate_numpy_dtype(dt)\n\n        self._cast_dtype = dt",
                    "        self._cast_dtype = dt"), "R20.4", "cast dtype stored unvalidated (agent mutant C20-m3)")
V("C20-b6", "C20", (EITEM, "        return len(list(items_with_the_same_name))", "        return self.parent.next_copy_number(self.name)"),
  "R20.1", "copy number from a counter method instead of the registered items")
V("C20-t1", "C20", (EITEM, "        self.set_attributes(**{k: v for k, v in kwargs.items() if v is not None})\n        self._set_defaults_at_init()\n",
                    "        given = {k: v for k, v in kwargs.items() if v is not None}\n        self.set_attributes(**given)\n        self._set_defaults_at_init()\n"),
  "silent", "")


# ---------------------------------------------------------------------------------------------- seeded changes as variants
# The independent sub-agent changes kept under /verif/seeded and the reversals of the repaired defects are replayed in
# the thorough tier as well: each must make its property's check fire (rule ids are recorded in seeded/MATRIX.json).
import glob as _glob
import os as _os

_SEEDED = _os.path.join(_os.path.dirname(_os.path.dirname(_os.path.abspath(__file__))), "seeded")

# repaired defect (subject prefix of the fix commit) -> properties whose checks must fire when it is re-introduced
REVERSALS = {
    "fix: pad logical record segments": ["C15"],
    "fix: accept every validated visible record length": ["C15"],
    "fix: do not append unflagged pad bytes": ["C16", "C15"],
    "fix: write a count of 0": ["C04", "C12"],
    "fix: reject a list passed as the value of a single-valued": ["C04"],
    "fix: store the validated unit string": ["C05"],
    "fix: encode IDENT-typed fields": ["C06", "C12"],
    "fix: do not memoise encoded values": ["C14", "C06"],
    "fix: refresh an item's OBNAME bytes": ["C14", "C07"],
    "fix: apply the row window in the structured-array fast path": ["C11"],
    "fix: keep data chunks in native byte order": ["C03", "C12"],
    "fix: do not keep the data passed to one write call": ["C14"],
    "fix: assign the first origin's reference only": ["C18", "C07"],
    "fix: refuse to share one EFLR set": ["C18"],
    "fix: register an item with its set only after": ["C20"],
    "fix: compute index spacing of integer channels": ["C13"],
    "fix: refuse to load data sets with different numbers of rows": ["C12"],
    "fix: refuse references to objects of another logical file": ["C07"],
    "fix: refuse no-format frame data whose NO-FORMAT object": ["C07"],
    "fix: keep a user-set ELEMENT-LIMIT": ["C05"],
}


def seeded_variants(prop):
    out = []
    for d in sorted(_glob.glob(_os.path.join(_SEEDED, f"{prop}-m*"))):
        pf = _os.path.join(d, "patch.diff")
        if _os.path.exists(pf):
            out.append({"id": "seeded:" + _os.path.basename(d), "prop": prop, "edits": [("@patch", pf, False)],
                        "expect": ["any"], "what": "independent sub-agent change (see meta.json)"})
    # behaviour-preserving refactorings written by independent sub-agents: every one must leave every check silent
    for pf in sorted(_glob.glob(_os.path.join(_SEEDED, "_refactors*", "*", "*.diff"))):
        rel = _os.path.relpath(pf, _SEEDED)
        out.append({"id": "refactor:" + rel[:-5], "prop": prop, "edits": [("@patch", pf, False)], "expect": "silent",
                    "what": "behaviour-preserving refactoring by an independent sub-agent (see the .md next to it)"})
    mpath = _os.path.join(_SEEDED, "_fix_reversals", "MATRIX.json")
    if _os.path.exists(mpath):
        import json as _json
        m = _json.load(open(mpath))
        for commit, info in sorted(m.items()):
            for prefix, props in REVERSALS.items():
                if info.get("subject", "").startswith(prefix) and prop in props:
                    pf = _os.path.join(_SEEDED, "_fix_reversals", commit + ".diff")
                    out.append({"id": f"reversal:{commit}", "prop": prop, "edits": [("@patch", pf, True)],
                                "expect": ["any"], "what": "re-introduces the repaired defect: " + info["subject"]})
    return out


# ---------------------------------------------------------------------------------------------- C05 (term rules)
SUBT = "logical_record/core/attribute/subtypes.py"
V("C05-b1", "C05", (EITEM, "                set_value(attr, attr_value)\n", "                set_value(attr, attr_value, 'units')\n"),
  "R05.3", "a plain keyword value lands in the units")
V("C05-b2", "C05", (EITEM, "if key not in ('value', 'units'):", "if key not in ('value',):"), "R05.3", "units cannot be set through a dict")
V("C05-b3", "C05", (EITEM, "**{k: v for k, v in kwargs.items() if v is not None}", "**{k: v for k, v in kwargs.items() if v}"),
  "R05.3", "falsy keyword values are dropped by the constructor")
V("C05-b4", "C05", (SUBT, "            return self._int_parser(value)\n\n        return self._float_parser(value)",
                    "            return self._float_parser(value)\n\n        return self._int_parser(value)"), "R05.5",
  "int / float parsers swapped")
V("C05-b5", "C05", (SUBT, "        if not float(value).is_integer():\n            raise ValueError(f\"{value} cannot be represented as integer\")\n", ""),
  "R05.5", "fractions truncated")
V("C05-b6", "C05", (SUBT, "if val not in (0, 1):", "if val not in (0, 1, 2):"), "R05.5", "STATUS 2 accepted")
V("C05-b7", "C05", (VE, "                    return v.value\n", "                    return v\n"), "R05.7", "enum member stored raw")
V("C05-b8", "C05", (ATT, "self._value = self.convert_value(val)", "self.convert_value(val)\n        self._value = val"), "R05.7",
  "raw value stored")
V("C05-b9", "C05", (EITEM, "            if (item_value := getattr(self, item_name)) is not None:", "            if item_value := getattr(self, item_name):"),
  "R05.3", "AttrSetup drops falsy parts")
V("C05-b10", "C05", (CHAN, "                logger.debug(f\"Setting element limit of {self} to {dim}\")\n                self.element_limit.value = dim",
                     "                logger.debug(f\"Setting element limit of {self} to {dim}\")\n            self.element_limit.value = dim"),
  "R05.4", "a user-set element limit is overwritten from the data (the repaired defect)")
V("C05-b11", "C05", (ORIGIN, "        if self.field_name.value is None:\n", "        if True:\n"), "R05.4", "WILDCAT overwrites the user's field name")
V("C05-t1", "C05", (EITEM, "            attr = getattr(self, attr_name, None)\n            if not attr or not isinstance(attr, Attribute):",
                    "            target = getattr(self, attr_name, None)\n            attr = target\n            if not isinstance(attr, Attribute) or not attr:"),
  "silent", "temporaries / operand order")
V("C05-t2", "C05", (SUBT, "        if self._int_only or self.representation_code in ReprCodeConverter.int_codes:\n            return self._int_parser(value)\n\n        return self._float_parser(value)",
                    "        wants_int = self._int_only or self.representation_code in ReprCodeConverter.int_codes\n        parser = self._int_parser if wants_int else self._float_parser\n        return parser(value)"),
  "silent", "parser chosen by a conditional expression")


# ---------------------------------------------------------------------------------------------- C13 (term rules)
V("C13-b1", "C13", (FRAME, "assign_if_none(self.index_min, index_data.min())", "assign_if_none(self.index_min, index_data.max())"),
  "R13.4", "min taken from max")
V("C13-b2", "C13", (FRAME, "assign_if_none(self.index_max, index_data.shape[0])", "assign_if_none(self.index_max, index_data.size)"),
  "R13.4", "row count replaced by element count")
V("C13-b3", "C13", (FRAME, "            direction = True  # all non-negative", "            direction = False  # all non-negative"),
  ["R13.4", "R13.7"], "direction sense inverted in the helper")
V("C13-b4", "C13", (FRAME, "'INCREASING' if direction > 0 else 'DECREASING'", "'DECREASING' if direction > 0 else 'INCREASING'"),
  "R13.4", "direction names swapped")
V("C13-b5", "C13", (FRAME, "        index_data = data[index_channel.name][:]", "        index_data = data._data_source[index_channel.dataset_name][:]"),
  "R13.1", "statistics over the raw source (row window ignored)")
V("C13-b6", "C13", (FRAME, "            if getattr(attr, key) is None and value is not None:", "            if value is not None:"),
  "R13.2", "helper overwrites user values")
V("C13-b7", "C13", (FRAME, "        index_channel: ChannelItem = self.channels.value[0]", "        index_channel: ChannelItem = self.channels.value[-1]"),
  ["R13.1", "R13.4"], "index channel is not the first channel")
V("C13-b8", "C13", (FRAME, "            assign_if_none(self.spacing, 1)\n            assign_if_none(self.index_min, 1)", "            assign_if_none(self.spacing, 1)\n            assign_if_none(self.index_min, 0)"),
  "R13.4", "row-number index starts at 0")
V("C13-b9", "C13", (FRAME, "            else:\n                assign_if_none(self.spacing, spacing)", "            else:\n                assign_if_none(self.spacing, abs(spacing))"),
  "R13.4", "sign of the spacing dropped")
V("C13-b10", "C13", (FRAME, "        if (deviations < 0.001).all():", "        if np.allclose(diff_unique, median_diff):"), "R13.6",
  "absolute tolerance introduced")
V("C13-t1", "C13", (FRAME, "            assign_if_none(self.index_min, index_data.min())\n            assign_if_none(self.index_max, index_data.max())",
                    "            lowest, highest = index_data.min(), index_data.max()\n            assign_if_none(self.index_max, highest)\n            assign_if_none(self.index_min, lowest)"),
  "silent", "temporaries, order of independent statements")
V("C13-t2", "C13", (FRAME, "            assign_if_none(self.index_max, index_data.shape[0])", "            assign_if_none(self.index_max, len(index_data))"),
  "silent", "len() of the windowed data")


# ---------------------------------------------------------------------------------------------- C14 R14.6 (provenance)
V("C14-b11", "C14", (EITEM, "        self._copy_number = self._compute_copy_number()", "        self._copy_number = self._compute_copy_number() + id(self) % 1"),
  "R14.6", "id() flows into the copy number")
V("C14-b12", "C14", (SW, "    return RepresentationCode.ULONG.convert(value + ULONG_OFFSET)", "    import time\n    return RepresentationCode.ULONG.convert(value + ULONG_OFFSET + int(time.time()) * 0)"),
  "R14.6", "time.time() on the byte path")
V("C14-b13", "C14", (ORIGIN, "            self.creation_time.value = datetime.now()", "            self.creation_time.value = datetime.now()\n            self.program.value = f'dliswriter at {datetime.now()}'"),
  "R14.6", "now() stored into another attribute")


# ---------------------------------------------------------------------------------------------- C07 (term rules)
V("C07-b1", "C07", (FILE, "                    if isinstance(v, EFLRItem) and id(v) not in own_item_ids:",
                    "                    if isinstance(v, EFLRItem) and attr.label != 'AXIS' and id(v) not in own_item_ids:"),
  "R07.3", "axis references exempted from the membership check")
V("C07-b2", "C07", (FILE, "            item for set_dict in self._eflr_sets.values() for eflr_set in set_dict.values()\n            for item in eflr_set.get_all_eflr_items()\n        ]",
                    "            item for set_dict in self.physical_file._eflr_sets.values() for eflr_set in set_dict.values()\n            for item in eflr_set.get_all_eflr_items()\n        ]"),
  "R07.3", "membership tested against the whole storage unit")
V("C07-b3", "C07", (FILE, "                values = attr.value if isinstance(attr.value, (list, tuple)) else [attr.value]", "                values = [attr.value]"),
  "R07.3", "list-valued references not unpacked")
V("C07-b4", "C07", (FILE, "        while next_available_origin_ref in origins_refs:\n            next_available_origin_ref += 1\n", ""),
  "R07.4", "generated origin reference not advanced past taken ones")
V("C07-b5", "C07", (FILE, "                        if eflr_item.origin_reference is None:\n                            eflr_item.origin_reference = o.origin_reference",
                    "                        eflr_item.origin_reference = o.origin_reference"), "R07.4", "back-fill overwrites explicit origins")
V("C07-b6", "C07", (FILE, "        return origins[0] if origins else None", "        return origins[-1] if origins else None"), "R07.4",
  "defining origin is the last one")
V("C07-b7", "C07", (FILE, "        self._check_references()\n", "        if self.frames:\n            self._check_references()\n"), "R07.3",
  "reference check only when there are frames")
V("C07-t1", "C07", (FILE, "                    if isinstance(v, EFLRItem) and id(v) not in own_item_ids:\n                        raise RuntimeError(f\"{v}, referenced by {attr}, has not been added to the same logical file\")",
                    "                    if not isinstance(v, EFLRItem):\n                        continue\n                    if id(v) in own_item_ids:\n                        continue\n                    raise RuntimeError(f\"{v}, referenced by {attr}, has not been added to the same logical file\")"),
  "silent", "guard clauses with continue")


# ---------------------------------------------------------------------------------------------- C03 / C08 / C12 (layout)
FDATA = "logical_record/iflr_types/frame_data.py"
V("C03-b1", "C03", (FDATA, "            body += s.byteswap().tobytes()", "            body += s.tobytes()"), "R03.2", "no byte swap")
V("C03-b2", "C03", (FDATA, "        body = self._frame.obname + write_struct_uvari(self._frame_number)", "        body = write_struct_uvari(self._frame_number) + self._frame.obname"),
  "R03.1", "frame number before the frame reference")
V("C03-b3", "C03", (SDW, "            number_type = np.dtype(number_type).newbyteorder('=')\n", "            number_type = np.dtype(number_type)\n"),
  "R03.2", "source byte order kept")
V("C03-b4", "C03", (SDW, "        for dtype_name, dataset_name in mapping.items():\n            dt: Union", "        for dtype_name, dataset_name in sorted(mapping.items()):\n            dt: Union"),
  "R03.4", "fields in sorted instead of mapping order")
V("C03-t1", "C03", (FDATA, "        for s in self._slots:\n            body += s.byteswap().tobytes()\n\n        return body",
                    "        return body + b''.join(slot.byteswap().tobytes() for slot in self._slots)"), "silent", "join over a generator")
V("C08-b1", "C08", (SDW, "                dt = (*dt, dset_row0.shape[-1])", "                dt = (*dt, dset_row0.shape[0])"), "R08.4", "width from the leading dimension")
V("C08-b2", "C08", (CHAN, "        dim = list(sub_data.shape[1:]) or [1]", "        dim = list(sub_data.shape[1:]) or [0]"), "R08.4", "scalar dimension 0")
V("C08-b3", "C08", (CHAN, "        if len(el) < len(dim):\n            return False\n", ""), "R08.4", "shorter element limit accepted")
V("C08-b4", "C08", (CHAN, "            if el[i] < dim[i]:", "            if el[i] > dim[i]:"), "R08.4", "limit comparison inverted")
V("C08-b5", "C08", (SDW, "            number_type = known_dtypes.get(dtype_name, dset_row0.dtype)", "            number_type = known_dtypes.get(dataset_name, dset_row0.dtype)"),
  "R08.2", "cast dtype looked up by data set name")
V("C08-b6", "C08", (SDW, "        if self._dtype == self._data_source.dtype:", "        if self._dtype.names == self._data_source.dtype.names:"), "R08.5",
  "fast path on equal names only")
V("C08-b7", "C08", (FRAME, "        for channel in self.channels.value:\n            channel.set_dimension_and_repr_code_from_data(data)", "        for channel in self.channels.value[1:]:\n            channel.set_dimension_and_repr_code_from_data(data)"),
  "R08.3", "index channel not set up")
V("C12-b1", "C12", (SDW, "            ReprCodeConverter.validate_numpy_dtype(number_type)\n", ""), "R12.2", "dtype not validated")
V("C12-b2", "C12", (SDW, "                if dset_row0.ndim > 2:\n                    raise RuntimeError(\"Data sets with more than 2 dimensions are not supported\")\n", ""),
  "R12.2", "3-D data accepted")
V("C12-b3", "C12", (FILE, "        if not self.channels:\n            raise RuntimeError", "        if False:\n            raise RuntimeError"), "R12.1", "no channels accepted")


# ---------------------------------------------------------------------------------------------- round 6 additions
V("C09-r6b1", "C09", (ESET, "        return self._eflr_item_list[:]  # copy", "        return iter(self._eflr_item_list)"), "R09.3",
  "the empty-set guard tests an iterator object (always true)")
V("C09-r6t1", "C09", (ESET, "        return self._eflr_item_list[:]  # copy", "        return list(self._eflr_item_list)"), "silent",
  "copy spelt list(...)")
V("C03-r6b1", "C03", (FILE, "            self._data_dict[ch.dataset_name] = data\n", "            self._data_dict[ch.dataset_name] = data if cast_dtype is None else data.astype(cast_dtype)\n"),
  "R03.10", "data converted with the cast declared at add time")
V("C03-r6t1", "C03", (FILE, "            self._data_dict[ch.dataset_name] = data\n", "            kept = data\n            self._data_dict[ch.dataset_name] = kept\n"),
  "silent", "data kept through a local")
V("C17-r6b1", "C17", (VE, "            if not isinstance(v, str):\n                raise TypeError", "            if isinstance(v, str) and v in [m.name for m in cls]:\n                return v\n            if not isinstance(v, str):\n                raise TypeError"),
  "R17.7", "member names accepted as texts")
V("C17-r6t1", "C17", (VE, "            if not isinstance(v, str):\n                raise TypeError", "            if not isinstance(v, str) or v in ():\n                raise TypeError"),
  "silent", "vacuous extra membership test")
V("C13-r6b1", "C13", (FRAME, "        elif (diff_unique >= 0).all():", "        elif (diff_unique > 0).all():"), "R13.7",
  "a plateau in an increasing index loses the direction")
V("C13-r6b2", "C13", (FRAME, "        elif (diff_unique <= 0).all():", "        elif diff_unique[0] < 0:"), "R13.7",
  "smallest step negative taken for decreasing (mixed steps included)")
V("C13-r6t1", "C13", (FRAME, "        elif (diff_unique >= 0).all():", "        elif diff_unique.min() >= 0:"), "silent",
  "smallest step instead of all steps")
V("C13-r6t2", "C13", (FRAME, "        elif (diff_unique <= 0).all():", "        elif np.all(diff <= 0):"), "silent",
  "np.all over the raw differences")
V("C13-r6t3", "C13", (FRAME, "        elif (diff_unique <= 0).all():", "        elif not (diff_unique > 0).any():"), "silent",
  "no positive step")
