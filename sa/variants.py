"""Seeded breaks and behaviour-preserving twins for the two-way self-validation (see selftest.py).

Each variant: id, prop, edits = [(path relative to src/dliswriter, old text, new text)], expect = rule id(s) that must
fire, or 'silent'.  The old text must occur exactly once in the file.
"""

VARIANTS = []


def V(id, prop, edits, expect, what=""):
    if isinstance(edits, tuple):
        edits = [edits]
    VARIANTS.append({"id": id, "prop": prop, "edits": edits, "expect": expect, "what": what})


HCM = "utils/high_compatibility_mode.py"
VC = "utils/internal/value_checkers.py"
VE = "utils/internal/validator_enum.py"
FILE = "file/file.py"
FRAME = "logical_record/eflr_types/frame.py"
ORIGIN = "logical_record/eflr_types/origin.py"

# ---------------------------------------------------------------------------------------------- C17
V("C17-b1", "C17", (HCM, "    try:\n        yield\n    finally:\n        global_config.high_compat_mode = arch",
                    "    yield\n    global_config.high_compat_mode = arch"), "R17.1",
  "restore only on the normal path: an exception inside the context leaves the mode on")
V("C17-b2", "C17", (HCM, "        global_config.high_compat_mode = arch", "        global_config.high_compat_mode = False"),
  "R17.1", "restore a constant: leaving a nested context switches the outer one off")
V("C17-b3", "C17", (VC, "HC_STRING_PATTERN.fullmatch(s)", "HC_STRING_PATTERN.match(s)"), "R17.5",
  "prefix match only")
V("C17-b4", "C17", (VC, 'r"[A-Z0-9_-]+"', 'r"[A-Za-z0-9_-]+"'), "R17.5", "pattern admits lower case")
V("C17-b5", "C17", (FILE, "    if global_config.high_compat_mode:\n        raise RuntimeError(message)\n    logger.warning(message)",
                    "    logger.warning(message)"), "R17.4", "raise_or_warn only warns")
V("C17-b6", "C17", (VE, "if soft and not global_config.high_compat_mode:", "if soft:"), "R17.4",
  "soft enum converter never raises")
V("C17-b7", "C17", (FRAME, "                if global_config.high_compat_mode:\n                    raise RuntimeError(m)\n", ""),
  "R17.4", "non-uniform spacing tolerated in the mode")
V("C17-b8", "C17", (ORIGIN, "                n = self.parent.n_items + 1\n", "                n = np.random.randint(1, 2 ** 20)\n"),
  "R17.4", "file set number random in the mode")
V("C17-b9", "C17", (FILE, "        self._check_data(data_object)\n        fr.setup_from_data(data_object)\n        return MultiFrameData(fr, data_object, **kwargs)",
                    "        fr.setup_from_data(data_object)\n        return MultiFrameData(fr, data_object, **kwargs)"),
  ["R17.6", "R17.4"], "signed-integer check dropped from the write path")
V("C17-b10", "C17", (VC, "    if not global_config.high_compat_mode:\n        return s\n", "    if not _HC:\n        return s\n"),
  ["R17.4", "R17.3"], "validator consults a stale module constant instead of the live flag")
V("C17-b11", "C17", ("logical_record/core/eflr/eflr_item.py", "        self.name = validate_string(name)    #: name of the item",
                     "        self.name = name    #: name of the item"), "R17.5", "object names no longer validated")
V("C17-b12", "C17", (HCM, "    arch = global_config.high_compat_mode\n    global_config.high_compat_mode = True\n",
                     "    global_config.high_compat_mode = True\n    arch = global_config.high_compat_mode\n"), "R17.1",
  "flag saved after it was overwritten")
V("C17-b13", "C17", ("logical_record/core/attribute/attribute.py", "        self._units = self._unit_checker(units)",
                     "        try:\n            self._units = self._unit_checker(units)\n        except ValueError:\n            self._units = units"),
  "R17.4", "unit validation error swallowed")
V("C17-t1", "C17", [(HCM, "    arch = global_config.high_compat_mode\n", "    previous = global_config.high_compat_mode\n"),
                    (HCM, "        global_config.high_compat_mode = arch", "        global_config.high_compat_mode = previous")],
  "silent", "rename the saved variable")
V("C17-t2", "C17", (VC, "    if not global_config.high_compat_mode:\n        return s\n\n    if HC_STRING_PATTERN.fullmatch(s) is None:\n        raise ValueError(",
                    "    if global_config.high_compat_mode and HC_STRING_PATTERN.fullmatch(s) is None:\n        raise ValueError("),
  "silent", "merge the two tests of the validator")
V("C17-t3", "C17", (FILE, "    if global_config.high_compat_mode:\n        raise RuntimeError(message)\n    logger.warning(message)",
                    "    if not global_config.high_compat_mode:\n        logger.warning(message)\n    else:\n        raise RuntimeError(message)"),
  "silent", "inverted test in raise_or_warn")
V("C17-t4", "C17", (HCM, "    try:\n        yield\n    finally:\n        global_config.high_compat_mode = arch",
                    "    try:\n        yield\n    except BaseException:\n        global_config.high_compat_mode = arch\n        raise\n    else:\n        global_config.high_compat_mode = arch"),
  "silent", "handler-plus-reraise instead of finally")
