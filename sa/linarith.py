"""Tiny decision procedure for conjunctions of integer linear constraints (part of the E3 abstract domain).

LinExpr: polynomial with Fraction coefficients whose monomials (products of symbols) are treated as independent
variables ("linearisation over monomials").  Constraints are `e <= 0` or `e == 0` over the integers.

* infeasible(cs)  - Fourier-Motzkin elimination with integer tightening (divide by the gcd of the variable coefficients,
  round the constant) and a gcd test on equalities.  A `True` answer is sound: no integer solution exists.
* find_model(cs)  - back-substitution search for a concrete integer witness; every model is re-checked by evaluating the
  constraints, so a returned witness is genuine (for the constraint set).
No external solver is used.
"""

from __future__ import annotations

from fractions import Fraction
from math import gcd, floor, ceil
from typing import Optional
import itertools


def _n(v):
    """Keep integers as Python ints (fast); only genuinely fractional coefficients stay Fractions."""
    if isinstance(v, int):
        return v
    if isinstance(v, Fraction):
        return v.numerator if v.denominator == 1 else v
    return Fraction(v)


class LinExpr:
    __slots__ = ("terms", "const", "_h")

    def __init__(self, terms=None, const=0):
        self.terms: dict = {k: _n(v) for k, v in (terms or {}).items() if v != 0}
        self.const = _n(const)
        self._h = None

    # --- construction helpers
    @staticmethod
    def sym(name: str) -> "LinExpr":
        return LinExpr({(name,): 1}, 0)

    @staticmethod
    def c(v) -> "LinExpr":
        return LinExpr({}, v)

    def is_const(self) -> bool:
        return not self.terms

    def symbols(self) -> set:
        return {s for m in self.terms for s in m}

    def monomials(self) -> set:
        return set(self.terms)

    def __add__(self, o):
        o = _lift(o)
        t = dict(self.terms)
        for k, v in o.terms.items():
            t[k] = t.get(k, 0) + v
        return LinExpr(t, self.const + o.const)

    __radd__ = __add__

    def __neg__(self):
        return LinExpr({k: -v for k, v in self.terms.items()}, -self.const)

    def __sub__(self, o):
        return self + (-_lift(o))

    def __rsub__(self, o):
        return _lift(o) - self

    def __mul__(self, o):
        o = _lift(o)
        t: dict = {}
        for k1, v1 in list(self.terms.items()) + [((), self.const)]:
            for k2, v2 in list(o.terms.items()) + [((), o.const)]:
                k = tuple(sorted(k1 + k2))
                t[k] = t.get(k, 0) + v1 * v2
        c = t.pop((), 0)
        return LinExpr(t, c)

    __rmul__ = __mul__

    def scale(self, f) -> "LinExpr":
        f = _n(f)
        return LinExpr({k: v * f for k, v in self.terms.items()}, self.const * f)

    def subst(self, mono, expr: "LinExpr") -> "LinExpr":
        if mono not in self.terms:
            return self
        coef = self.terms[mono]
        rest = LinExpr({k: v for k, v in self.terms.items() if k != mono}, self.const)
        return rest + expr.scale(coef)

    def eval(self, model: dict):
        tot = self.const
        for m, c in self.terms.items():
            if len(m) == 1:
                tot += c * model[m[0]]
            else:
                p = 1
                for s in m:
                    p *= model[s]
                tot += c * p
        return tot

    def __eq__(self, o):
        o = _lift(o)
        return self.terms == o.terms and self.const == o.const

    def __hash__(self):
        if self._h is None:
            self._h = hash((tuple(sorted(self.terms.items())), self.const))
        return self._h

    def __repr__(self):
        parts = []
        for m, c in sorted(self.terms.items()):
            name = "*".join(m)
            if c == 1:
                parts.append(f"+{name}")
            elif c == -1:
                parts.append(f"-{name}")
            else:
                parts.append(f"{'+' if c > 0 else ''}{c}*{name}")
        if self.const != 0 or not parts:
            parts.append(f"{'+' if self.const >= 0 else ''}{self.const}")
        s = "".join(parts)
        return s[1:] if s.startswith("+") else s


def _lift(o) -> LinExpr:
    if isinstance(o, LinExpr):
        return o
    return LinExpr({}, o)


class Cons:
    """e <= 0   (op 'le')   or   e == 0   (op 'eq')."""
    __slots__ = ("e", "op")

    def __init__(self, e: LinExpr, op: str):
        self.e = e
        self.op = op

    def negations(self) -> list["Cons"]:
        """Integer negation as a disjunction (list) of constraints."""
        if self.op == "le":
            return [Cons(-self.e + 1, "le")]  # e >= 1
        return [Cons(self.e + 1, "le"), Cons(-self.e + 1, "le")]  # e <= -1  or  e >= 1

    def holds(self, model: dict) -> bool:
        v = self.e.eval(model)
        return v <= 0 if self.op == "le" else v == 0

    def __repr__(self):
        return f"{self.e!r} {'<=' if self.op == 'le' else '=='} 0"

    def __eq__(self, o):
        return isinstance(o, Cons) and self.op == o.op and self.e == o.e

    def __hash__(self):
        return hash((self.e, self.op))


def le(a, b) -> Cons:
    return Cons(_lift(a) - _lift(b), "le")


def lt(a, b) -> Cons:
    return Cons(_lift(a) - _lift(b) + 1, "le")


def ge(a, b) -> Cons:
    return le(b, a)


def gt(a, b) -> Cons:
    return lt(b, a)


def eq(a, b) -> Cons:
    return Cons(_lift(a) - _lift(b), "eq")


# ------------------------------------------------------------------------------------------------ normalisation

def _normalise(c: Cons) -> Optional[Cons]:
    """Integer coefficients, divided by their gcd with the constant rounded (le) or gcd-tested (eq).
    Returns None for a trivially true constraint; raises _Infeasible for a trivially false one."""
    e = c.e
    if not e.terms:
        if (c.op == "le" and e.const <= 0) or (c.op == "eq" and e.const == 0):
            return None
        raise _Infeasible()
    den = 1
    for v in list(e.terms.values()) + [e.const]:
        d = v.denominator
        if d != 1:
            den = den * d // gcd(den, d)
    if den != 1:
        e = e.scale(den)
    g = 0
    for v in e.terms.values():
        g = gcd(g, abs(int(v)))
    if g > 1:
        if c.op == "le":
            e = LinExpr({k: v // g for k, v in e.terms.items()}, -((-e.const) // g))
        else:
            if int(e.const) % g != 0:
                raise _Infeasible()
            e = e.scale(Fraction(1, g))
    return Cons(e, c.op)


class _Infeasible(Exception):
    pass


def infeasible(cs: list[Cons], max_cons: int = 4000) -> bool:
    """True  => the conjunction has no integer solution (sound).  False => not shown infeasible."""
    try:
        work = []
        for c in cs:
            n = _normalise(c)
            if n is not None:
                work.append(n)
        # eliminate equalities by substitution where a unit coefficient exists; opposing inequalities
        # t + c <= 0 and -t - c <= 0 are turned into the equality t + c == 0 first (needed for parity reasoning)
        changed = True
        while changed:
            changed = False
            best: dict = {}
            for c in work:
                if c.op == "le":
                    key = tuple(sorted(c.e.terms.items()))
                    cur = best.get(key)
                    if cur is None or c.e.const > cur.e.const:
                        best[key] = c
            implied = []
            for key, c in best.items():
                neg = tuple(sorted((k, -v) for k, v in key))
                d = best.get(neg)
                if d is not None:
                    tot = c.e.const + d.e.const
                    if tot > 0:
                        raise _Infeasible()
                    if tot == 0 and key < neg:
                        implied.append(c)
            if implied:
                drop = set()
                for c in implied:
                    drop.add(tuple(sorted(c.e.terms.items())))
                    drop.add(tuple(sorted((k, -v) for k, v in c.e.terms.items())))
                work = [w for w in work if not (w.op == "le" and tuple(sorted(w.e.terms.items())) in drop)]
                for c in implied:
                    n = _normalise(Cons(c.e, "eq"))
                    if n is not None:
                        work.append(n)
                changed = True
            for i, c in enumerate(work):
                if c.op != "eq":
                    continue
                unit = None
                for m, v in c.e.terms.items():
                    if abs(v) == 1:
                        unit = (m, v)
                        break
                if unit is None:
                    continue
                m, v = unit
                # m = -(rest)/v
                rest = LinExpr({k: x for k, x in c.e.terms.items() if k != m}, c.e.const)
                repl = rest.scale(-1 if v == 1 else 1)
                new = []
                for j, d in enumerate(work):
                    if j == i:
                        continue
                    n = _normalise(Cons(d.e.subst(m, repl), d.op))
                    if n is not None:
                        new.append(n)
                work = new
                changed = True
                break
        # remaining equalities (no unit coefficient): split into two inequalities (gcd test already applied)
        ineqs = []
        for c in work:
            if c.op == "eq":
                for d in (Cons(c.e, "le"), Cons(-c.e, "le")):
                    n = _normalise(d)
                    if n is not None:
                        ineqs.append(n)
            else:
                ineqs.append(c)
        ineqs = _tightest(ineqs)
        # Fourier-Motzkin
        while True:
            monos = set()
            for c in ineqs:
                monos |= c.e.monomials()
            if not monos:
                return False
            # choose the variable producing the fewest new constraints
            best, best_cost = None, None
            for m in monos:
                pos = sum(1 for c in ineqs if c.e.terms.get(m, 0) > 0)
                neg = sum(1 for c in ineqs if c.e.terms.get(m, 0) < 0)
                cost = pos * neg - pos - neg
                if best_cost is None or cost < best_cost:
                    best, best_cost = m, cost
            m = best
            pos = [c for c in ineqs if c.e.terms.get(m, 0) > 0]
            neg = [c for c in ineqs if c.e.terms.get(m, 0) < 0]
            rest = [c for c in ineqs if c.e.terms.get(m, 0) == 0]
            new = list(rest)
            for p in pos:
                for n in neg:
                    a = p.e.terms[m]
                    b = -n.e.terms[m]
                    comb = p.e.scale(b) + n.e.scale(a)
                    nn = _normalise(Cons(comb, "le"))
                    if nn is not None:
                        new.append(nn)
            ineqs = _tightest(new)
            if len(ineqs) > max_cons:
                return False
    except _Infeasible:
        return True


def _tightest(ineqs: list[Cons]) -> list[Cons]:
    """Among inequalities with the same variable part keep the tightest (largest constant in `e + c <= 0`); detect
    a pair  t + c1 <= 0,  -t + c2 <= 0  with c1 + c2 > 0  (immediate contradiction)."""
    best: dict = {}
    for c in ineqs:
        key = tuple(sorted(c.e.terms.items()))
        cur = best.get(key)
        if cur is None or c.e.const > cur.e.const:
            best[key] = c
    for key, c in best.items():
        neg = tuple(sorted((k, -v) for k, v in key))
        d = best.get(neg)
        if d is not None and c.e.const + d.e.const > 0:
            raise _Infeasible()
    return list(best.values())


_CACHE: dict = {}


def infeasible_cached(cs: list[Cons]) -> bool:
    key = frozenset(cs)
    r = _CACHE.get(key)
    if r is None:
        r = infeasible(cs)
        if len(_CACHE) > 200000:
            _CACHE.clear()
        _CACHE[key] = r
    return r


def entails(cs: list[Cons], goal: Cons) -> bool:
    """cs |= goal over the integers (sound)."""
    return all(infeasible_cached(cs + [n]) for n in goal.negations())


# ------------------------------------------------------------------------------------------------ model search

def find_model(cs: list[Cons], prefer: Optional[dict] = None, span: int = 40, budget: int = 200000) -> Optional[dict]:
    """Search for an integer assignment of the base symbols satisfying all constraints; None if none was found
    within the budget.  Candidates per symbol come from the constants of the constraints (boundary values)."""
    syms = sorted({s for c in cs for s in c.e.symbols()})
    if not syms:
        return {} if all(c.holds({}) for c in cs) else None
    consts = {0, 1, 2, -1}
    for c in cs:
        k = c.e.const
        for d in (-2, -1, 0, 1, 2):
            consts.add(int(k) + d)
            consts.add(-int(k) + d)
        for v in c.e.terms.values():
            if v != 0:
                q = Fraction(-c.e.const, v)
                for d in (-1, 0, 1, 2):
                    consts.add(int(floor(q)) + d)
    cand = sorted(consts, key=lambda x: (abs(x), x))[:span]
    prefer = prefer or {}
    # order symbols: those in many constraints first
    syms.sort(key=lambda s: -sum(1 for c in cs if s in c.e.symbols()))
    single = {}
    for s in syms:
        # unary bounds prune candidates
        lo, hi = None, None
        for c in cs:
            if c.e.monomials() == {(s,)}:
                a = c.e.terms[(s,)]
                bound = Fraction(-c.e.const, a)
                if c.op == "eq":
                    lo = hi = bound
                elif a > 0:
                    hi = bound if hi is None else min(hi, bound)
                else:
                    lo = bound if lo is None else max(lo, bound)
        cs_s = [v for v in cand if (lo is None or v >= lo) and (hi is None or v <= hi)]
        extra = []
        if lo is not None:
            extra += [ceil(lo), ceil(lo) + 1, ceil(lo) + 2]
        if hi is not None:
            extra += [floor(hi), floor(hi) - 1, floor(hi) - 2]
        if s in prefer:
            extra.insert(0, prefer[s])
        for v in extra:
            if (lo is None or v >= lo) and (hi is None or v <= hi) and v not in cs_s:
                cs_s.append(v)
        single[s] = cs_s or [0]
    count = 0

    def rec(i, model):
        nonlocal count
        if i == len(syms):
            return dict(model) if all(c.holds(model) for c in cs) else None
        s = syms[i]
        for v in single[s]:
            count += 1
            if count > budget:
                return None
            model[s] = v
            # prune with constraints whose symbols are all assigned
            ok = True
            for c in cs:
                if c.e.symbols() <= set(model) and not c.holds(model):
                    ok = False
                    break
            if ok:
                r = rec(i + 1, model)
                if r is not None:
                    return r
            del model[s]
        return None

    return rec(0, {})
