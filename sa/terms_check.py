"""Self-check of the value-flow normal form (E6): pairs of functions that do the same thing in different clothes must get
the same summary, pairs that differ must not.  Run by the thorough tier (through sa.selftest.run_for) and by
`python -m sa.terms_check`.  The snippets are written to a tempfile.mkdtemp() package, parsed, never executed."""

from __future__ import annotations

import os
import shutil
import sys
import tempfile
import textwrap

EQUIVALENT = [
    ("temporaries", """
def a(self, x):
    t = x + 1
    u = t * 2
    self.v = u
def b(self, x):
    self.v = (x + 1) * 2
"""),
    ("guard clause vs if/else", """
def a(self, x):
    if x is None:
        raise ValueError("no")
    self.v = x
def b(self, x):
    if x is not None:
        self.v = x
    else:
        raise ValueError("no")
"""),
    ("conditional expression orientation", """
def a(self, x, d):
    return x if x is not None else d
def b(self, x, d):
    return d if x is None else x
"""),
    ("walrus", """
def a(self):
    if (o := self.origin):
        return o.ref
    return None
def b(self):
    o = self.origin
    if o:
        return o.ref
    return None
"""),
    ("getattr with a constant name", """
def a(self, o):
    return getattr(o, 'value')
def b(self, o):
    return o.value
"""),
    ("module constant", """
PARTS = ('value', 'units')
def a(self, k):
    if k not in PARTS:
        raise ValueError(k)
def b(self, k):
    if k not in ('value', 'units'):
        raise ValueError(k)
"""),
    ("De Morgan", """
def a(self, p, q):
    if not (p and q):
        raise ValueError()
def b(self, p, q):
    if not p or not q:
        raise ValueError()
"""),
    ("table-driven dispatch", """
def a(self, x):
    if isinstance(x, dict):
        return A(x)
    if isinstance(x, list):
        return B(x)
    raise TypeError()
def b(self, x):
    for t, w in ((dict, A), (list, B)):
        if isinstance(x, t):
            return w(x)
    raise TypeError()
"""),
    ("table-driven checks", """
REQUIRED = (('channels', 'no channels'), ('frames', 'no frames'))
def a(self):
    if not self.channels:
        raise RuntimeError('no channels')
    if not self.frames:
        raise RuntimeError('no frames')
def b(self):
    for name, msg in REQUIRED:
        if not getattr(self, name):
            raise RuntimeError(msg)
"""),
    ("typing.cast is the identity", """
from typing import cast
def a(self, o):
    x = cast(int, o.value[0])
    self.v = x + 1
def b(self, o):
    x: int = o.value[0]
    self.v = x + 1
"""),
    ("class-level constant", """
class C:
    _exts = ('h5', 'hdf5')
    def a(self, name):
        if name not in self._exts:
            raise ValueError(name)
    def b(self, name):
        if name not in ('h5', 'hdf5'):
            raise ValueError(name)
"""),
    ("NamedTuple result", """
from typing import NamedTuple
class SD(NamedTuple):
    spacing: float
    direction: bool
def _h(x) -> SD:
    return SD(spacing=x + 1, direction=x > 0)
def a(self, x):
    self.s = x + 1
    self.d = x > 0
def b(self, x):
    r = SD(x + 1, direction=x > 0)
    self.s = r.spacing
    self.d = r[1]
"""),
    ("match statement on types", """
def a(self, v):
    if isinstance(v, str):
        return 1
    elif isinstance(v, (int, float)):
        return 2
    elif v is None:
        return 3
    else:
        raise TypeError(v)
def b(self, v):
    match v:
        case str():
            return 1
        case int() | float():
            return 2
        case None:
            return 3
        case _:
            raise TypeError(v)
"""),
    ("comparison orientation", """
def a(self, n):
    if 3 < n:
        return 1
    return 0
def b(self, n):
    if n > 3:
        return 1
    return 0
"""),
]

DIFFERENT = [
    ("operands swapped", """
def a(self, x, y):
    self.v = x - y
def b(self, x, y):
    self.v = y - x
"""),
    ("condition dropped", """
def a(self, x):
    if self.v is None:
        self.v = x
def b(self, x):
    self.v = x
"""),
    ("other field", """
def a(self, x):
    self.value = x
def b(self, x):
    self.units = x
"""),
    ("is None vs falsy", """
def a(self, x):
    if self.v is None:
        self.v = x
def b(self, x):
    if not self.v:
        self.v = x
"""),
]

INLINE_EQUIVALENT = [
    ("helper extracted", """
class C:
    def a(self, x):
        if x < 0:
            raise ValueError()
        self.v = x * 2
    def _check(self, x):
        if x < 0:
            raise ValueError()
    def _double(self, x):
        return x * 2
    def b(self, x):
        self._check(x)
        self.v = self._double(x)
"""),
    ("helper result bound to a local and used in a loop", """
class C:
    def a(self, n):
        if n < 1:
            raise ValueError()
        out = Buf(n)
        for x in self.items:
            out.add(x)
    def _mk(self, n):
        if n < 1:
            raise ValueError()
        return Buf(n)
    def b(self, n):
        out = self._mk(n)
        for x in self.items:
            out.add(x)
"""),
    ("generator helper fused", """
class C:
    def a(self, items):
        for it in items:
            for v in it.values:
                if v is None:
                    raise ValueError()
    def _iter(self, items):
        for it in items:
            for v in it.values:
                yield v
    def b(self, items):
        for v in self._iter(items):
            if v is None:
                raise ValueError()
"""),
]


def _fingerprint(summ):
    from .terms import pp
    rets = sorted((tuple(sorted(pp(c) for c in pc)), pp(t)) for pc, t, _ in summ.returns)
    # (effects as a multiset: the textual order of a raise and of the statements of the other branch is not semantic)
    effs = sorted((e.kind, pp(e.base) if isinstance(e.base, tuple) else str(e.base),
                   pp(e.key) if isinstance(e.key, tuple) else str(e.key),
                   pp(e.value) if isinstance(e.value, tuple) else str(e.value),
                   tuple(sorted(pp(c) for c in e.pc)), tuple(c[0] for c in e.ctx)) for e in summ.effects)
    return rets, effs


def _strip_loop_ids(fp):
    import re
    return re.sub(r"\b[LWCYT]\d+\b", "L", repr(fp))


def run() -> list:
    from .index import Index
    from .callgraph import CallGraph
    from .terms import TermEval
    failures = []
    tmp = tempfile.mkdtemp(prefix="sa_terms_")
    try:
        pkg = os.path.join(tmp, "pkg")
        os.makedirs(pkg)
        open(os.path.join(pkg, "__init__.py"), "w").close()
        groups = [("eq", EQUIVALENT, False), ("ne", DIFFERENT, False), ("inl", INLINE_EQUIVALENT, True)]
        k = 0
        names = []
        for tag, pairs, inline in groups:
            for title, src in pairs:
                k += 1
                mod = f"m{k}"
                with open(os.path.join(pkg, mod + ".py"), "w") as f:
                    f.write(textwrap.dedent(src))
                names.append((tag, title, mod, inline))
        ix = Index(pkg)
        cg = CallGraph(ix)
        te = TermEval(ix, cg)
        for tag, title, mod, inline in names:
            fs = {f.name: f for f in ix.functions.values() if f.module.name.endswith(mod) and f.name in ("a", "b")}
            if set(fs) != {"a", "b"}:
                failures.append(f"{title}: functions not found")
                continue
            sa_, sb = (te.inline(fs[n], 3) if inline else te.summary(fs[n]) for n in ("a", "b"))
            fa, fb = _strip_loop_ids(_fingerprint(sa_)), _strip_loop_ids(_fingerprint(sb))
            if tag in ("eq", "inl") and fa != fb:
                failures.append(f"equivalent pair `{title}` has different normal forms:\n   {fa}\n   {fb}")
            if tag == "ne" and fa == fb:
                failures.append(f"different pair `{title}` has the same normal form")
    finally:
        shutil.rmtree(tmp, ignore_errors=True)
    return failures


if __name__ == "__main__":
    fl = run()
    for f in fl:
        print("FAIL", f)
    print(f"terms self-check: {len(EQUIVALENT) + len(DIFFERENT) + len(INLINE_EQUIVALENT)} pairs, {len(fl)} failures")
    sys.exit(1 if fl else 0)
