"""C20 - a rejected call leaves no trace in later files.

R20.1 (CFG + effects) publish last: in EFLRItem.__init__ and every subclass constructor no statement that can raise
      follows the statement that makes `self` reachable from shared state (register_item / super().__init__ of the
      subclass); nothing that runs before publication writes to shared state (set, registries, logical file).
R20.2 (CFG) in each LogicalFile.add_* the stores to logical-file state (data dictionary, record lists) come after the
      item constructor has returned; what runs before it is limited to obtaining the set.  R20.2b: obtaining the set
      *registers* it (empty) before the constructor can reject the call - recorded as known finding F-SETORDER.
R20.3 (effects, shared with C14 R14.5) a failing or repeated write leaves nothing data-derived behind on the objects.
R20.4 (CFG) attribute assignment is atomic: the value / units setters store the converter's result in one statement;
      the cast dtype is validated before it is stored.
"""

from __future__ import annotations

import ast

from .. import AnalysisError
from ..cfg import CFG, ENTRY, EXIT, default_may_raise, header_expr
from ..common import item_list_field, Model, norm, is_self_attr, find_super_init_call
from ..effects import stores_in
from ..index import Scope, walk_local, walk_expr
from ..report import Check

LEVEL = "other"
EXPLANATION = ("Ordering rules on the control-flow graphs of the 22 item constructors and the 21 add_* methods "
               "(publish last; state stored only after the constructor returned), effect rules (nothing reachable "
               "before publication writes shared state) and atomicity of the attribute setters. These are the "
               "mechanisms by which a rejected call could leave a trace; equality of later files with a history "
               "without the rejected call is a runtime notion and is not decided as such. Carries known findings "
               "(an empty set registered by a rejected call fixes the set order; data-derived values persist).")

SHARED_CLASSES = ("EFLRSet", "EFLRSetsDict", "LogicalFile", "DLISFile")


def run(chk):
    chk.guard(r20_1_publish_last, chk)
    chk.guard(r20_2_add_methods, chk)
    chk.guard(r20_3_write, chk)
    chk.guard(r20_3_refusal_order, chk)
    chk.guard(r20_4_atomic_setters, chk)


def _calls_target(ix, f, stmt, target) -> bool:
    h = header_expr(stmt)
    if h is None:
        return False
    sc = Scope(ix, f)
    for n in walk_expr(h):
        if isinstance(n, ast.Call) and target in ix.resolve_call(n, sc)[0]:
            return True
    return False


def r20_1_publish_last(chk):
    ix, cg = chk.ix, chk.cg
    model = Model(ix)
    item = model.EFLRItem
    base = item.lookup("__init__")
    reg = model.EFLRSet.lookup("register_item")
    if base is None or reg is None:
        raise AnalysisError("EFLRItem.__init__ / EFLRSet.register_item not found")
    chk.consult(base, reg)
    g = CFG(base.node)
    pub = g.nodes_where(lambda s: _calls_target(ix, base, s, reg))
    chk.require(len(pub) == 1, "R20.1", "base:registers-once", f"EFLRItem.__init__ registers the item {len(pub)} times",
                base.where)
    if len(pub) == 1:
        p = next(iter(pub))
        after = g.reachable(p, exceptional=False) - {p}
        risky = [n for n in after if g.stmt.get(n) is not None and g.kind[n] not in ("def",)
                 and default_may_raise(header_expr(g.stmt[n]))]
        chk.require(not risky, "R20.1", "base:nothing-fallible-after-registration",
                    f"after the item was registered with its set, `{norm(g.stmt[risky[0]])[:60] if risky else ''}` can "
                    f"still raise: a rejected call leaves a half-built object in the set", base.where)
        chk.require(g.must_pass_through({p}, ENTRY, EXIT, exceptional=False), "R20.1", "base:always-registers",
                    "a normal path through EFLRItem.__init__ does not register the item", base.where)
    # what runs before publication must not write shared state
    writers = {}
    for cname in SHARED_CLASSES:
        c = ix.get_class(cname)
        for m in c.methods.values():
            st = [s for s in stores_in(m) if isinstance(s.base, ast.Name) and s.base.id in m.param_names[:1]
                  or (isinstance(s.base, ast.Subscript))]
            st = stores_in(m)
            if st and m.name != "__init__":
                writers[m] = st
    pre = cg.reachable([base], stop=lambda f: f is reg)
    for f in sorted(pre, key=lambda x: x.qualname):
        if f in writers and f is not reg and f is not base:
            chk.fail("R20.1", f"shared-state-written-before-publication:{f.short}",
                     f"{f.short} (reachable from the item constructor before the item is registered) writes "
                     f"`{writers[f][0].target}`: a rejected call still changes shared state "
                     f"(path: {' -> '.join(cg.path_to(pre, f)[-4:])})", writers[f][0].where)
    chk.ok("R20.1", "pre-publication-code-effect-free", f"{len(pre)} functions reachable before registration examined",
           base.where)
    # the copy number is derived from the registered items (so an unregistered, rejected item does not count)
    ccn = item.lookup("_compute_copy_number")
    if ccn is not None:
        chk.consult(ccn)
        from .c07 import copy_number_counts_registered_items
        chk.require(copy_number_counts_registered_items(chk, ccn), "R20.1", "copy-number-from-registered-items",
                    "the copy number is not computed from the items registered in the set (a counter consumed by "
                    "rejected calls shifts later copy numbers)", ccn.where)
    # subclasses: nothing fallible after super().__init__
    n_sub = 0
    for ic in sorted(model.item_classes, key=lambda c: c.name):
        init = ic.methods.get("__init__")
        if init is None:
            continue
        n_sub += 1
        chk.consult(init)
        sup = find_super_init_call(init)
        if sup is None:
            raise AnalysisError(f"{ic.name}.__init__ does not call super().__init__")
        g = CFG(init.node)
        p = g.node_for(sup)
        after = g.reachable(p, exceptional=False) - {p}
        risky = [n for n in after if g.stmt.get(n) is not None and default_may_raise(header_expr(g.stmt[n]))]
        chk.require(not risky, "R20.1", f"subclass:nothing-fallible-after-super().__init__:{ic.name}",
                    f"{ic.name}.__init__ does fallible work after super().__init__ registered the item: "
                    f"`{norm(g.stmt[risky[0]])[:70] if risky else ''}`", init.where, nontrivial=bool(after))
    chk.floor("item constructors checked", n_sub, 21)
    # hooks run by the base constructor before registration in subclasses are covered by `pre` above


def r20_2_add_methods(chk):
    ix = chk.ix
    model = Model(ix)
    lf = model.LogicalFile
    ams = model.add_methods()
    chk.floor("add_* methods", len(ams), 21)
    pre_reg_sites = []
    for f, ic, ctor in sorted(ams, key=lambda t: t[0].name):
        chk.consult(f)
        g = CFG(f.node)
        cstmt = None
        for n, s in g.stmt.items():
            h = header_expr(s)
            if h is not None and any(x is ctor for x in ast.walk(h)):
                cstmt = n
        if cstmt is None:
            raise AnalysisError(f"{f.short}: constructor statement not found")
        # stores to self state
        for s in stores_in(f):
            if not (isinstance(s.base, ast.Name) and s.base.id == "self"):
                continue
            node = None
            for n, st in g.stmt.items():
                if st is None or isinstance(st, (ast.If, ast.For, ast.While, ast.Try, ast.With, ast.ExceptHandler)):
                    continue
                if st is s.node or any(x is s.node for x in ast.walk(st)):
                    node = n
            ok = node is not None and g.dominated_by(node, {cstmt}) and node != cstmt
            chk.require(ok, "R20.2", f"state-stored-after-constructor:{f.name}:{s.target}",
                        f"{f.name} stores `{s.target}` before the item constructor has accepted the call: a rejected "
                        f"call leaves it behind", s.where)
        # registrations before the constructor (set obtained / registered)
        for n, s in g.stmt.items():
            h = header_expr(s)
            if h is None or n == cstmt:
                continue
            for c in walk_expr(h):
                if isinstance(c, ast.Call) and isinstance(c.func, ast.Attribute) \
                        and c.func.attr in ("try_add_set", "add_set", "get_or_make_set") \
                        and not g.dominated_by(n, {cstmt}):
                    pre_reg_sites.append((f, c))
    chk.info["set_registered_before_constructor_sites"] = len(pre_reg_sites)
    if pre_reg_sites:
        f0, c0 = pre_reg_sites[0]
        chk.fail("R20.2", "set-registered-before-item-constructor",
                 f"{len(pre_reg_sites)} call sites in {len({f for f, _ in pre_reg_sites})} add_* methods create / register "
                 f"the (possibly new, empty) set before the item constructor can reject the call: the empty set stays "
                 f"registered and fixes the position of that set in later files", f"{f0.module.relpath}:{c0.lineno}")
    # helper used before the constructor must be effect free
    gud = lf.lookup("_get_unique_dataset_name")
    if gud is not None:
        chk.consult(gud)
        chk.require(not [s for s in stores_in(gud) if isinstance(s.base, ast.Name) and s.base.id == "self"], "R20.2",
                    "dataset-name-computed-not-reserved", "_get_unique_dataset_name reserves state", gud.where)


def r20_3_write(chk):
    from . import c14
    tmp = Check("C14", "quick", 0, chk.ix, chk.cg, quiet=True)
    tmp._terms = chk.terms
    c14.r14_5_write_path_stores(tmp)
    for o in tmp.obs:
        o.rule = "R20.3"
        chk.obs.append(o)
    chk.consulted_functions |= tmp.consulted_functions
    # checks that can refuse the write run before the write starts changing the specification: in the per-frame
    # preparation every raise that is not part of the set-up from data itself precedes the first store into a
    # specification object (otherwise a refused write leaves half of its derived state behind even where the refusal
    # could have come first)
    from ..terms import attr_stores
    ix = chk.ix
    mk = ix.get_method("LogicalFile", "_make_multi_frame_data")
    setup = ix.get_method("FrameItem", "setup_from_data")
    chk.consult(mk, setup)
    part_of_setup = set(chk.cg.reachable([setup]))
    # (the record generator object is constructed last; its own argument checks restate what the wrapper construction
    #  established - same mapping, same frame - and are not refusals of the user's input)
    mfd_init = ix.get_class("MultiFrameData").lookup("__init__")
    part_of_setup |= set(chk.cg.reachable([mfd_init])) if mfd_init is not None else set()
    su = chk.terms.inline(mk, 4)
    store_idx = [i for i, e in enumerate(su.effects) if (e.kind == "store_attr" and e.base[0] != "call") or
                 (e.kind == "call" and e.value[1] == ("global", "setattr"))]
    first_store = min(store_idx, default=None)
    late = [e for i, e in enumerate(su.effects) if e.kind == "raise" and first_store is not None and i > first_store
            and e.func not in part_of_setup]
    chk.require(first_store is not None and not late, "R20.3", "refusals-before-write-time-stores",
                f"{[e.func.short for e in late][:3]} can refuse the write after the frame / channels were already "
                f"modified from the data: the failed write leaves derived values on the specification although the check "
                f"could have run first", mk.where)


def r20_3_refusal_order(chk):
    """Inside the set-up of one object from the data (a channel, the frame): a refusal that is decided *after* a derived
    value was already stored leaves that value behind although the write did not happen.  Every (stored attribute part,
    attribute the later refusal is about) pair is an obligation, keyed semantically (whichever helper stores or raises)."""
    from ..terms import subterms, refusal_literals, passed_refusal, pp, neg
    ix = chk.ix

    def path(t):
        out = []
        while t[0] == "attr":
            out.append(t[2])
            t = t[1]
        return ".".join(reversed(out))

    def spec_paths(l):
        return sorted({path(x) for x in subterms(l) if x[0] == "attr" and x[2] in ("value", "units")
                       and x[1][0] == "attr"})
    n = 0
    for cname, mname in (("ChannelItem", "set_dimension_and_repr_code_from_data"), ("FrameItem", "setup_from_data")):
        f = ix.get_method(cname, mname)
        if f is None:
            raise AnalysisError(f"{cname}.{mname} not found")
        chk.consult(f)
        su = chk.terms.inline(f, 4, stop=lambda g: g.cls is not None and g.cls.name == "ReprCodeConverter")
        ref = refusal_literals(su)
        stores, pairs = [], {}
        for i, e in enumerate(su.effects):
            if e.kind == "store_attr" and e.base[0] != "call" and e.key in ("value", "units"):
                stores.append((i, path(("attr", e.base, e.key)), e))
            elif e.kind == "call" and e.value[1] == ("global", "setattr") and len(e.value[2]) == 3 and \
                    e.value[2][1][0] == "const":
                stores.append((i, path(("attr", e.value[2][0], e.value[2][1][1])), e))
            elif e.kind == "raise":
                own = [l for l in e.pc if not passed_refusal(l, ref)]
                subj = "+".join(sorted({p_ for l in own for p_ in spec_paths(l)}))
                for j, k, s_ in stores:
                    # (a store and a refusal on the two branches of one test never happen in the same run)
                    exclusive = any(neg(l) in e.pc for l in s_.pc)
                    if j < i and k and not exclusive:
                        pairs.setdefault((k, subj), (s_, e))
        n += len(stores)
        for (k, subj), (s_, e) in sorted(pairs.items()):
            chk.fail("R20.3", f"store-before-refusal:{cname}.{k}|{subj or 'other'}",
                     f"{cname}: `{k}` is derived from the data and stored before the refusal about `{subj or '?'}` is "
                     f"decided ({e.func.short}): a write refused there leaves the stored value on the specification",
                     s_.where)
    chk.floor("derived stores in the per-object set-up", n, 4)


def r20_4_atomic_setters(chk):
    ix = chk.ix
    attr = ix.get_class("Attribute")
    for key, field in (("value.setter", "_value"), ("units.setter", "_units")):
        f = attr.methods.get(key)
        if f is None:
            raise AnalysisError(f"Attribute.{key} not found")
        chk.consult(f)
        stores = [n for n in walk_local(f.node) if isinstance(n, ast.Assign)
                  and any(is_self_attr(t, field) for t in n.targets)]
        g = CFG(f.node)
        ok = len(stores) == 1 and isinstance(stores[0].value, ast.Call)
        if ok:
            p = g.node_for(stores[0])
            after = g.reachable(p, exceptional=False) - {p}
            ok = not [n for n in after if g.stmt.get(n) is not None and default_may_raise(header_expr(g.stmt[n]))]
        chk.require(ok, "R20.4", f"setter-stores-converted-result-last:{key}",
                    f"Attribute.{key} does not store the checked / converted result as its last fallible step", f.where)
    ch = ix.get_class("ChannelItem")
    scd = ch.lookup("_set_cast_dtype")
    chk.consult(scd)
    from ..terms import SELF as _S, is_call as _ic, call_arg as _ca
    ssum = chk.summary(scd)
    dt = ("param", scd.param_names[1])
    vals = [i for i, e in enumerate(ssum.effects) if e.kind == "call" and _ic(e.value, "validate_numpy_dtype")
            and _ca(e.value, 0) == dt and all(l == ("cmp", "is not", dt, ("const", None)) for l in e.pc)]
    sts = [i for i, e in enumerate(ssum.effects) if e.kind == "store_attr" and e.base == _S and e.key == "_cast_dtype"]
    ok = bool(vals) and bool(sts) and min(vals) < min(sts)
    chk.require(ok, "R20.4", "cast-dtype-validated-before-stored",
                "a rejected cast dtype is stored on the channel before it is validated", scd.where)
