"""C18 - frames and logical files are isolated from one another.

R18.1 (BytesAI, shared with C09 R09.1) the generator emits, per logical file and in creation order, only what is reached
      through that logical file's own registry, record list and frame-data list.
R18.2 (effects) inside LogicalFile the storage-unit-wide registry is used for get_or_make_set only; iterating it or
      storing through objects reached from it (other logical files' objects) is a violation.
R18.3 (inlined value-flow summaries, 21 sibling sites) every add_* passes the set obtained from the storage-unit-wide registry through the
      per-logical-file registration, which refuses - on every path - a set that already belongs to another logical file,
      and records the owner when it registers.
R18.4 (effects) one MultiFrameData per frame with its own counter (instance field reset when iteration starts); row counts
      come from each frame's own wrapper.
R18.5 defining_origin / channels / frames / origins derive from the logical file's own registry.
R18.6 data set names are unique across all channels of the logical file (not only within one channel set), so inline
      data of one frame cannot overwrite another's.
R18.8 the arguments of the per-frame data factory are free of values carried from one round of the loop over the
      logical files into the next (re-bound locals): one file's inline data cannot reach another file's frames.
R18.7 = C07 R07.3: every reference (all reference-typed attributes, the no-format objects) is checked, on the write path,
      to point into the same logical file.
"""

from __future__ import annotations

import ast

from .. import AnalysisError
from ..cfg import CFG, ENTRY, EXIT, header_expr
from ..common import Model, norm, is_self_attr, kw
from ..effects import stores_in
from ..index import Scope, walk_local, walk_expr
from ..report import Check

LEVEL = "other"
EXPLANATION = ("Isolation is decided as a closed set of structural clauses: the interpreted record generator only "
               "reaches a logical file's own registry; the shared registry is used for set lookup only; the ownership "
               "guard sits on every path of set registration at all 21 add_* sites; per-frame counters and per-file "
               "dataset names. Not decided: decoded per-file inventories of real files (reader side).")


def r18_7_references(chk):
    """References stay inside their logical file: the generic membership check of C07 R07.3."""
    from . import c07
    n0 = len(chk.obs)
    c07.r07_3_references(chk)
    for o in chk.obs[n0:]:
        o.rule = "R18.7"


def run(chk):
    chk.guard(r18_7_references, chk)
    chk.guard(r18_1, chk)
    chk.guard(r18_2_shared_registry_use, chk)
    chk.guard(r18_3_ownership, chk)
    chk.guard(r18_4_5_6, chk)
    chk.guard(r18_8_no_carry_over, chk)


def r18_8_no_carry_over(chk):
    """What the frames of one logical file are given for a write does not depend on the logical files handled before
    it: in the function that builds the frame data of all logical files, the arguments of the per-frame factory are
    free of loop-carried values (a variable re-bound inside the loop over the logical files carries one file's data
    into the next)."""
    from ..terms import subterms, pp, call_name
    from ._layout import frame_data_plan
    plan = frame_data_plan(chk)
    ix = chk.ix
    gen = ix.get_method("DLISFile", "generate_logical_records")
    if gen is None:
        raise AnalysisError("DLISFile.generate_logical_records not found")
    chk.consult(gen)
    gs = chk.terms.inline(gen, 2, stop=lambda h: h is plan.func or h.name == "__init__" or
                          h.cls not in (gen.cls, plan.func.cls))
    unique_name = sum(1 for h in ix.functions.values() if h.name == plan.func.name) == 1
    calls = [c for c in gs.all_calls() if (plan.func in gs.calls.get(c, ()) and c in gs.precise) or
             (unique_name and call_name(c) == plan.func.name)]
    calls = list(dict.fromkeys(calls))
    chk.floor("calls of the per-frame data factory", len(calls), 1)
    for c in calls:
        carried = [x for a in list(c[2]) + [v for _, v in c[3]] for x in subterms(a) if x[0] in ("mu", "fold")]
        chk.require(not carried, "R18.8", "factory-arguments-not-loop-carried",
                    f"the per-frame data factory is called with a value carried over from the logical files handled "
                    f"before ({sorted({x[2] if x[0] == 'mu' else x[2] for x in carried})}): one logical file's data "
                    f"reach the next one's frames", f"{gen.module.relpath}:{gen.node.lineno}")


def r18_1(chk):
    from . import c09
    tmp = Check("C09", "quick", 0, chk.ix, chk.cg, quiet=True)
    c09.r09_1_order(tmp)
    for o in tmp.obs:
        o.rule = "R18.1"
        chk.obs.append(o)
    chk.consulted_functions |= tmp.consulted_functions
    # no read of the storage-unit-wide registry inside the generator
    gen = chk.ix.get_method("DLISFile", "generator")
    uses = [n for n in walk_local(gen.node) if isinstance(n, ast.Attribute) and n.attr == "_eflr_sets"
            and isinstance(n.value, ast.Name) and n.value.id == "self"]
    chk.require(not uses, "R18.1", "generator-ignores-shared-registry",
                "the record generator reads the registry shared by all logical files", gen.where)


def r18_2_shared_registry_use(chk):
    ix = chk.ix
    lf = ix.get_class("LogicalFile")
    n_uses = 0
    for f in lf.methods.values():
        for n in walk_local(f.node):
            if isinstance(n, ast.Attribute) and n.attr == "_eflr_sets" and isinstance(n.value, ast.Attribute) \
                    and n.value.attr == "physical_file":
                n_uses += 1
                parent = None
                for p in walk_local(f.node):
                    if isinstance(p, ast.Attribute) and p.value is n:
                        parent = p
                ok = parent is not None and parent.attr == "get_or_make_set"
                chk.require(ok, "R18.2", f"shared-registry-use:{f.name}:{norm(parent) if parent is not None else 'bare'}"
                            [:90], f"{f.name} uses the storage-unit-wide registry for something other than "
                            f"get_or_make_set (`{norm(parent) if parent is not None else norm(n)}`): objects of other "
                            f"logical files become reachable", f"{f.module.relpath}:{n.lineno}", nontrivial=False)
            if isinstance(n, ast.Attribute) and n.attr == "logical_files" and isinstance(n.value, ast.Attribute) \
                    and n.value.attr == "physical_file":
                chk.fail("R18.2", f"other-logical-files-reached:{f.name}", f"{f.name} reaches the other logical files "
                         f"of the storage unit", f"{f.module.relpath}:{n.lineno}")
    chk.floor("uses of the shared registry in LogicalFile", n_uses, 1)


def r18_3_ownership(chk):
    """Ownership of sets, on inlined value-flow summaries (helpers such as a private _get_or_make_set or a guard method
    are looked through): what the registration entry points of the per-logical-file registry do, and what each add_*
    does with the set it takes from the storage-unit-wide registry."""
    from ..terms import (ctor_calls, bound_arg, SELF, A, K, NONE, contains, subterms, is_call, call_name, call_arg, pp, attr_stores,
                         raise_conditions, same_call)
    ix = chk.ix
    model = Model(ix)
    reg = ix.get_class("EFLRSetsDict")
    n_entry = 0
    owner_field = None
    for name in ("try_add_set", "add_set"):
        f = reg.methods.get(name)
        if f is None:
            continue
        n_entry += 1
        chk.consult(f)
        su = chk.terms.inline(f, 3)
        the_set = ("param", f.param_names[1])
        # registration = a subscript store of the set into the registry (self[...][...] = set)
        regs = [(i, e) for i, e in enumerate(su.effects) if e.kind == "store_sub" and e.value == the_set
                and contains(e.base, SELF)]
        owners = [(i, e) for i, e in enumerate(su.effects) if e.kind == "store_attr" and e.base == the_set
                  and e.value == SELF]
        for _, e in owners:
            owner_field = e.key
        chk.require(bool(regs) and bool(owners) and all(any(o.pc == r.pc for _, o in owners) for _, r in regs), "R18.3",
                    f"owner-set-on-registration:{name}",
                    f"{name} registers a set without marking it (on the same path) as owned by this logical file's "
                    f"registry", f.where)
        if owner_field is None:
            continue
        own = A(the_set, owner_field)
        foreign = [("cmp", "is not", own, NONE), ("cmp", "is not", own, SELF)]
        guards = [(i, e) for i, e in enumerate(su.effects) if e.kind == "raise" and all(l in e.pc for l in foreign)]
        chk.require(bool(guards), "R18.3", f"ownership-guard-exists:{name}",
                    f"{name} does not raise for a set that already belongs to another logical file", f.where)
        for i, g in guards:
            extra = [l for l in g.pc if l not in foreign]
            chk.require(not extra, "R18.3", f"guard-unconditional:{name}",
                        f"the ownership test is weakened by an extra condition ({[pp(l)[:50] for l in extra]}): some "
                        f"foreign-owned sets are shared silently", g.where)
        first_guard = min((i for i, _ in guards), default=None)
        ok = first_guard is not None and all(first_guard < i for i, _ in regs)
        # nothing returns normally before the guard was evaluated: every return is conditioned on "not foreign"
        neg = ("or", (("cmp", "is", own, NONE), ("cmp", "is", own, SELF)))
        if guards and all(g.func is not f for _, g in guards):
            # the guard sits in a helper called at statement level: its raise carries no condition of the caller, so
            # the call is unconditional and nothing returns before it
            rets_ok = all(not [l for l in g.pc if l not in foreign] and not g.ctx for _, g in guards)
        else:
            rets_ok = all(neg in pc or any(l in (("cmp", "is", own, NONE), ("cmp", "is", own, SELF)) for l in pc)
                          for pc, _, _ in su.returns) and (not su.falls_through or neg in su.fall_pc or any(
                              l in (("cmp", "is", own, NONE), ("cmp", "is", own, SELF)) for l in su.fall_pc))
        chk.require(ok and rets_ok, "R18.3", f"guard-dominates-registration:{name}",
                    f"{name} can register (or silently accept) a set without the ownership test", f.where)
    chk.floor("registration entry points", n_entry, 1)
    chk.require(owner_field is not None, "R18.3", "owner-recorded",
                "registering a set in a logical file's registry does not record the owner: sharing cannot be detected",
                reg.where)
    chk.info["owner_field"] = owner_field
    # sibling agreement over the add_* sites
    ams = model.add_methods()
    chk.floor("add_* methods", len(ams), 21)
    shared = A(SELF, "physical_file", "_eflr_sets")
    own_reg = A(SELF, "_eflr_sets")
    for f, ic, ctor in sorted(ams, key=lambda t: t[0].name):
        chk.consult(f)
        su = chk.terms.inline(f, 3, stop=lambda g: g.cls is not None and g.cls.name in ("EFLRSetsDict",) or
                              g.name == "__init__")
        ctors = [c for c in ctor_calls(su, ic) if bound_arg(chk.terms, su, c, "parent") is not None]
        if not ctors:
            raise AnalysisError(f"{f.short}: item constructor call with parent= not found")
        parent = bound_arg(chk.terms, su, ctors[0], "parent")
        from_shared = is_call(parent, "get_or_make_set") and parent[1][1] == shared
        from_own = is_call(parent, "get_or_make_set") and parent[1][1] == own_reg
        ctor_pc = None
        for pc, t, _ in su.returns:
            if contains(t, ctors[0]):
                ctor_pc = pc
        for e in su.effects:
            if ctor_pc is None and any(isinstance(t, tuple) and contains(t, ctors[0]) for t in (e.base, e.key, e.value)):
                ctor_pc = e.pc
        ctor_pc = ctor_pc or ()
        registered = [e for e in su.effects if e.kind == "call" and is_call(e.value, ("try_add_set", "add_set"))
                      and e.value[1][1] == own_reg and e.value[2] and same_call(chk.terms, su, e.value[2][0], parent)
                      and set(e.pc) <= set(ctor_pc) and not e.ctx]
        chk.require((from_shared and bool(registered)) or from_own, "R18.3", f"site:{f.name}",
                    f"{f.name} hands a set from the shared registry to the item constructor without passing it "
                    f"(unconditionally) through this logical file's guarded registration", f.where)


def r18_4_5_6(chk):
    ix = chk.ix
    mfd = ix.get_class("MultiFrameData")
    it_ = mfd.lookup("__iter__")
    nx = mfd.lookup("__next__")
    if it_ is None:
        raise AnalysisError("MultiFrameData.__iter__ not found")
    if nx is None and it_.is_generator():
        # generator form: the numbering lives in the locals of one generator run - per frame and per write by
        # construction; that it counts all rows from 1 is C03 R03.1's rule for this form
        from . import c03
        chk.consult(it_)
        c03._numbering_generator_form(chk, mfd, it_)
        for o in chk.obs:
            if o.rule == "R03.1":
                o.rule = "R18.4"
        nx = None
    elif nx is None:
        raise AnalysisError("MultiFrameData is neither an iterator (__next__) nor a generator-based iterable")
    else:
        chk.consult(it_, nx)
    counter = None
    for s in (stores_in(nx) if nx is not None else ()):
        if s.kind == "aug" and isinstance(s.base, ast.Name) and s.base.id == "self":
            counter = s.attr
    if nx is not None:
        chk.require(counter is not None, "R18.4", "frame-counter-is-instance-state",
                    "the frame number is not an instance field of the per-frame generator", nx.where)
    if counter:
        reset = [s for s in stores_in(it_) if s.attr == counter and isinstance(s.value, ast.Constant)
                 and s.value.value == 0]
        cls_level = counter in mfd.class_assigns
        chk.require(bool(reset) and not cls_level, "R18.4", "frame-counter-reset-per-iteration",
                    "the frame number counter is shared / not reset when iteration starts: numbering would not start "
                    "from 1 for every frame and every write", it_.where)
        from ..terms import SELF as _S, A as _A, bound_arg as _ba, is_call as _ic, return_alternatives as _ra
        nsum = chk.summary(nx)
        made = [t for _, t in _ra(nsum)]
        chk.require(bool(made) and all(_ic(t, "FrameData") and _ba(chk.terms, nsum, t, "frame_number") == _A(_S, counter)
                                       for t in made),
                    "R18.4", "frame-number-is-the-counter",
                    "the record's frame number is not this frame's own counter", nx.where)
    # one generator per frame of each logical file: decided by the shared rule of C09 R09.1
    # ("frame-data-built-per-logical-file-in-order", already part of R18.1 above)
    from ..terms import SELF, A, contains, return_alternatives, pp, subterms, is_call
    lf = ix.get_class("LogicalFile")
    for prop, setcls in (("defining_origin", "OriginSet"), ("channels", "ChannelSet"), ("frames", "FrameSet"),
                         ("origins", "OriginSet")):
        p = lf.lookup(prop)
        if p is None:
            raise AnalysisError(f"LogicalFile.{prop} not found")
        chk.consult(p)
        ps = chk.terms.inline(p, 3)
        vals = [t for _, t in return_alternatives(ps) if t != ("const", None)]
        ok = bool(vals) and all(contains(t, A(SELF, "_eflr_sets")) and contains(
            t, lambda x: x[0] == "global" and x[1].endswith(setcls)) and not contains(
            t, lambda x: x[0] == "attr" and x[2] == "physical_file") for t in vals)
        chk.require(ok, "R18.5", f"own-registry:{prop}", f"LogicalFile.{prop} is `{[pp(t)[:60] for t in vals]}`: not "
                    f"derived from the {setcls} sets of the logical file's own registry", p.where)
    gud = lf.lookup("_get_unique_dataset_name")
    gs = chk.terms.inline(gud, 3)
    chk.consult(gud)
    every = []
    for pc, t, _ in gs.returns + gs.raises:
        every.extend(pc)
        every.append(t)
    for e in gs.effects:
        every.extend(e.pc)
        every.extend(lp[2] for lp in e.loops() if isinstance(lp[2], tuple))

    def names_of_all_own_channels(x):
        # <each channel>.dataset_name with the channels taken from the own registry (ChannelSet) of the logical file
        if x[0] != "attr" or x[2] != "dataset_name":
            return False
        return contains(x[1], A(SELF, "_eflr_sets")) and contains(x[1], lambda y: y[0] == "global" and
                                                                  y[1].endswith("ChannelSet"))
    from ..terms import alternatives
    name_reads = [x for t in every for x in subterms(t) if x[0] == "attr" and x[2] == "dataset_name" and x[1][0] == "elem"]

    def own_channels(it):
        return contains(it, A(SELF, "_eflr_sets")) and contains(it, lambda y: y[0] == "global" and
                                                                 y[1].endswith("ChannelSet"))
    all_own = bool(name_reads) and all(own_channels(a) for x in name_reads for _, a in alternatives(x[1][1]))
    chk.require(all_own and any(contains(t, names_of_all_own_channels) for t in every), "R18.6",
                "dataset-names-unique-per-logical-file",
                "data set names are not compared with those of all channels of the logical file: channels of different "
                "frames / sets can share a data set name and overwrite each other's inline data", gud.where)
    from . import c11
    n0 = len(chk.obs)
    c11.r11_4_inline(chk)
    keep = [o for o in chk.obs[n0:] if "keyed-by-dataset-name" in o.key]
    for o in keep:
        o.rule, o.key = "R18.6", "inline-data-keyed-by-unique-name"
    chk.obs[n0:] = keep
