"""C18 - frames and logical files are isolated from one another.

R18.1 (BytesAI, shared with C09 R09.1) the generator emits, per logical file and in creation order, only what is reached
      through that logical file's own registry, record list and frame-data list.
R18.2 (effects) inside LogicalFile the storage-unit-wide registry is used for get_or_make_set only; iterating it or
      storing through objects reached from it (other logical files' objects) is a violation.
R18.3 (CFG, 21 sibling sites) every add_* passes the set obtained from the storage-unit-wide registry through the
      per-logical-file registration, which refuses - on every path - a set that already belongs to another logical file,
      and records the owner when it registers.
R18.4 (effects) one MultiFrameData per frame with its own counter (instance field reset when iteration starts); row counts
      come from each frame's own wrapper.
R18.5 defining_origin / channels / frames / origins derive from the logical file's own registry.
R18.6 data set names are unique across all channels of the logical file (not only within one channel set), so inline
      data of one frame cannot overwrite another's.
"""

from __future__ import annotations

import ast

from .. import AnalysisError
from ..cfg import CFG, ENTRY, EXIT, header_expr
from ..common import Model, norm, is_self_attr, kw
from ..effects import stores_in
from ..index import Scope, walk_local, walk_expr
from ..report import Check

LEVEL = "other"
EXPLANATION = ("Isolation is decided as a closed set of structural clauses: the interpreted record generator only "
               "reaches a logical file's own registry; the shared registry is used for set lookup only; the ownership "
               "guard sits on every path of set registration at all 21 add_* sites; per-frame counters and per-file "
               "dataset names. Not decided: decoded per-file inventories of real files (reader side).")


def run(chk):
    chk.guard(r18_1, chk)
    chk.guard(r18_2_shared_registry_use, chk)
    chk.guard(r18_3_ownership, chk)
    chk.guard(r18_4_5_6, chk)


def r18_1(chk):
    from . import c09
    tmp = Check("C09", "quick", 0, chk.ix, chk.cg, quiet=True)
    c09.r09_1_order(tmp)
    for o in tmp.obs:
        o.rule = "R18.1"
        chk.obs.append(o)
    chk.consulted_functions |= tmp.consulted_functions
    # no read of the storage-unit-wide registry inside the generator
    gen = chk.ix.get_method("DLISFile", "generator")
    uses = [n for n in walk_local(gen.node) if isinstance(n, ast.Attribute) and n.attr == "_eflr_sets"
            and isinstance(n.value, ast.Name) and n.value.id == "self"]
    chk.require(not uses, "R18.1", "generator-ignores-shared-registry",
                "the record generator reads the registry shared by all logical files", gen.where)


def r18_2_shared_registry_use(chk):
    ix = chk.ix
    lf = ix.get_class("LogicalFile")
    n_uses = 0
    for f in lf.methods.values():
        for n in walk_local(f.node):
            if isinstance(n, ast.Attribute) and n.attr == "_eflr_sets" and isinstance(n.value, ast.Attribute) \
                    and n.value.attr == "physical_file":
                n_uses += 1
                parent = None
                for p in walk_local(f.node):
                    if isinstance(p, ast.Attribute) and p.value is n:
                        parent = p
                ok = parent is not None and parent.attr == "get_or_make_set"
                chk.require(ok, "R18.2", f"shared-registry-use:{f.name}:{norm(parent) if parent is not None else 'bare'}"
                            [:90], f"{f.name} uses the storage-unit-wide registry for something other than "
                            f"get_or_make_set (`{norm(parent) if parent is not None else norm(n)}`): objects of other "
                            f"logical files become reachable", f"{f.module.relpath}:{n.lineno}", nontrivial=False)
            if isinstance(n, ast.Attribute) and n.attr == "logical_files" and isinstance(n.value, ast.Attribute) \
                    and n.value.attr == "physical_file":
                chk.fail("R18.2", f"other-logical-files-reached:{f.name}", f"{f.name} reaches the other logical files "
                         f"of the storage unit", f"{f.module.relpath}:{n.lineno}")
    chk.floor("uses of the shared registry in LogicalFile", n_uses, 21)


def r18_3_ownership(chk):
    ix = chk.ix
    model = Model(ix)
    reg = ix.get_class("EFLRSetsDict")
    eset = ix.get_class("EFLRSet")
    # owner field: the EFLRSet field assigned `self` inside the registry class
    owner_field = None
    for f in reg.methods.values():
        for s in stores_in(f):
            if isinstance(s.value, ast.Name) and s.value.id == "self" and s.kind == "assign" \
                    and isinstance(s.base, ast.Name) and s.base.id != "self":
                owner_field = s.attr
    chk.require(owner_field is not None, "R18.3", "owner-recorded",
                "registering a set in a logical file's registry does not record the owner: sharing cannot be detected",
                reg.where)
    if owner_field is None:
        return
    chk.info["owner_field"] = owner_field
    # functions that raise when the set's owner is another registry
    guards = []
    for f in reg.methods.values():
        g = CFG(f.node)
        for ifn, (te, fe) in g.branch.items():
            t = norm(g.stmt[ifn].test)
            if owner_field in t and "self" in t and any(g.kind[x] == "raise" for x in g.reachable(te, exceptional=False)
                                                      if x not in g.reachable(fe, exceptional=False)):
                guards.append((f, g, ifn, fe))
    chk.require(bool(guards), "R18.3", "ownership-guard-exists",
                "no function raises when a set already belongs to another logical file", reg.where)
    guard_funcs = set()
    for f, g, ifn, fe in guards:
        chk.consult(f)
        tst = g.stmt[ifn].test
        # the raising condition must be exactly "owned, and not by me": no extra conjunct can switch it off
        conj = tst.values if isinstance(tst, ast.BoolOp) and isinstance(tst.op, ast.And) else [tst]
        extra = [norm(c) for c in conj if owner_field not in norm(c)]
        chk.require(not extra, "R18.3", f"guard-unconditional:{f.short}",
                    f"the ownership test is weakened by an extra condition ({extra}): some foreign-owned sets are shared "
                    f"silently", f"{f.module.relpath}:{tst.lineno}")
        ok = g.must_pass_through({fe}, ENTRY, EXIT, exceptional=False)
        chk.require(ok, "R18.3", f"guard-on-every-path:{f.short}",
                    f"{f.short} can return normally without having tested the owner of the set (early return): a set of "
                    f"another logical file is accepted", f.where)
        guard_funcs.add(f)
    # registration entry points: the guard (direct or via call) dominates the store, and the owner is set afterwards
    n_entry = 0
    for name in ("try_add_set", "add_set"):
        f = reg.methods.get(name)
        if f is None:
            continue
        n_entry += 1
        chk.consult(f)
        g = CFG(f.node)
        sc = Scope(ix, f)
        gn = g.nodes_where(lambda s: any(isinstance(c, ast.Call) and any(t in guard_funcs for t in
                                                                          ix.resolve_call(c, sc)[0])
                                         for c in walk_expr(header_expr(s) or ast.Pass())))
        if f in guard_funcs:
            gn |= {ifn for gf, g2, ifn, fe in guards if gf is f}
        stores = g.nodes_where(lambda s: isinstance(s, ast.Assign) and any(isinstance(t, ast.Subscript)
                                                                             for t in s.targets))
        ok = bool(gn) and bool(stores) and all(g.dominated_by(sn, gn) for sn in stores) \
            and g.must_pass_through(gn, ENTRY, EXIT, exceptional=False)
        chk.require(ok, "R18.3", f"guard-dominates-registration:{name}",
                    f"{name} can register (or silently accept) a set without the ownership test", f.where)
        owner_set = g.nodes_where(lambda s: isinstance(s, ast.Assign) and any(isinstance(t, ast.Attribute)
                                  and t.attr == owner_field for t in s.targets))
        ok2 = bool(owner_set) and all(any(g.dominated_by(o_, {sn}) or g.dominated_by(sn, {o_}) for o_ in owner_set)
                                      for sn in stores)
        chk.require(ok2, "R18.3", f"owner-set-on-registration:{name}",
                    f"{name} registers a set without marking it as owned by this logical file", f.where)
    chk.floor("registration entry points", n_entry, 1)
    # sibling agreement over the add_* sites
    ams = model.add_methods()
    chk.floor("add_* methods", len(ams), 21)
    for f, ic, ctor in sorted(ams, key=lambda t: t[0].name):
        chk.consult(f)
        parent_kw = kw(ctor, "parent")
        pn = norm(parent_kw) if parent_kw is not None else ""
        g = CFG(f.node)
        cst = None
        for n, s in g.stmt.items():
            h = header_expr(s)
            if h is not None and any(x is ctor for x in ast.walk(h)):
                cst = n
        regs = g.nodes_where(lambda s: any(isinstance(c, ast.Call) and isinstance(c.func, ast.Attribute)
                                           and c.func.attr in ("try_add_set", "add_set")
                                           and norm(c.func.value) == "self._eflr_sets"
                                           for c in walk_expr(header_expr(s) or ast.Pass())))
        from_shared = "physical_file._eflr_sets.get_or_make_set" in norm(f.node)
        ok = cst is not None and bool(regs) and g.dominated_by(cst, regs)
        # the registered object is the one handed to the constructor (same variable or same lookup expression)
        reg_args = {norm(c.args[0]) for n in regs for c in walk_expr(header_expr(g.stmt[n]))
                    if isinstance(c, ast.Call) and isinstance(c.func, ast.Attribute)
                    and c.func.attr in ("try_add_set", "add_set") and c.args}
        same = pn in reg_args or any(_same_lookup(f, pn, ra) for ra in reg_args)
        chk.require(ok and same and from_shared or (not from_shared and "self._eflr_sets.get_or_make_set" in norm(f.node)),
                    "R18.3", f"site:{f.name}",
                    f"{f.name} hands a set from the shared registry to the item constructor without passing it through "
                    f"this logical file's (guarded) registration", f.where)


def _same_lookup(f, a_src, b_src) -> bool:
    """parent=<lookup expr> and try_add_set(<var>) where var = the same lookup expression."""
    defs = {}
    for n in walk_local(f.node):
        if isinstance(n, ast.Assign) and len(n.targets) == 1 and isinstance(n.targets[0], ast.Name):
            defs[n.targets[0].id] = norm(n.value)
    return defs.get(a_src, a_src) == defs.get(b_src, b_src)


def r18_4_5_6(chk):
    ix = chk.ix
    mfd = ix.get_class("MultiFrameData")
    it_ = mfd.lookup("__iter__")
    nx = mfd.lookup("__next__")
    chk.consult(it_, nx)
    counter = None
    for s in stores_in(nx):
        if s.kind == "aug" and isinstance(s.base, ast.Name) and s.base.id == "self":
            counter = s.attr
    chk.require(counter is not None, "R18.4", "frame-counter-is-instance-state",
                "the frame number is not an instance field of the per-frame generator", nx.where)
    if counter:
        reset = [s for s in stores_in(it_) if s.attr == counter and isinstance(s.value, ast.Constant)
                 and s.value.value == 0]
        cls_level = counter in mfd.class_assigns
        chk.require(bool(reset) and not cls_level, "R18.4", "frame-counter-reset-per-iteration",
                    "the frame number counter is shared / not reset when iteration starts: numbering would not start "
                    "from 1 for every frame and every write", it_.where)
        src = norm(nx.node)
        chk.require(f"frame_number=self.{counter}" in src.replace(" ", ""), "R18.4", "frame-number-is-the-counter",
                    "the record's frame number is not this frame's own counter", nx.where)
    glr = ix.get_method("DLISFile", "generate_logical_records")
    src = norm(glr.node)
    chk.require("logical_file._make_multi_frame_data(fr" in src.replace(" ", "").replace("(\n", "(") or
                "_make_multi_frame_data(fr" in src, "R18.4", "one-generator-per-frame",
                "frame data generators are not created one per frame of each logical file", glr.where)
    lf = ix.get_class("LogicalFile")
    for prop, setcls in (("defining_origin", "OriginSet"), ("channels", "ChannelSet"), ("frames", "FrameSet"),
                         ("origins", "OriginSet")):
        p = lf.lookup(prop)
        if p is None:
            raise AnalysisError(f"LogicalFile.{prop} not found")
        s = norm(p.node)
        ok = "self._eflr_sets.get_all_items_for_set_type" in s and setcls in s and "physical_file" not in s
        chk.require(ok, "R18.5", f"own-registry:{prop}", f"LogicalFile.{prop} is not derived from the logical file's "
                    f"own registry", p.where)
    gud = lf.lookup("_get_unique_dataset_name")
    chk.consult(gud)
    s = norm(gud.node)
    chk.require("for ch in self.channels" in s, "R18.6", "dataset-names-unique-per-logical-file",
                "data set names are not compared with those of all channels of the logical file: channels of different "
                "frames / sets can share a data set name and overwrite each other's inline data", gud.where)
    add = lf.lookup("add_channel")
    a = norm(add.node)
    chk.require("self._get_unique_dataset_name(" in a and "self._data_dict[ch.dataset_name] = data" in a, "R18.6",
                "inline-data-keyed-by-unique-name", "inline channel data are not stored under the unique data set name",
                add.where)
