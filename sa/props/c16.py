"""C16 - no-format payloads come back exactly, in order, under their object.

R16.1 (BytesAI) the NOFMT record body is exactly OBNAME(no-format object) || payload: two pieces in that order on every
      path, for payloads given as bytes, bytearray or str (strict ASCII encoding); nothing appended, sliced or replaced;
      the constructor stores the payload and the object unmodified and add_no_format_frame_data forwards both.
R16.2 (effects + CFG) the per-logical-file list of NOFMT records is append-only and is yielded in list order.
Sizes (empty, 1 byte, larger than a record) rest on C15 R15.2 (flagged padding) and C02 (lossless segmentation).
"""

from __future__ import annotations

import ast

from .. import AnalysisError
from ..absint import Interp, State, SeqV, IntV, ObjV, OpaqueV, BufV, Out
from ..linarith import LinExpr, ge, eq, entails
from ..common import norm, is_self_attr
from ..index import Scope, walk_local

LEVEL = "proof"
EXPLANATION = ("The body builder is interpreted abstractly for the three payload kinds with symbolic lengths: on every "
               "path the result is the object's OBNAME followed by the payload piece, of length len(OBNAME)+len(payload); "
               "write sets and yield order of the record list are enumerated exhaustively.")
TRUSTED = ["Python semantics of the modelled subset (bytes concatenation, str.encode('ascii') is length preserving "
           "or raises)", "sa/absint.py", "C02/C15 for segmentation and padding of the body"]

MUTATORS = {"insert", "pop", "remove", "clear", "sort", "reverse", "extend", "__setitem__", "__delitem__"}


def run(chk):
    ix, cg = chk.ix, chk.cg
    chk.trusted = TRUSTED
    nf = ix.get_class("NoFormatFrameData")
    body = nf.lookup("_make_body_bytes")
    init = nf.lookup("__init__")
    chk.consult(body, init)
    item_cls = ix.get_class("NoFormatItem")
    obname_prop = ix.get_class("EFLRItem").lookup("obname")
    if obname_prop is None:
        raise AnalysisError("EFLRItem.obname not found")

    kinds = {}
    for kind in ("bytes", "bytearray", "str"):
        it = Interp(ix)
        L_ob = LinExpr.sym("len_obname")
        L = LinExpr.sym("len_payload")

        phase = ["init"]

        def obname_summary(interp, args, kwargs, st, node, L_ob=L_ob, phase=phase):
            return interp.val(st, SeqV("bytes", L_ob, [("obname", L_ob, phase[0])]))
        it.summaries[obname_prop.qualname] = obname_summary
        st = State()
        st.add(ge(L_ob, 4))
        st.add(ge(L, 0))
        item = st.new_obj(item_cls, tag="no_format_object")
        if kind == "bytes":
            data = SeqV("bytes", L, [("param", L, "payload")])
        elif kind == "bytearray":
            data = st.new_buf(L, [("param", L, "payload")])
        else:
            data = SeqV("str", L, [("param", L, "payload")])
        obj = st.new_obj(nf, tag="record")
        outs = it.call_function(init, [obj, item, data], {}, st, init.node)
        inits = [o for o in outs if o.kind == "val"]
        if len(inits) != 1:
            raise AnalysisError(f"NoFormatFrameData.__init__: {len(inits)} normal paths")
        st = inits[0].st
        # constructor stores both arguments unmodified
        f = st.fields(obj)
        stored = [k for k, v in f.items() if v is data or (isinstance(v, BufV) and isinstance(data, BufV)
                                                           and v.oid == data.oid)]
        stored_item = [k for k, v in f.items() if isinstance(v, ObjV) and v.oid == item.oid]
        chk.require(len(stored) == 1 and len(stored_item) == 1, "R16.1", f"constructor-stores-verbatim:{kind}",
                    "the no-format record does not keep the payload and its object exactly as passed", init.where)
        phase[0] = "body"
        outs = it.call_function(body, [obj], {}, st, body.node)
        normal = [o for o in outs if o.kind == "val"]
        raises = [o for o in outs if o.kind == "raise"]
        chk.require(bool(normal), "R16.1", f"has-normal-path:{kind}", "body builder always raises", body.where)
        for k, o in enumerate(normal):
            v = o.value
            if isinstance(v, BufV):
                h = o.st.heap[v.oid]
                v = SeqV("bytes", h["length"], list(h["pieces"]))
            shape = isinstance(v, SeqV) and [p[0] for p in v.pieces] == ["obname", "param"] \
                and v.pieces[1][2] == "payload"
            chk.require(shape, "R16.1", f"body==obname+payload:{kind}:path{k}",
                        f"record body pieces are {[(p[0], p[2] if p[0] in ('param', 'const') else '') for p in v.pieces] if isinstance(v, SeqV) else v!r}; "
                        f"expected exactly [OBNAME, payload]", body.where,
                        witness=_w(o.st))
            if shape:
                chk.require(v.pieces[0][2] == "body", "R16.1", f"obname-read-when-written:{kind}:path{k}",
                            "the reference to the NO-FORMAT object is a copy taken when the record was created, not "
                            "the object's identity at the time of writing", body.where)
            if isinstance(v, SeqV):
                chk.require(entails(o.st.cons, eq(v.length, L_ob + L)), "R16.1", f"body-length:{kind}:path{k}",
                            f"record body length is {v.length!r}, not len(OBNAME)+len(payload)", body.where,
                            witness=_w(o.st))
        for o in raises:
            okr = kind == "str" and o.exc == "UnicodeEncodeError"
            chk.require(okr, "R16.1", f"only-non-ascii-text-raises:{kind}:{o.exc}",
                        f"body builder can raise {o.exc} at {o.where[0]} for a valid payload", o.where[0],
                        witness=_w(o.st))
        if kind == "str":
            enc = [e for o in outs for e in o.st.events if e[0] == "encode"]
            bad = [e for o in outs for e in o.st.events if e[0] == "encode-errors-arg"]
            chk.require(bool(enc) and all(e[2] == "ascii" for e in enc) and not bad, "R16.1", "text-strict-ascii",
                        "text payloads are not encoded with the strict ASCII codec", body.where)
        for q in it.consulted:
            chk.consulted_functions.add(q)

    # add_no_format_frame_data forwards (object, data) positionally / by name, unmodified
    lf = ix.get_class("LogicalFile")
    add = lf.lookup("add_no_format_frame_data")
    chk.consult(add)
    sc = Scope(ix, add)
    ctor = [n for n in walk_local(add.node) if isinstance(n, ast.Call) and ix.infer(n.func, sc) == ("cls", nf)]
    ok = len(ctor) == 1 and [norm(a) for a in ctor[0].args] + [f"{k.arg}={norm(k.value)}" for k in ctor[0].keywords] \
        in (["no_format_object", "data"], ["no_format_object=no_format_object", "data=data"],
            ["no_format_object", "data=data"])
    chk.require(ok, "R16.1", "api-forwards-verbatim", "add_no_format_frame_data alters its arguments before building "
                "the record", add.where)

    # every call appends exactly the record it built, unconditionally
    from ..cfg import CFG, ENTRY, EXIT
    g = CFG(add.node)
    app = g.nodes_where(lambda s_: any(isinstance(x, ast.Call) and isinstance(x.func, ast.Attribute)
                                       and x.func.attr == "append" and isinstance(x.func.value, ast.Attribute)
                                       for x in ast.walk(s_))
                        and not isinstance(s_, (ast.If, ast.For, ast.While, ast.Try, ast.With)))
    chk.require(bool(app) and g.must_pass_through(app, ENTRY, EXIT, exceptional=False), "R16.2",
                "every-payload-is-appended", "a path through add_no_format_frame_data returns without appending the "
                "new record (payloads can be dropped)", add.where)

    # ------------------------------------------------------------------ R16.2
    field = None
    for name in ix.instance_fields(lf):
        t = ix.field_type(lf, name)
        if t is not None and t[0] == "list" and t[1] == ("inst", nf):
            field = name
    if field is None:
        raise AnalysisError("LogicalFile field holding the list of no-format records not found")
    chk.info["record_list_field"] = field
    n_sites = 0
    for f in ix.functions.values():
        for n in walk_local(f.node):
            # stores
            tg = n.targets if isinstance(n, ast.Assign) else ([n.target] if isinstance(n, (ast.AugAssign, ast.AnnAssign))
                                                             else [])
            for t in tg:
                base = t.value if isinstance(t, ast.Subscript) else t
                if isinstance(base, ast.Attribute) and base.attr == field:
                    n_sites += 1
                    ok = f.cls is lf and f.name == "__init__" and not isinstance(t, ast.Subscript) \
                        and isinstance(getattr(n, "value", None), ast.List) and not n.value.elts
                    chk.require(ok, "R16.2", f"store:{f.short}", "the record list is replaced / edited outside its "
                                "initialisation", f"{f.module.relpath}:{n.lineno}", nontrivial=False)
            if isinstance(n, ast.Call) and isinstance(n.func, ast.Attribute) and isinstance(n.func.value, ast.Attribute) \
                    and n.func.value.attr == field:
                n_sites += 1
                if n.func.attr == "append":
                    chk.require(f is add, "R16.2", f"append:{f.short}", "records are appended outside "
                                "add_no_format_frame_data", f"{f.module.relpath}:{n.lineno}", nontrivial=False)
                elif n.func.attr in MUTATORS:
                    chk.fail("R16.2", f"mutator:{f.short}.{n.func.attr}", "the record list is reordered / edited",
                             f"{f.module.relpath}:{n.lineno}")
            if isinstance(n, ast.Delete):
                for t in n.targets:
                    if field in norm(t):
                        chk.fail("R16.2", f"delete:{f.short}", "records are deleted from the list",
                                 f"{f.module.relpath}:{n.lineno}")
    chk.floor("uses of the no-format record list", n_sites, 2)
    gen = ix.get_method("DLISFile", "generator")
    chk.consult(gen)
    ys = [n for n in walk_local(gen.node) if isinstance(n, (ast.YieldFrom, ast.Yield)) and n.value is not None
          and field in norm(n.value)]
    ok = len(ys) == 1 and isinstance(ys[0], ast.YieldFrom) and isinstance(ys[0].value, ast.Attribute) \
        and ys[0].value.attr == field
    chk.require(ok, "R16.2", "yielded-in-list-order",
                f"the generator does not yield the record list as it is ({[norm(y) for y in ys]})", gen.where)
    run_padding_part(chk)


def run_padding_part(chk):
    """R16.3: payloads of every size survive because short / odd bodies get *flagged* padding whose last byte is the
    pad count (the obligations of C01 R01.5 b/c/d on the segment builder, for all body lengths)."""
    from ..segmodel import SegmentModel
    from . import c01
    m = SegmentModel(chk.ix, chk.cg)
    if m.error is not None and not chk.violations():
        raise m.error
    n0 = len(chk.obs)
    c01.r01_5_segments(chk, m)
    keep = []
    for o in chk.obs[n0:]:
        if o.key.startswith(("b-size>=16", "d-pad", "c-size==len")):
            o.rule = "R16.3"
            keep.append(o)
    chk.obs[n0:] = keep


def _w(st):
    from ..segmodel import SegmentModel
    return SegmentModel.witness(st.cons)
