"""C16 - no-format payloads come back exactly, in order, under their object.

R16.1 (BytesAI) the NOFMT record body is exactly OBNAME(no-format object) || payload: two pieces in that order on every
      path, for payloads given as bytes, bytearray or str (strict ASCII encoding); nothing appended, sliced or replaced;
      the constructor stores the payload and the object unmodified and add_no_format_frame_data forwards both.
R16.2 (terms + CFG) add_no_format_frame_data builds exactly one record from its two arguments as they are and appends
      that very record - on every normal path, exactly once - to one plain list field of the logical file (a keyed /
      grouped container would change the order); that field is only ever initialised empty and appended to there;
      the record generator yields the field as it is.
Sizes (empty, 1 byte, larger than a record) rest on C15 R15.2 (flagged padding) and C02 (lossless segmentation).
R16.4 (shared, = C02 R02.1/2/4/5 + C10 R10.1-3) the transport below the records: segments partition each body in order with
      correct bracketing and padding, the output buffer and the byte writer hand on exactly those bytes.
"""

from __future__ import annotations

import ast

from .. import AnalysisError
from ..absint import Interp, State, SeqV, IntV, ObjV, OpaqueV, BufV, Out
from ..linarith import LinExpr, ge, eq, entails
from ..common import norm, is_self_attr
from ..index import Scope, walk_local

LEVEL = "proof"
EXPLANATION = ("The body builder is interpreted abstractly for the three payload kinds with symbolic lengths: on every "
               "path the result is the object's OBNAME followed by the payload piece, of length len(OBNAME)+len(payload); "
               "write sets and yield order of the record list are enumerated exhaustively.")
TRUSTED = ["Python semantics of the modelled subset (bytes concatenation, str.encode('ascii') is length preserving "
           "or raises)", "sa/absint.py", "C02/C15 for segmentation and padding of the body"]

MUTATORS = {"insert", "pop", "remove", "clear", "sort", "reverse", "extend", "__setitem__", "__delitem__"}


def run(chk):
    ix, cg = chk.ix, chk.cg
    chk.trusted = TRUSTED
    nf = ix.get_class("NoFormatFrameData")
    body = nf.lookup("_make_body_bytes")
    init = nf.lookup("__init__")
    chk.consult(body, init)
    item_cls = ix.get_class("NoFormatItem")
    obname_prop = ix.get_class("EFLRItem").lookup("obname")
    if obname_prop is None:
        raise AnalysisError("EFLRItem.obname not found")

    kinds = {}
    for kind in ("bytes", "bytearray", "str"):
        it = Interp(ix)
        L_ob = LinExpr.sym("len_obname")
        L = LinExpr.sym("len_payload")

        phase = ["init"]

        def obname_summary(interp, args, kwargs, st, node, L_ob=L_ob, phase=phase):
            return interp.val(st, SeqV("bytes", L_ob, [("obname", L_ob, phase[0])]))
        it.summaries[obname_prop.qualname] = obname_summary
        st = State()
        st.add(ge(L_ob, 4))
        st.add(ge(L, 0))
        item = st.new_obj(item_cls, tag="no_format_object")
        if kind == "bytes":
            data = SeqV("bytes", L, [("param", L, "payload")])
        elif kind == "bytearray":
            data = st.new_buf(L, [("param", L, "payload")])
        else:
            data = SeqV("str", L, [("param", L, "payload")])
        obj = st.new_obj(nf, tag="record")
        outs = it.call_function(init, [obj, item, data], {}, st, init.node)
        inits = [o for o in outs if o.kind == "val"]
        if len(inits) != 1:
            raise AnalysisError(f"NoFormatFrameData.__init__: {len(inits)} normal paths")
        st = inits[0].st
        # constructor stores both arguments unmodified
        f = st.fields(obj)
        stored = [k for k, v in f.items() if v is data or (isinstance(v, BufV) and isinstance(data, BufV)
                                                           and v.oid == data.oid)]
        stored_item = [k for k, v in f.items() if isinstance(v, ObjV) and v.oid == item.oid]
        chk.require(len(stored) == 1 and len(stored_item) == 1, "R16.1", f"constructor-stores-verbatim:{kind}",
                    "the no-format record does not keep the payload and its object exactly as passed", init.where)
        phase[0] = "body"
        outs = it.call_function(body, [obj], {}, st, body.node)
        normal = [o for o in outs if o.kind == "val"]
        raises = [o for o in outs if o.kind == "raise"]
        chk.require(bool(normal), "R16.1", f"has-normal-path:{kind}", "body builder always raises", body.where)
        for k, o in enumerate(normal):
            v = o.value
            if isinstance(v, BufV):
                h = o.st.heap[v.oid]
                v = SeqV("bytes", h["length"], list(h["pieces"]))
            shape = isinstance(v, SeqV) and [p[0] for p in v.pieces] == ["obname", "param"] \
                and v.pieces[1][2] == "payload"
            chk.require(shape, "R16.1", f"body==obname+payload:{kind}:path{k}",
                        f"record body pieces are {[(p[0], p[2] if p[0] in ('param', 'const') else '') for p in v.pieces] if isinstance(v, SeqV) else v!r}; "
                        f"expected exactly [OBNAME, payload]", body.where,
                        witness=_w(o.st))
            if shape:
                chk.require(v.pieces[0][2] == "body", "R16.1", f"obname-read-when-written:{kind}:path{k}",
                            "the reference to the NO-FORMAT object is a copy taken when the record was created, not "
                            "the object's identity at the time of writing", body.where)
            if isinstance(v, SeqV):
                chk.require(entails(o.st.cons, eq(v.length, L_ob + L)), "R16.1", f"body-length:{kind}:path{k}",
                            f"record body length is {v.length!r}, not len(OBNAME)+len(payload)", body.where,
                            witness=_w(o.st))
        # second write of the same record: between two writes the payload may have been replaced (bytes / str:
        # `record.data = ...`) or edited in place (bytearray) and the NO-FORMAT object renamed; the body must be
        # built again from what the record holds *now* (a body kept from the first write is a stale payload)
        if len(stored) == 1:
            L2 = LinExpr.sym("len_payload_2")
            for k, o in enumerate(normal):
                st2 = o.st.clone()
                st2.add(ge(L2, 0))
                if kind == "bytearray":
                    h = st2.heap[data.oid]
                    h["length"], h["pieces"] = L2, [("param", L2, "payload2")]
                else:
                    st2.fields(obj)[stored[0]] = SeqV("bytes" if kind == "bytes" else "str", L2,
                                                      [("param", L2, "payload2")])
                phase[0] = "body2"
                outs2 = it.call_function(body, [obj], {}, st2, body.node)
                phase[0] = "body"
                for k2, o2 in enumerate(x for x in outs2 if x.kind == "val"):
                    v2 = o2.value
                    if isinstance(v2, BufV):
                        h2 = o2.st.heap[v2.oid]
                        v2 = SeqV("bytes", h2["length"], list(h2["pieces"]))
                    fresh = isinstance(v2, SeqV) and [(p[0], p[2]) for p in v2.pieces] == [("obname", "body2"),
                                                                                          ("param", "payload2")]
                    chk.require(fresh, "R16.1", f"second-write-rebuilds-body:{kind}:path{k}.{k2}",
                                f"on a second write the record body pieces are "
                                f"{[(p[0], p[2]) for p in v2.pieces] if isinstance(v2, SeqV) else v2!r}; expected the "
                                f"reference and the payload as they are at that time (a body kept from an earlier "
                                f"write goes stale when the payload is edited in place or replaced)", body.where)
        for o in raises:
            okr = kind == "str" and o.exc == "UnicodeEncodeError"
            chk.require(okr, "R16.1", f"only-non-ascii-text-raises:{kind}:{o.exc}",
                        f"body builder can raise {o.exc} at {o.where[0]} for a valid payload", o.where[0],
                        witness=_w(o.st))
        if kind == "str":
            enc = [e for o in outs for e in o.st.events if e[0] == "encode"]
            bad = [e for o in outs for e in o.st.events if e[0] == "encode-errors-arg"]
            chk.require(bool(enc) and all(e[2] == "ascii" for e in enc) and not bad, "R16.1", "text-strict-ascii",
                        "text payloads are not encoded with the strict ASCII codec", body.where)
        for q in it.consulted:
            chk.consulted_functions.add(q)

    run_record_list_part(chk, nf)
    run_padding_part(chk)
    from ._layout import transport_integrity
    chk.guard(transport_integrity, chk, "R16.4")


def run_record_list_part(chk, nf):
    """R16.1 (forwarding) and R16.2 over the value-flow summaries: the API builds one record from its two arguments as
    they are and appends that very record to one plain list owned by the logical file; nothing else writes that list;
    the record generator yields the list as it is."""
    from ..terms import (SELF, subterms, pp, neg, raise_conditions, call_recv, call_name, is_call, attr_stores,
                         literals, passed_refusal)
    ix, te = chk.ix, chk.terms
    lf = ix.get_class("LogicalFile")
    add = lf.lookup("add_no_format_frame_data")
    chk.consult(add)
    s = te.inline(add, 3)
    params = [p for p in add.param_names[1:]]

    own_init = "__init__" in nf.methods

    def is_record_ctor(c):
        if c[0] != "call" or c[1][0] == "attr" or c not in s.precise:
            return False
        tg = s.calls.get(c, ())
        if own_init:
            return any(f.name == "__init__" and f.cls is nf for f in tg)
        return call_name(c) == nf.name
    seen = []
    for e in s.effects:
        for t in (e.base, e.value):
            if isinstance(t, tuple):
                for x in subterms(t):
                    if is_record_ctor(x) and x not in seen:
                        seen.append(x)
    for _, t, _n in s.returns:
        for x in subterms(t):
            if is_record_ctor(x) and x not in seen:
                seen.append(x)
    chk.require(len(seen) == 1, "R16.1", "api-builds-one-record",
                f"add_no_format_frame_data builds {len(seen)} records per call ({[pp(x)[:60] for x in seen]})", add.where)
    if len(seen) != 1:
        return
    rec = seen[0]
    init = nf.lookup("__init__")
    amap = te._bind_args(init, rec) or {}
    want = {p: ("param", q) for p, q in zip(init.param_names[1:], params)}
    got = {p: amap.get(p) for p in want}
    chk.require(len(params) == 2 and got == want, "R16.1", "api-forwards-verbatim",
                f"add_no_format_frame_data alters its arguments before building the record "
                f"({ {k: pp(v) if v else None for k, v in got.items()} })", add.where)

    # the path on which nothing is refused: every literal is the negation of a refusal condition
    refusal = set()
    for pc, _t in raise_conditions(s):
        for c in pc:
            refusal.update(literals(c))
    def only_after_refusals(pc):
        return all(passed_refusal(c, refusal) for c in pc)
    appends = [e for e in s.effects if e.kind == "call" and is_call(e.value, "append", 1) and e.value[2][0] == rec]
    others = [e for e in s.effects if e.kind == "call" and e.value[1][0] == "attr" and rec in e.value[2]
              and e not in appends]
    ok = len(appends) == 1 and not appends[0].ctx and only_after_refusals(appends[0].pc)
    chk.require(ok, "R16.2", "every-payload-is-appended",
                "a path through add_no_format_frame_data returns without appending the new record exactly once "
                f"(append effects: {[(pp(e.value)[:60], [pp(c) for c in e.pc], [c[0] for c in e.ctx]) for e in appends + others]})",
                add.where)
    if len(appends) != 1:
        return
    # ... and no normal exit of the API avoids it (an early return inside a loop is invisible in the append's own path
    # condition): in the API's flow graph every entry-to-return path passes the statement that performs the append
    from ..cfg import CFG, ENTRY, EXIT
    ap = appends[0]
    g = CFG(add.node)

    def leads_to_append(stmt):
        if isinstance(stmt, (ast.If, ast.For, ast.While, ast.Try, ast.With)):
            return False
        for x in ast.walk(stmt):
            if x is ap.node:
                return True
            if isinstance(x, ast.Call) and ap.func is not add:
                tg = te.site_targets(add, x)
                if any(t is ap.func or ap.func in chk.cg.reachable([t]) for t in tg):
                    return True
        return False
    app = g.nodes_where(leads_to_append)
    chk.require(bool(app) and g.must_pass_through(app, ENTRY, EXIT, exceptional=False), "R16.2",
                "no-exit-avoids-the-append", "a path through add_no_format_frame_data returns without appending the "
                "new record (payloads can be dropped)", add.where)
    target = call_recv(appends[0].value)
    plain = target[0] == "attr" and target[1] == SELF
    chk.require(plain, "R16.2", "records-kept-in-one-list",
                f"the new record is appended to `{pp(target)}`, not to one list of the logical file holding all records "
                "in call order (grouping records by object / key changes the order they are written in)", add.where)
    if not plain:
        return
    field = target[2]
    chk.info["record_list_field"] = field
    # the field is initialised with an empty list in LogicalFile.__init__ and never stored again
    n_sites = 0
    for f in ix.functions.values():
        if f.module.name.split(".")[-1].startswith("test"):
            continue
        summ = te.summary(f)
        for obj, key, val, e in attr_stores(summ):
            if key != ("const", field):
                continue
            if obj == SELF and (f.cls is None or (lf not in f.cls.mro() and f.cls not in lf.mro())):
                continue      # another class's own field of the same name
            n_sites += 1
            ok = f.cls is lf and f.name == "__init__" and obj == SELF and val in (("list", ()), ) and not e.pc
            chk.require(ok, "R16.2", f"store:{f.short}", f"the record list is replaced / edited outside its "
                        f"initialisation (`{pp(val)[:60]}`)", e.where, nontrivial=False)
        for e in summ.effects:
            vals = [e.value] if e.kind == "call" else []
            if e.kind in ("store_sub", "del") and isinstance(e.base if e.kind == "store_sub" else e.value, tuple):
                b = e.base if e.kind == "store_sub" else e.value
                if any(x[0] == "attr" and x[2] == field for x in subterms(b)):
                    n_sites += 1
                    chk.fail("R16.2", f"edit:{f.short}", f"records are replaced in / deleted from the list", e.where)
            for v in vals:
                for x in subterms(v):
                    if x[0] == "call" and x[1][0] == "attr" and x[1][1][0] == "attr" and x[1][1][2] == field:
                        n_sites += 1
                        m = x[1][2]
                        if m == "append":
                            chk.require(f is add, "R16.2", f"append:{f.short}", "records are appended outside "
                                        "add_no_format_frame_data", e.where, nontrivial=False)
                        elif m in MUTATORS:
                            chk.fail("R16.2", f"mutator:{f.short}.{m}", "the record list is reordered / edited", e.where)
    chk.floor("uses of the no-format record list", n_sites, 2)
    gen = ix.get_method("DLISFile", "generator")
    chk.consult(gen)
    gs = te.inline(gen, 2)
    hits = []
    for ypc, yt, yn, yctx in gs.yields:
        src = None
        if yt[0] == "star":
            src = yt[1]
        elif yt[0] == "elem" and yctx and yctx[-1][0] == "for" and yctx[-1][1] == yt[2]:
            src = yt[1]
        whole = yt[1] if yt[0] == "star" else yt
        if any(x[0] == "attr" and x[2] == field for x in subterms(whole)) or \
                any(c[0] == "for" and isinstance(c[2], tuple) and
                    any(x[0] == "attr" and x[2] == field for x in subterms(c[2])) for c in yctx):
            hits.append((src, ypc, yctx, yt))
    ok = len(hits) == 1 and hits[0][0] is not None and hits[0][0][0] == "attr" and hits[0][0][2] == field \
        and not hits[0][1]
    chk.require(ok, "R16.2", "yielded-in-list-order",
                f"the generator does not yield the record list as it is "
                f"({[(pp(h[3][1] if h[3][0] == 'star' else h[3])[:70], [pp(c) for c in h[1]]) for h in hits]})", gen.where)


def run_padding_part(chk):
    """R16.3: payloads of every size survive because short / odd bodies get *flagged* padding whose last byte is the
    pad count (the obligations of C01 R01.5 b/c/d on the segment builder, for all body lengths)."""
    from ..segmodel import SegmentModel
    from . import c01
    from ..segmodel import shared_model
    m = shared_model(chk.ix, chk.cg)
    if m.error is not None and not chk.violations():
        raise m.error
    n0 = len(chk.obs)
    c01.r01_5_segments(chk, m)
    keep = []
    for o in chk.obs[n0:]:
        if o.key.startswith(("b-size>=16", "d-pad", "c-size==len")):
            o.rule = "R16.3"
            keep.append(o)
    chk.obs[n0:] = keep


def _w(st):
    from ..segmodel import SegmentModel
    return SegmentModel.witness(st.cons)
