"""C10 - chunk sizes are invisible; the file on disk only ever grows by whole records.

R10.1 (BytesAI) output buffer, for all buffer sizes B >= vrl and all record lengths 1 <= l <= vrl: 0 <= filled <= B is
      preserved; the slice store has exactly len(record) bytes and stays inside the buffer (the bytearray never
      resizes, nothing is cut); a flush writes exactly buf[:filled] and resets filled to 0; whatever was buffered is
      flushed *before* the new record is copied (FIFO), so concatenating the flushes reproduces the add_bytes arguments.
R10.2 flushes happen only between whole add_bytes arguments, and each argument is one whole visible record - header and
      segment together (= C01 R01.7 on the interpreted record loop).
R10.3 (BytesAI typestate) first physical write truncates ('wb'), later ones append ('ab'); the byte counter adds the
      number of bytes actually written.
R10.4 (BytesAI) the output chunk validator accepts exactly the integral numbers >= the record length; None => default.
R10.5 (BytesAI tiling) input chunks for all n >= 1 rows and chunk sizes c >= 1: the (start, stop) pairs tile [0, n) in
      order, are inside the window-relative range and map to source rows from_idx+start .. from_idx+stop.
R10.6 the two chunk parameters flow only into the chunk generator / the buffer size: def-use in write(), and a package-wide,
      key-sensitive forwarding closure of input_chunk_size over the value-flow summaries (through keyword mappings and
      instance fields): outside the chunk generator the value is only handed on, stored, validated or logged.
"""

from __future__ import annotations

import ast

from .. import AnalysisError
from ..absint import (Interp, State, SeqV, IntV, BoolV, ObjV, OpaqueV, BufV, NoneV, NONE, TupleV, SliceObjV, Out,
                      FALSE, TRUE)
from ..linarith import LinExpr, le, lt, ge, gt, eq, entails, infeasible_cached
from ..common import norm, is_self_attr, kw
from ..index import Scope, walk_local
from ..segmodel import SegmentModel

LEVEL = "proof"
EXPLANATION = ("Buffer arithmetic, file-mode typestate, chunk-size validation and input-chunk tiling are discharged "
               "for all buffer sizes, record lengths, row counts and chunk sizes at once by the abstract interpreter "
               "(linear constraints over symbolic sizes; the products i*c, q*c of the tiling are handled as monomials "
               "with monotonicity lemmas); the flow of the two chunk parameters is enumerated by def-use and by a package-wide forwarding closure. Not decided: "
               "the operating system's behaviour on a partial write.")
TRUSTED = ["Python semantics of the modelled subset (bytearray slice assignment resizes unless lengths agree; "
           "divmod; open modes 'wb' truncates / 'ab' appends)", "sa/absint.py, sa/linarith.py"]


def W(st, extra=()):
    return SegmentModel.witness(st.cons if hasattr(st, "cons") else st, extra)


def run(chk):
    ix, cg = chk.ix, chk.cg
    chk.trusted = TRUSTED
    chk.guard(r10_1_buffer, chk)
    chk.guard(r10_2_whole_records, chk)
    chk.guard(r10_3_byte_writer, chk)
    chk.guard(r10_4_chunk_validator, chk)
    chk.guard(r10_5_tiling, chk)
    chk.guard(r10_6_param_flow, chk)
    chk.guard(r10_6_chunk_size_only_forwarded, chk)


def r10_2_whole_records(chk):
    """Each thing handed to the output buffer is one whole visible record (header and segment together): a flush can
    then only fall between records.  = C01 R01.7 on the interpreted record loop."""
    from . import c01
    from ..segmodel import shared_model
    m = shared_model(chk.ix, chk.cg)
    if m.error is not None:
        raise m.error
    n0 = len(chk.obs)
    c01.r01_7_visible_record(chk, m)
    for o in chk.obs[n0:]:
        o.rule = "R10.2"
        o.nontrivial = False


def r10_6_chunk_size_only_forwarded(chk):
    """Package-wide forwarding closure of write()'s input_chunk_size: every function parameter (and instance field) the
    value is handed to - also inside a keyword mapping (`**kwargs`, `dict(chunk_size=...)`), tracked per key.  Outside
    the chunk generator (and what only it calls) the value may only be handed on, stored in a field, validated (by a
    function that does nothing but refuse) or logged; any other use - a condition, arithmetic, a slice, an argument of
    something that is not resolved - lets the chunk size influence what is written."""
    from ..terms import subterms, pp, call_name, refusal_literals, passed_refusal
    ix, te, cg = chk.ix, chk.terms, chk.cg
    write = ix.get_method("DLISFile", "write")
    consumer = ix.get_method("SourceDataWrapper", "make_chunked_generator")
    if write is None or consumer is None or "input_chunk_size" not in write.param_names:
        raise AnalysisError("DLISFile.write(input_chunk_size) / SourceDataWrapper.make_chunked_generator not found")
    consumer_side = set(cg.reachable([consumer]))
    # a root is ("param", p)  |  ("attr", self, field)  |  ("dictkey", p, key): the value sits under `key` in mapping p
    work = [(write, ("param", "input_chunk_size"))]
    seen = set()
    reached_consumer = False

    def validator(g):
        su = te.summary(g)
        return all(e.kind in ("raise", "call") and (e.kind == "raise" or call_name(e.value) in
                                                    ("debug", "info", "warning")) for e in su.effects) and \
            all(t == ("const", None) for _, t, _ in su.returns)

    def spellings(name):
        return (("param", name), ("free", name), ("param", "**" + name), ("param", "*" + name))

    def forward_into(g, c, roots, key):
        """Where the tainted value lands in callee g of call term c: [(g, root)].  `key` is None for a plain value, or
        the key under which it sits in a mapping named by `roots`."""
        out = []
        a = g.node.args
        named = [x.arg for x in a.posonlyargs + a.args + a.kwonlyargs]
        pos = [x.arg for x in a.posonlyargs + a.args]
        if g.parent is None and g.cls is not None and g.kind != "staticmethod" and pos:
            pos = pos[1:]
        kwname = a.kwarg.arg if a.kwarg else None

        def land(pname, sub_key):
            out.append((g, ("param", pname) if sub_key is None else ("dictkey", pname, sub_key)))
        for i_, v in enumerate(c[2]):
            if i_ < len(pos) and v in roots:
                land(pos[i_], key)
            elif i_ < len(pos) and v[0] == "dict" and key is None:
                for dk, dv in v[1]:
                    if dv in roots and dk[0] == "const":
                        land(pos[i_], dk[1])
        for kname, v in c[3]:
            if kname is None:
                inner = v[1] if v[0] == "dstar" else v
                if inner in roots and key is not None:
                    # **mapping: the entry goes to the parameter of that name, or on into the callee's own **mapping
                    if key in named:
                        land(key, None)
                    elif kwname:
                        land(kwname, key)
                elif inner[0] == "dict" and key is None:
                    for dk, dv in inner[1]:
                        if dv in roots and dk[0] == "const":
                            if dk[1] in named:
                                land(dk[1], None)
                            elif kwname:
                                land(kwname, dk[1])
            elif v in roots:
                if kname in named:
                    land(kname, key)
                elif kwname and key is None:
                    land(kwname, kname)
            elif v[0] == "dict" and key is None and kname in named:
                for dk, dv in v[1]:
                    if dv in roots and dk[0] == "const":
                        land(kname, dk[1])
        return out
    while work:
        f, root = work.pop()
        if (f, root) in seen:
            continue
        seen.add((f, root))
        if f in consumer_side:
            reached_consumer = reached_consumer or f is consumer
            continue
        for fn in [f] + [h for h in f.nested.values() if hasattr(h, "node")]:
            su = te.summary(fn)
            if root[0] == "param":
                roots, key = spellings(root[1]), None
            elif root[0] == "dictkey":
                roots, key = spellings(root[1]), root[2]
            else:
                roots, key = (root,), None

            def mentions(t, roots=roots):
                return isinstance(t, tuple) and any(x in roots for x in subterms(t))
            handled, quiet = set(), set()     # calls that pass the value on / validate or log it
            for c in su.all_calls():
                args = list(c[2]) + [v for _, v in c[3]]
                if not any(mentions(a_) for a_ in args):
                    continue
                nm = call_name(c)
                if nm in ("debug", "info", "warning", "error") and c[1][0] == "attr":
                    handled.add(c)
                    quiet.add(c)
                    continue
                if nm == "partial" and c[2]:
                    tgt = c[2][0]
                    g2 = fn.cls.lookup(tgt[2]) if tgt[0] == "attr" and tgt[1] in spellings("self") and fn.cls else None
                    if g2 is not None:
                        rest = ("call", tgt, c[2][1:], c[3])
                        landed = forward_into(g2, rest, roots, key)
                        if landed:
                            work.extend(landed)
                            handled.add(c)
                            continue
                tg = su.calls.get(c, ()) if c in su.precise else ()
                if len(tg) == 1 and validator(tg[0]):
                    handled.add(c)
                    quiet.add(c)
                    continue
                if len(tg) == 1:
                    landed = forward_into(tg[0], c, roots, key)
                    if landed:
                        work.extend(landed)
                        handled.add(c)
                        continue
                if c[1] == ("global", "dict") or nm in ("items", "keys", "values", "copy") and key is not None:
                    continue
            if key is None:
                for e in su.effects:
                    if e.kind == "store_attr" and e.value in roots and e.base in spellings("self")[:1] and fn.cls is not None:
                        for g in ix.functions.values():
                            if g.cls is not None and (g.cls is fn.cls or fn.cls in g.cls.mro()) and g is not fn and \
                                    any(x == ("attr", ("param", "self"), e.key) for t_ in _terms_of(te.summary(g))
                                        for x in subterms(t_)):
                                work.append((g, ("attr", ("param", "self"), e.key)))
            refusal = refusal_literals(su)
            for where_, t in _labelled_terms(su):
                if not mentions(t):
                    continue
                if isinstance(where_, tuple):
                    if where_[1] in quiet:
                        continue          # the condition under which a validation / log call is made
                    where_ = "condition"
                if where_ == "condition" and (t in refusal or passed_refusal(t, refusal)):
                    continue
                if where_ == "raise":
                    continue              # the message of a refusal
                if where_ == "store" and t in roots:
                    continue
                t2 = t
                for c in handled:
                    t2 = _strip(t2, c)
                if key is not None:
                    # of a mapping only the tainted entry counts: m['key'] / m.get('key') / m.pop('key')
                    hit = [x for x in subterms(t2) if
                           (x[0] == "sub" and x[1] in roots and x[2] == ("const", key)) or
                           (x[0] == "call" and x[1][0] == "attr" and x[1][1] in roots and x[1][2] in ("get", "pop")
                            and x[2] and x[2][0] == ("const", key))]
                    if not hit:
                        continue
                if mentions(t2):
                    chk.fail("R10.6", f"chunk-size-used:{fn.short}:{where_}",
                             f"{fn.short} uses the input chunk size in `{pp(t2)[:70]}` ({where_}): outside the chunk "
                             f"generator it may only be handed on, so that it cannot influence what is written",
                             fn.where)
    chk.require(reached_consumer, "R10.6", "chunk-size-reaches-the-chunk-generator",
                "the input chunk size given to write() never reaches SourceDataWrapper.make_chunked_generator", write.where)
    chk.info["chunk_size_forwarding_closure"] = sorted({f"{f.short}:{r[1] if r[0] != 'attr' else 'self.' + r[2]}"
                                                        + (f"[{r[2]!r}]" if r[0] == "dictkey" else "") for f, r in seen})
    chk.floor("functions in the chunk-size forwarding closure", len({f for f, _ in seen}), 4)


def _terms_of(su):
    for _, t in _labelled_terms(su):
        yield t


def _labelled_terms(su):
    for pc, t, _ in su.returns:
        yield "return", t
        for c in pc:
            yield "condition", c
    for pc, t, _ in su.raises:
        for c in pc:
            yield "condition", c
    for pc, t, _n, _ctx in su.yields:
        yield "yield", t
    for e in su.effects:
        for c in e.pc:
            yield ("condition-of-call", e.value) if e.kind == "call" else "condition", c
        for lp in e.loops():
            if isinstance(lp[2], tuple):
                yield "loop", lp[2]
        if e.kind in ("store_attr", "store_sub"):
            yield "store", e.value
            if isinstance(e.key, tuple):
                yield "index", e.key
        elif e.kind in ("call", "raise"):
            yield e.kind, e.value


def _strip(t, c):
    """t with every occurrence of call term c replaced by a placeholder."""
    from ..terms import rebuild
    return rebuild(t, lambda x: ("const", "<forwarded>") if x == c else x) if isinstance(t, tuple) else t


# ---------------------------------------------------------------------------------------------------- R10.1 / R10.2
def _buffer_state(ix, it):
    st = State()
    B, filled, ell, vrl, tot = (LinExpr.sym(n) for n in ("B", "filled", "len_record", "vrl", "total"))
    for c in (ge(vrl, 20), le(vrl, 16384), ge(B, vrl), ge(filled, 0), le(filled, B), ge(ell, 1), le(ell, vrl),
              ge(tot, 0)):
        st.add(c)
    bo = ix.get_class("BufferedOutput")
    bw = ix.get_class("ByteWriter")
    writer = st.new_obj(bw, tag="byte_writer")
    init_w = bw.lookup("__init__")
    outs = [o for o in it.call_function(init_w, [writer, OpaqueV("filename")], {}, st, init_w.node) if o.kind == "val"]
    st = outs[0].st
    wf = st.fields(writer)
    append_field = [k for k, v in wf.items() if isinstance(v, BoolV)]
    total_field = [k for k, v in wf.items() if isinstance(v, IntV)]
    if len(total_field) != 1:
        raise AnalysisError("ByteWriter byte counter field not identified")
    append_field = append_field or [None]
    wf[total_field[0]] = IntV(tot)
    buf = st.new_obj(bo, tag="buffer")
    init_b = bo.lookup("__init__")
    outs = [o for o in it.call_function(init_b, [buf, IntV(B), writer], {}, st, init_b.node) if o.kind == "val"]
    if len(outs) != 1:
        raise AnalysisError("BufferedOutput.__init__: expected one path")
    st = outs[0].st
    bf = st.fields(buf)
    names = {}
    for k, v in bf.items():
        if isinstance(v, BufV):
            names["buf"] = k
        elif isinstance(v, IntV) and v.e.is_const() and v.e.const == 0:
            names["filled"] = k
        elif isinstance(v, IntV):
            names["size"] = k
    if set(names) != {"buf", "filled", "size"}:
        raise AnalysisError(f"BufferedOutput fields not identified: {names}")
    bf[names["filled"]] = IntV(filled)
    st.heap[bf[names["buf"]].oid]["pieces"] = [("buffered", filled, None), ("free", B - filled, None)]
    return st, buf, writer, names, dict(B=B, filled=filled, ell=ell, vrl=vrl, tot=tot, append=append_field[0],
                                        total=total_field[0])


def r10_1_buffer(chk):
    ix = chk.ix
    it = Interp(ix)
    bo = ix.get_class("BufferedOutput")
    add = bo.lookup("add_bytes")
    flush = bo.lookup("pass_bytes_to_writer")
    chk.consult(add, flush)
    st, buf, writer, names, sy = _buffer_state(ix, it)
    B, filled, ell = sy["B"], sy["filled"], sy["ell"]
    rec = SeqV("bytes", ell, [("record", ell, "vr")])
    outs = it.call_function(add, [buf, rec], {}, st, add.node)
    normal = [o for o in outs if o.kind == "val"]
    chk.require(bool(normal), "R10.1", "add_bytes-has-normal-path", "add_bytes always raises", add.where)
    for o in outs:
        if o.kind == "raise":
            chk.fail("R10.1", f"add_bytes-raises:{o.exc}", f"add_bytes can raise {o.exc} for a whole visible record",
                     o.where[0], witness=W(o.st))
    n_flush_paths = 0
    for k, o in enumerate(normal):
        s = o.st
        ev = [e for e in s.events if e[0] in ("slice-store", "file-write", "open")]
        stores = [e for e in ev if e[0] == "slice-store"]
        writes = [e for e in ev if e[0] == "file-write"]
        tag = f"path{k}:{'flush' if writes else 'no-flush'}"
        n_flush_paths += bool(writes)
        chk.require(len(stores) == 1, "R10.1", f"one-copy:{tag}", f"{len(stores)} copies into the buffer", add.where)
        if len(stores) != 1:
            continue
        _, where, lo, hi, vlen, blen, cons, vp = stores[0]
        chk.require(vp == [("record", None)] or [p[0] for p in vp] == ["record"], "R10.1", f"copies-the-record:{tag}",
                    "something other than the record is copied into the buffer", where)
        chk.require(entails(cons, eq(hi - lo, vlen)), "R10.1", f"slice-length==record-length:{tag}",
                    "the target slice has a different length than the record: the bytearray resizes and earlier or "
                    "later bytes are shifted / lost", where, witness=SegmentModel.witness(cons, [lt(hi - lo, vlen)])
                    | SegmentModel.witness(cons, [gt(hi - lo, vlen)]))
        chk.require(entails(cons, ge(lo, 0)) and entails(cons, le(hi, blen)), "R10.1", f"slice-inside-buffer:{tag}",
                    "the record is copied beyond the end of the buffer", where,
                    witness=SegmentModel.witness(cons, [gt(hi, blen)]))
        # position: right after what is buffered (0 after a flush)
        exp_lo = LinExpr.c(0) if writes else filled
        chk.require(entails(cons, eq(lo, exp_lo)), "R10.1", f"copied-after-buffered-bytes:{tag}",
                    "the record is not placed right after the bytes already buffered", where,
                    witness=SegmentModel.witness(cons, [gt(lo, exp_lo)]) | SegmentModel.witness(cons, [lt(lo, exp_lo)]))
        nf = s.fields(buf)[names["filled"]]
        exp = (ell if writes else filled + ell)
        chk.require(isinstance(nf, IntV) and entails(s.cons, eq(nf.e, exp)), "R10.1", f"filled-updated:{tag}",
                    "the fill counter does not equal the number of buffered bytes after the call", add.where,
                    witness=W(s))
        chk.require(isinstance(nf, IntV) and entails(s.cons, ge(nf.e, 0)) and entails(s.cons, le(nf.e, B)), "R10.1",
                    f"invariant-0<=filled<=B:{tag}", "the fill counter can leave [0, buffer size]", add.where,
                    witness=W(s))
        # buffer object length unchanged
        bl = s.heap[s.fields(buf)[names["buf"]].oid]["length"]
        chk.require(entails(s.cons, eq(bl, B)), "R10.1", f"buffer-size-stable:{tag}",
                    "the buffer no longer has its nominal size after the call", add.where, witness=W(s))
        if writes:
            chk.require(len(writes) == 1, "R10.2", f"one-flush:{tag}", "several physical writes in one call", add.where)
            w = writes[0]
            idx_w = s.events.index(w)
            idx_s = s.events.index(stores[0])
            chk.require(idx_w < idx_s, "R10.2", f"flush-before-copy:{tag}",
                        "the new record reaches the buffer/file before the older buffered bytes were flushed "
                        "(records reordered)", add.where)
            chk.require(entails(w[5], eq(w[3], filled)) and [p[0] for p in w[4]] == ["slice"], "R10.1",
                        f"flush-writes-exactly-the-buffered-prefix:{tag}",
                        f"a flush does not write exactly buf[:filled] (length {w[3]!r})", w[1],
                        witness=SegmentModel.witness(w[5]))
            # flush only when needed is not required; but no flush may be skipped when the record does not fit
        else:
            chk.require(entails(s.cons, le(filled + ell, B)), "R10.1", f"no-flush-only-if-it-fits:{tag}",
                        "the record is copied without a flush although it does not fit", add.where, witness=W(s))
    chk.floor("add_bytes paths with a flush", n_flush_paths, 1)
    # any file write on the add_bytes path must go through the flush routine (no direct write of the new record)
    direct = [s for s in chk.cg.sites.get(add, []) if any(t.name == "write_bytes" for t in s.targets)]
    chk.require(not direct, "R10.2", "no-direct-write-in-add_bytes",
                "add_bytes hands bytes to the byte writer itself instead of going through the buffer "
                "(whole-record / FIFO discipline bypassed)", add.where)
    # explicit drain
    it2 = Interp(ix)
    st, buf, writer, names, sy = _buffer_state(ix, it2)
    outs = it2.call_function(flush, [buf], {}, st, flush.node)
    for k, o in enumerate(o for o in outs if o.kind == "val"):
        writes = [e for e in o.st.events if e[0] == "file-write"]
        nf = o.st.fields(buf)[names["filled"]]
        good = len(writes) == 1 and entails(writes[0][5], eq(writes[0][3], sy["filled"])) \
            and isinstance(nf, IntV) and entails(o.st.cons, eq(nf.e, 0))
        chk.require(good, "R10.1", f"drain-writes-prefix-and-resets:path{k}",
                    "the drain does not write exactly the buffered bytes and reset the counter", flush.where,
                    witness=W(o.st))
        tot = o.st.fields(writer)[sy["total"]]
        chk.require(isinstance(tot, IntV) and entails(o.st.cons, eq(tot.e, sy["tot"] + sy["filled"])), "R10.3",
                    f"byte-counter-adds-bytes-written:path{k}",
                    "the reported total size does not grow by the number of bytes written", flush.where, witness=W(o.st))
    for q in set(it.consulted) | set(it2.consulted):
        chk.consulted_functions.add(q)


# ---------------------------------------------------------------------------------------------------- R10.3
def r10_3_byte_writer(chk):
    ix = chk.ix
    it = Interp(ix)
    bw = ix.get_class("ByteWriter")
    wb = bw.lookup("write_bytes")
    init = bw.lookup("__init__")
    chk.consult(wb, init)
    st = State()
    n1, n2 = LinExpr.sym("n1"), LinExpr.sym("n2")
    st.add(ge(n1, 0))
    st.add(ge(n2, 0))
    w = st.new_obj(bw, tag="byte_writer")
    outs = [o for o in it.call_function(init, [w, OpaqueV("filename")], {}, st, init.node) if o.kind == "val"]
    st = outs[0].st
    modes = []
    cur = [st]
    for i, n in enumerate((n1, n2, n2)):
        nxt = []
        for s in cur:
            for o in it.call_function(wb, [w, SeqV("bytes", n, [("data", n, i)])], {}, s, wb.node):
                if o.kind == "val":
                    nxt.append(o.st)
        cur = nxt
    chk.require(bool(cur), "R10.3", "write_bytes-normal-path", "write_bytes always raises", wb.where)
    for k, s in enumerate(cur):
        opens = [e for e in s.events if e[0] == "open"]
        ms = [e[3].const if isinstance(e[3], SeqV) else None for e in opens]
        chk.require(ms == ["wb", "ab", "ab"], "R10.3", f"first-truncates-then-appends:path{k}",
                    f"file modes over three consecutive writes are {ms}; expected ['wb', 'ab', 'ab'] "
                    f"(a pre-existing file must be replaced, later flushes must append)", wb.where)
        fw = [e for e in s.events if e[0] == "file-write"]
        chk.require(len(fw) == 3 and all(p == [("data", None)] or [x[0] for x in p] == ["data"] for p in
                                         [e[4] for e in fw]), "R10.3", f"writes-the-bytes-given:path{k}",
                    "write_bytes does not write exactly the bytes it was given", wb.where)
    # single writer of the mode flag, never back to False
    flag_stores = []
    for f in ix.functions.values():
        for n in walk_local(f.node):
            if isinstance(n, ast.Assign):
                for t in n.targets:
                    if isinstance(t, ast.Attribute) and t.attr == "_append":
                        flag_stores.append((f, n))
    bad = [(f, n) for f, n in flag_stores if not (f.cls is bw and (f.name == "__init__" or
                                                                  (isinstance(n.value, ast.Constant)
                                                                   and n.value.value is True)))]
    chk.require(not bad, "R10.3", "mode-flag-monotone",
                f"the append flag is reset / written elsewhere: {[(f.short, norm(n)) for f, n in bad]}", bw.where)
    # nothing repositions or truncates the file between the writes
    for k, s in enumerate(cur):
        moves = [e for e in s.events if e[0] in ("file-seek", "file-truncate")]
        chk.require(not moves, "R10.3", f"no-seek/truncate:path{k}",
                    f"the file position is manipulated explicitly ({[e[0] for e in moves]}): with a pre-existing longer "
                    f"file the old tail survives", wb.where)
    for q in it.consulted:
        chk.consulted_functions.add(q)


# ---------------------------------------------------------------------------------------------------- R10.4
def r10_4_chunk_validator(chk):
    ix = chk.ix
    it = Interp(ix)
    dw = ix.get_class("DLISWriter")
    val = dw.lookup("_check_output_chunk_size")
    wl = dw.lookup("write_logical_records")
    chk.consult(val, wl)
    st = State()
    vrl, x = LinExpr.sym("vrl"), LinExpr.sym("output_chunk_size")
    st.add(ge(vrl, 20))
    st.add(le(vrl, 16384))
    w = st.new_obj(dw, tag="writer", fields={"_visible_record_length": IntV(vrl)})
    outs = it.call_function(val, [w, IntV(x)], {}, st, val.node)
    for k, o in enumerate(outs):
        if o.kind == "val":
            chk.require(entails(o.st.cons, ge(x, vrl)), "R10.4", f"accepted=>chunk>=record-length:path{k}",
                        "an output chunk smaller than a visible record is accepted", val.where,
                        witness=W(o.st, [lt(x, vrl)]))
        elif o.kind == "raise":
            chk.require(infeasible_cached(list(o.st.cons) + [ge(x, vrl)]), "R10.4",
                        f"integral>=record-length-is-accepted:{o.where[1][:40]}",
                        "an integral chunk size >= the record length is rejected", o.where[0],
                        witness=W(o.st, [ge(x, vrl)]))
    # write_logical_records: None/0 -> default, validated value is what sizes the buffer  (inlined value-flow summary:
    # the buffer may be made in a helper)
    from ..terms import is_call, call_arg, pp, contains
    ws = chk.terms.inline(wl, 2, stop=lambda g: g is val or g.name == "__init__")
    ctor = [c for c in ws.all_calls("BufferedOutput")]
    vcalls = [(i, e) for i, e in enumerate(ws.effects) if e.kind == "call" and is_call(e.value, val.name)]
    ocs = ("param", "output_chunk_size")
    ctor_eff = [(i, e) for i, e in enumerate(ws.effects) if any(isinstance(t, tuple) and ctor and contains(t, ctor[0])
                                                              for t in (e.base, e.key, e.value))]
    ok = len(ctor) == 1 and len(vcalls) == 1 and bool(ctor_eff) and vcalls[0][0] < ctor_eff[0][0] and \
        set(vcalls[0][1].pc) <= set(ctor_eff[0][1].pc) and not vcalls[0][1].ctx
    if ok:
        sized = call_arg(ctor[0], 0)
        checked = call_arg(vcalls[0][1].value, 0)
        # the size handed to the buffer is int(<the validated value>) or the validated value itself
        ok = checked is not None and contains(checked, ocs) and sized in (checked, ("call", ("global", "int"), (checked,), ()))
    chk.require(ok, "R10.4", "validated-size-sizes-the-buffer",
                "the buffer is not created from the validated output chunk size", wl.where)
    for q in it.consulted:
        chk.consulted_functions.add(q)


def _windowed_wrapper(it, st, sdw, n, frm):
    """A SourceDataWrapper for the row window [frm, frm + n) of an unknown source, made by interpreting its own
    constructor (so that it holds the window in whatever private form the class uses)."""
    init = sdw.lookup("__init__")
    dd = sdw.lookup("determine_dtypes")
    if dd is not None:
        it.summaries[dd.qualname] = lambda interp, args, kwargs, s, node: interp.val(s, OpaqueV("chunk dtype"))
    obj = st.new_obj(sdw, tag="wrapper")
    names = init.param_names
    if not {"from_idx", "to_idx"} <= set(names):
        raise AnalysisError("SourceDataWrapper.__init__ no longer takes from_idx / to_idx")
    pos = [OpaqueV("source"), OpaqueV("mapping")]
    outs = it.call_function(init, [obj] + pos, {"from_idx": IntV(frm), "to_idx": IntV(frm + n)}, st, init.node)
    normal = [o for o in outs if o.kind == "val"]
    if not normal:
        raise AnalysisError("SourceDataWrapper.__init__ has no normal path for a valid row window")
    return obj, normal[0].st


# ---------------------------------------------------------------------------------------------------- R10.5
def r10_5_tiling(chk):
    ix = chk.ix
    sdw = ix.get_class("SourceDataWrapper")
    gen = sdw.lookup("make_chunked_generator")
    load = sdw.lookup("load_chunk")
    sl = sdw.lookup("_get_chunk_slice")
    if gen is None or load is None:
        raise AnalysisError("chunk generator / load_chunk not found")
    chk.consult(gen, load, sl)
    for mode in ("c=None", "c>=1"):
        it = Interp(ix)
        st = State()
        n, c, frm = LinExpr.sym("n_rows"), LinExpr.sym("chunk_rows"), LinExpr.sym("from_idx")
        st.add(ge(n, 1))
        st.add(ge(frm, 0))
        st.nonneg("chunk_rows", c - 1)
        loads = []

        def load_summary(interp, args, kwargs, s, node, loads=loads):
            # interpret the bounds helper if there is one, otherwise the function itself up to its slice
            selfv, start, stop = args[0], args[1], args[2]
            if sl is not None:
                res = []
                for o in interp.call_function(sl, [selfv, start, stop], {}, s, node):
                    if o.kind == "val":
                        loads.append(("ok", start, stop, o.value, list(o.st.cons), o.st))
                        o.st.events.append(("chunk", start, stop, o.value, list(o.st.cons)))
                        res.append(Out("val", o.st, OpaqueV("chunk")))
                    else:
                        loads.append(("raise", start, stop, o, list(o.st.cons), o.st))
                        res.append(o)
                return res
            return None
        it.summaries[load.qualname] = load_summary
        # logging of the chunk plan is irrelevant
        obj, st = _windowed_wrapper(it, st, sdw, n, frm)
        ceq = ix.get_class("SourceDataWrapper").lookup("_check_equal_n_rows")
        if ceq is not None:
            it.summaries[ceq.qualname] = lambda interp, args, kwargs, s, node: interp.val(s, NONE)
        arg = NONE if mode == "c=None" else IntV(c)
        outs = it.drive(gen, [obj, arg], {}, st)
        raises = [o for o in outs if o.kind == "raise"]
        for o in raises:
            chk.fail("R10.5", f"generator-raises:{mode}:{o.exc}:{o.where[1][:40]}",
                     f"the chunk generator can raise {o.exc} for a valid chunk size", o.where[0], witness=W(o.st))
        oks = [l for l in loads if l[0] == "ok"]
        chk.require(bool(oks), "R10.5", f"chunks-produced:{mode}", "no chunk is ever loaded", gen.where)
        seen_kinds = set()
        for l in loads:
            _, start, stop, res, cons, s2 = l
            if l[0] == "raise":
                continue
            if not isinstance(res, SliceObjV) or not isinstance(res.start, IntV) or not isinstance(res.stop, IntV):
                raise AnalysisError(f"chunk bounds helper does not return slice(int, int): {res!r} for start={start!r} stop={stop!r}")
            st_e = start.e
            sp_e = stop.e if isinstance(stop, IntV) else n
            tag = f"{mode}:{norm_expr(st_e)}..{norm_expr(sp_e)}"
            seen_kinds.add(tag)
            chk.require(entails(cons, eq(res.start.e, frm + st_e)) and entails(cons, eq(res.stop.e, frm + sp_e)),
                        "R10.5", f"source-rows==from_idx+chunk:{tag}",
                        "a chunk is not read from source rows from_idx+start .. from_idx+stop", sl.where,
                        witness=SegmentModel.witness(cons))
            chk.require(entails(cons, ge(st_e, 0)) and entails(cons, le(st_e, sp_e)) and entails(cons, le(sp_e, n)),
                        "R10.5", f"chunk-inside-window:{tag}", "a chunk reaches outside rows [0, n)", gen.where,
                        witness=SegmentModel.witness(cons, [gt(sp_e, n)]))
        # tiling: on every complete path the chunks, taken in program order, must chain 0 -> ... -> n.
        # The chunks of a range loop form a family (start(i), stop(i)), lo <= i < hi, taken from the arbitrary
        # iteration of that loop: start(lo) continues the chain, stop(i) == start(i+1), stop(hi-1) carries on.
        families = {}
        for o in outs:
            if o.kind == "loop-iteration":
                fr = [e for e in o.st.events if e[0] == "for-range"]
                ch = [e for e in o.st.events if e[0] == "chunk"]
                if fr and ch:
                    idx = o.st.events.index(fr[-1])
                    inside = [e for e in ch if o.st.events.index(e) > idx]
                    families.setdefault(fr[-1][5], []).append((fr[-1], inside, o.st))
        n_paths = 0
        for k, o in enumerate(o for o in outs if o.kind == "val"):
            cons = o.st.cons
            cur = LinExpr.c(0)
            ok_chain = True
            why = ""
            for e in o.st.events:
                if e[0] == "chunk":
                    s_e = e[1].e
                    p_e = e[2].e if isinstance(e[2], IntV) else n
                    if not entails(cons, eq(s_e, cur)):
                        ok_chain, why = False, f"a chunk starts at {norm_expr(s_e)} but the rows so far end at " \
                                               f"{norm_expr(cur)}"
                        break
                    cur = p_e
                elif e[0] == "for-marker" and e[2] == "after":
                    fams = families.get(e[1], [])
                    if not fams:
                        continue
                    lo, hi = e[3], e[4]
                    for fr, inside, fst in fams:
                        if not inside:
                            continue
                        if not _is_prefix(fst.cons, cons, o.st):
                            pass
                        iname = next(iter(fr[2].symbols()))
                        first, last = inside[0], inside[-1]
                        s_i = first[1].e
                        p_i = last[2].e if isinstance(last[2], IntV) else n
                        # inside one iteration several chunks must chain too
                        for a, b in zip(inside, inside[1:]):
                            pa = a[2].e if isinstance(a[2], IntV) else n
                            if pa != b[1].e:
                                ok_chain, why = False, "chunks inside one loop iteration do not chain"
                        if not entails(cons, eq(_subst_sym(s_i, iname, lo), cur)):
                            ok_chain, why = False, f"the first loop chunk starts at {norm_expr(_subst_sym(s_i, iname, lo))}" \
                                                   f", the rows so far end at {norm_expr(cur)}"
                        if _subst_sym(s_i, iname, fr[2] + 1) != p_i:
                            ok_chain, why = False, f"stop of loop chunk i ({norm_expr(p_i)}) is not the start of chunk " \
                                                   f"i+1 ({norm_expr(_subst_sym(s_i, iname, fr[2] + 1))})"
                        cur = _subst_sym(p_i, iname, hi - 1)
                        break
                    if not ok_chain:
                        break
            if ok_chain and not entails(cons, eq(cur, n)):
                ok_chain, why = False, f"the chunks end at row {norm_expr(cur)}, not at n_rows"
            n_paths += 1
            chk.require(ok_chain, "R10.5", f"chunks-tile-[0,n):{mode}:path{k}",
                        f"the input chunks do not tile rows [0, n) in order: {why}", gen.where,
                        witness=W(o.st) if not ok_chain else None,
                        detail_ok="chain 0 -> ... -> n_rows verified (loop family: start(lo)=prev, "
                                  "stop(i)=start(i+1), stop(hi-1)=next)")
        chk.floor(f"complete generator paths ({mode})", n_paths, 1)
        if mode == "c=None":
            # exactly one chunk covering [0, n)
            cover = [l for l in oks if entails(l[4], eq(l[1].e, 0)) and
                     entails(l[4], eq(l[2].e if isinstance(l[2], IntV) else n, n))]
            chk.require(bool(cover), "R10.5", "single-chunk-covers-all-rows",
                        "without an input chunk size the data are not loaded as one chunk [0, n)", gen.where)
        chk.info.setdefault("chunk_shapes", []).extend(sorted(seen_kinds))
        for q in it.consulted:
            chk.consulted_functions.add(q)
    # load_chunk implementations use the helper's slice for every data set (shared with C11 R11.1)


def _is_prefix(a, b, st=None) -> bool:
    return len(a) <= len(b)


def fr_contains(st, chunk_event) -> bool:
    """True if the chunk event was produced inside the (arbitrary-iteration) range loop of this path."""
    idx = st.events.index(chunk_event)
    return any(e[0] == "for-range" and st.events.index(e) < idx for e in st.events) and \
        any(t == ("loop", "for-arbitrary") for t in st.trace)


def _subst_sym(e: LinExpr, name: str, repl: LinExpr) -> LinExpr:
    out = LinExpr.c(e.const)
    for mono, coef in e.terms.items():
        term = LinExpr.c(coef)
        for s in mono:
            term = term * (repl if s == name else LinExpr.sym(s))
        out = out + term
    return out


def norm_expr(e: LinExpr) -> str:
    import re
    return re.sub(r"#\d+", "", repr(e))


# ---------------------------------------------------------------------------------------------------- R10.6
def r10_6_param_flow(chk):
    ix = chk.ix
    write = ix.get_method("DLISFile", "write")
    chk.consult(write)
    # input_chunk_size -> generate_logical_records(chunk_size=) -> _make_multi_frame_data(**kwargs) -> MultiFrameData(chunk_size)
    # -> _chunk_rows -> make_chunked_generator(chunk_rows=)
    flows = {"input_chunk_size": [], "output_chunk_size": []}
    for f in [write] + list(write.nested.values()):
        for n in walk_local(f.node):
            if isinstance(n, ast.Name) and n.id in flows and isinstance(n.ctx, ast.Load):
                flows[n.id].append((f, n))
    for pname, uses in flows.items():
        chk.floor(f"uses of {pname} in write()", len(uses), 1)
        for f, n in uses:
            # every use must be a keyword/positional argument of a call (forwarding), nothing else
            parent = _parent_call(f.node, n)
            ok = parent is not None
            chk.require(ok, "R10.6", f"{pname}-only-forwarded:{f.short}:{n.lineno - f.node.lineno}",
                        f"{pname} is used in write() other than being forwarded", f"{f.module.relpath}:{n.lineno}",
                        nontrivial=False)
    mfd = ix.get_class("MultiFrameData")
    field_uses = []
    for f in ix.functions.values():
        for n in walk_local(f.node):
            if isinstance(n, ast.Attribute) and n.attr == "_chunk_rows" and isinstance(n.ctx, ast.Load):
                field_uses.append((f, n))
    chk.floor("reads of the stored input chunk size", len(field_uses), 1)
    for f, n in field_uses:
        parent = _parent_call(f.node, n)
        ok = parent is not None and isinstance(parent.func, ast.Attribute) and parent.func.attr == "make_chunked_generator"
        chk.require(ok, "R10.6", f"chunk_rows-only-into-generator:{f.short}",
                    "the input chunk size influences something other than the chunk generator",
                    f"{f.module.relpath}:{n.lineno}")
    wl = ix.get_method("DLISWriter", "write_logical_records")
    uses = [n for n in walk_local(wl.node) if isinstance(n, ast.Name) and n.id == "output_chunk_size"
            and isinstance(n.ctx, ast.Load)]
    for n in uses:
        parent = _parent_call(wl.node, n)
        st = _stmt_of(wl.node, n)
        ok = parent is not None or (isinstance(st, ast.Assign) and any(isinstance(t, ast.Name) and
                                    t.id == "output_chunk_size" for t in st.targets)) or \
            "logger" in norm(st)
        chk.require(ok, "R10.6", f"output_chunk_size-use:{norm(st)[:50]}",
                    "the output chunk size influences something other than its validation and the buffer size",
                    f"{wl.module.relpath}:{n.lineno}", nontrivial=False)


def _parent_call(root, node):
    for n in ast.walk(root):
        if isinstance(n, ast.Call):
            for a in list(n.args) + [k.value for k in n.keywords]:
                if a is node or (isinstance(a, ast.Call) and isinstance(a.func, ast.Name) and a.func.id == "int"
                                 and len(a.args) == 1 and a.args[0] is node):
                    return n
    return None


def _stmt_of(root, node):
    for st in ast.walk(root):
        if isinstance(st, ast.stmt) and not isinstance(st, (ast.FunctionDef, ast.For, ast.If, ast.While, ast.With,
                                                            ast.Try)):
            if any(x is node for x in ast.walk(st)):
                return st
    return None
