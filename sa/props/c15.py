"""C15 - writability never hinges on byte-size coincidences.

R15.1 (BytesAI raise reachability) under the precondition "record length accepted by the writer's validator, body length
      S >= 0 arbitrary", every `raise` between "record body obtained" and "bytes handed to the buffer" (segmenter,
      segment builder, visible record builder) is unreachable; a reachable one is reported with the witness (S, vrl).
R15.2 short bodies are brought to the 16-byte minimum by *flagged* padding in the segment builder (shared with C01 R01.5:
      pad count = pad bytes, flag set), not by altering the body and not by raising.
R15.3 the validators agree: every record length the writer's validator accepts is accepted by the storage unit label
      and by the segmenter (no second, stricter bound downstream), and vice versa for the label.
"""

from __future__ import annotations

import ast

from .. import AnalysisError
from ..absint import Interp, State, SeqV, IntV, OpaqueV
from ..linarith import LinExpr, le, lt, ge, gt, eq, entails, infeasible_cached
from ..segmodel import SegmentModel
from ..common import norm, try_const
from ..index import walk_local
from . import c01

LEVEL = "proof"
EXPLANATION = ("Raise reachability in the segmenter, segment builder and visible-record builder is decided for all body "
               "lengths and all accepted record lengths at once by the abstract interpreter; the minimum-length "
               "requirement is shown to be met by flagged padding; the three record-length validators are compared "
               "as sets. A reachable raise is reported with the concrete (S, vrl) that triggers it.")
TRUSTED = c01.TRUSTED


def run(chk, model: SegmentModel = None):
    ix, cg = chk.ix, chk.cg
    from ..segmodel import shared_model
    m = model or shared_model(ix, cg)
    chk.trusted = TRUSTED
    chk.consult(m.segmenter, m.vr_builder, m.writer_init)
    for q in m.it.consulted:
        chk.consulted_functions.add(q)
    chk.info["loop"] = m.loop_reports

    if m.error is not None:
        raise m.error
    # ------------------------------------------------------------------ R15.1 raise reachability
    raise_sites = set()
    for f in (m.segmenter, m.lrb_cls.lookup("make_segment"), m.vr_builder):
        if f is None:
            continue
        for n in walk_local(f.node):
            if isinstance(n, ast.Raise):
                raise_sites.add((f.short, norm(n)[:70]))
    chk.info["raise_statements_examined"] = sorted(raise_sites)
    reached = {}
    inductive_only = {}
    for o in m.raises:
        exact = not any(t == ("loop", "inductive") for t in o.st.trace)
        key = (o.where[2], o.where[1][:70])
        if exact:
            reached.setdefault(key, o)
        else:
            inductive_only.setdefault(key, o)
    for key, o in reached.items():
        chk.fail("R15.1", f"reachable-raise:{key[0]}:{key[1]}",
                 f"a valid record makes the segmenter raise {o.exc}: writability depends on the body size", o.where[0],
                 witness=SegmentModel.witness(o.st.cons))
    for key, o in inductive_only.items():
        if key not in reached:
            raise AnalysisError(f"raise {key} is reachable at an arbitrary loop iteration but not confirmed on an exact "
                                f"path; cannot decide")
    for fs, txt in sorted(raise_sites):
        if not any(k[0] == fs and k[1][:50] == txt[:50] for k in reached):
            chk.ok("R15.1", f"unreachable:{fs}:{txt}", "path condition infeasible for every S >= 0 and accepted vrl")
    # visible record builder: reuse C01 R01.7 (never raises, for every segment the segmenter can produce)
    n_before = len(chk.obs)
    c01.r01_7_visible_record(chk, m)
    for o in chk.obs[n_before:]:
        o.rule = "R15.1"
    # ------------------------------------------------------------------ R15.2 flagged padding meets the minimum
    n_before = len(chk.obs)
    c01.r01_5_segments(chk, m)
    keep = []
    for o in chk.obs[n_before:]:
        if o.key.startswith(("b-size>=16", "d-pad", "c-size==len")):
            o.rule = "R15.2"
            keep.append(o)
    chk.obs[n_before:] = keep
    # short-body paths must exist in the analysis (S < 12) - otherwise the rule is vacuous
    short = [y for y in m.yields if y["exact"] and not infeasible_cached(list(y["cons"]) + [le(m.S, 11)])]
    chk.floor("segment paths covering bodies shorter than 12 bytes", len(short), 1)
    # the no-format body is not padded in the record itself (C16 R16.1 has the full rule); here: no `* padding`
    nf = ix.get_method("NoFormatFrameData", "_make_body_bytes")
    chk.consult(nf)
    pads = [n for n in walk_local(nf.node) if isinstance(n, ast.BinOp) and isinstance(n.op, ast.Mult)]
    chk.require(not pads, "R15.2", "no-in-body-padding:NoFormatFrameData",
                "the no-format record body is padded in place instead of relying on flagged segment padding", nf.where)

    # ------------------------------------------------------------------ R15.3 validators agree
    acc = m.accepted_constraints()
    sul = ix.get_class("StorageUnitLabel")
    init = sul.lookup("__init__")
    chk.consult(init)
    it = Interp(ix)
    st = State()
    mrl = LinExpr.sym("vrl")
    for c in acc:
        st.add(c)
    obj = st.new_obj(sul, tag="sul")
    outs = it.call_function(init, [obj, SeqV("str", LinExpr.sym("idlen"), [("param", None, "id")]), IntV(1), IntV(mrl)],
                            {}, st, init.node)
    bad = [o for o in outs if o.kind == "raise" and "validate_string" not in str(o.where) and
           "TypeError" not in str(o.exc)]
    chk.require(not bad, "R15.3", "label-accepts-what-the-writer-accepts",
                "the storage unit label rejects a record length the writer's validator accepts",
                init.where, witness=SegmentModel.witness(bad[0].st.cons) if bad else None)
    # segmenter accepts every capacity derived from an accepted length: no raise reachable at its entry (R15.1)
    if m.error is not None and not chk.violations():
        raise m.error
    chk.require(not any(k[0].endswith(m.segmenter.name) for k in reached), "R15.3",
                "segmenter-accepts-every-validated-length",
                "the segmenter refuses a capacity that results from an accepted record length", m.segmenter.where)
