"""Shared, term-based descriptions of the two places where the row layout is decided:

field_plan(chk)   how SourceDataWrapper.determine_dtypes builds the chunk dtype: the iterable it walks, and for every
                  field the alternatives (conditions, (name, number type[, width])), the validations and the raises -
                  read off the inlined value-flow summary (so a per-data-set helper function or a comprehension instead of
                  the loop makes no difference).
row_body(chk)     how FrameData._make_body_bytes serialises one row: the leading parts and the per-slot piece.
"""

from __future__ import annotations

from .. import AnalysisError
from ..terms import (SELF, NONE, A, K, alternatives, contains, subterms, is_call, call_arg, call_name, pp, substitute,
                     rebuild, raise_conditions)


class FieldPlan:
    def __init__(self):
        self.func = None
        self.summary = None
        self.iterable = None      # term the fields are created from (mapping.items())
        self.elem = None          # the loop / comprehension element
        self.alts = []            # [(conds, tuple-of-terms)] field descriptors
        self.raises = []          # [(conds, exception term, ctx)]
        self.validations = []     # call terms of validate_numpy_dtype
        self.how = ""


def _flatten_star(t):
    if t[0] == "tuple":
        out = []
        for x in t[1]:
            if x[0] == "star" and x[1][0] == "tuple":
                out.extend(_flatten_star(x[1])[1])
            elif x[0] == "star" and x[1][0] == "ite":
                return t
            else:
                out.append(x)
        return ("tuple", tuple(out))
    return t


def field_plan(chk) -> FieldPlan:
    ix = chk.ix
    dd = ix.get_method("SourceDataWrapper", "determine_dtypes")
    chk.consult(dd)
    su = chk.terms.inline(dd, 3, stop=lambda g: g.cls is not None and g.cls.name == "ReprCodeConverter")
    fp = FieldPlan()
    fp.func, fp.summary = dd, su
    rets = [t for _, t, _ in su.returns]
    if len(rets) != 1 or not is_call(rets[0], "dtype") or not rets[0][2]:
        raise AnalysisError(f"determine_dtypes: expected one `np.dtype(<fields>)` return, found {[pp(t)[:40] for t in rets]}")
    fields = rets[0][2][0]
    if fields[0] == "comp" and fields[1] == "list" and len(fields[3]) == 1 and not fields[3][0][2]:
        fp.iterable = fields[3][0][1]
        fp.how = "comprehension"
        els = [x for x in subterms(fields[2]) if x[0] == "elem" and x[1] == fp.iterable]
        fp.elem = els[0] if els else None
        for conds, alt in alternatives(fields[2]):
            fp.alts.append((tuple(conds), _flatten_star(alt)))
        in_loop = lambda e: True  # noqa: E731  (effects hoisted out of the comprehension element carry no loop)
    elif fields in (("list", ()), ("call", ("global", "list"), (), ())):
        apps = [e for e in su.effects if e.kind == "call" and is_call(e.value, "append") and e.value[1][1] == fields]
        if not apps:
            raise AnalysisError("determine_dtypes: no append to the list of field descriptors")
        loops = {e.loops()[0][1:] for e in apps if len(e.loops()) == 1}
        if len(loops) != 1 or any(len(e.loops()) != 1 for e in apps):
            raise AnalysisError("determine_dtypes: field descriptors are not appended in one loop")
        lid, it = next(iter(loops))
        fp.iterable, fp.elem, fp.how = it, ("elem", it, lid), "loop"
        for e in apps:
            for conds, alt in alternatives(e.value[2][0]):
                fp.alts.append((tuple(e.pc) + tuple(conds), _flatten_star(alt)))
    else:
        raise AnalysisError(f"determine_dtypes: unrecognised construction of the field list `{pp(fields)[:60]}`")
    for e in su.effects:
        if e.kind == "raise":
            fp.raises.append((tuple(e.pc), e.value, e.ctx))
    for pc, t, _ in su.raises:
        if not any(r[1] == t for r in fp.raises):
            fp.raises.append((tuple(pc), t, ()))
    fp.validations = su.all_calls("validate_numpy_dtype")
    return fp


class RowBody:
    def __init__(self):
        self.func = None
        self.head = []        # leading parts, in order
        self.pieces = []      # [(iterable, element term, piece term)]
        self.tail = []
        self.summary = None


def _parts(t):
    if t[0] == "bin" and t[1] == "+":
        return _parts(t[2]) + _parts(t[3])
    return [t]


def row_body(chk) -> RowBody:
    ix = chk.ix
    f = ix.get_method("FrameData", "_make_body_bytes")
    chk.consult(f)
    su = chk.terms.inline(f, 3, stop=lambda g: g.module is not f.module)   # encoders of other modules stay calls
    rb = RowBody()
    rb.func, rb.summary = f, su
    rets = [t for _, t, _ in su.returns]
    if len(rets) != 1:
        raise AnalysisError(f"FrameData._make_body_bytes: expected one return, found {len(rets)}")
    seen_piece = False
    ret = rets[0]
    if is_call(ret, "join", 1) and ret[2][0][0] == "list":
        # b''.join(parts) with parts = [head...] extended / appended to afterwards
        lit = ret[2][0]
        rb.head.extend(lit[1])
        for e in su.effects:
            if e.kind != "call" or e.value[1][0] != "attr" or e.value[1][1] != lit:
                continue
            if e.value[1][2] == "extend" and e.value[2] and e.value[2][0][0] == "comp" and \
                    len(e.value[2][0][3]) == 1 and not e.value[2][0][3][0][2] and not e.pc and not e.loops():
                comp = e.value[2][0]
                it = comp[3][0][1]
                els = [x for x in subterms(comp[2]) if x[0] == "elem" and x[1] == it]
                rb.pieces.append((it, els[0] if els else None, comp[2]))
            elif e.value[1][2] == "append" and len(e.loops()) == 1 and e.loops()[0][0] == "for" and not e.pc:
                it, lid = e.loops()[0][2], e.loops()[0][1]
                rb.pieces.append((it, ("elem", it, lid), e.value[2][0]))
            elif e.value[1][2] == "append" and not e.loops() and not e.pc:
                (rb.tail if rb.pieces else rb.head).append(e.value[2][0])
            else:
                raise AnalysisError("FrameData._make_body_bytes: the list of parts is built in an unrecognised way")
        return rb
    for p in _parts(ret):
        if p[0] == "fold":
            _, lid, name, init, upd, it = p
            mu = ("mu", lid, name)
            (rb.tail if seen_piece else rb.head).extend(_parts(init))
            el = ("elem", it, lid)
            for _, alt in alternatives(upd):      # the slot may be appended in one of several (conditional) forms
                ups = _parts(alt)
                if not ups or ups[0] != mu or it is None:
                    raise AnalysisError("FrameData._make_body_bytes: accumulation loop of an unrecognised shape")
                for piece in ups[1:]:
                    if (it, el, piece) not in rb.pieces:
                        rb.pieces.append((it, el, piece))
            seen_piece = True
        elif is_call(p, "join") and p[2] and p[2][0][0] == "comp" and len(p[2][0][3]) == 1 and not p[2][0][3][0][2]:
            comp = p[2][0]
            it = comp[3][0][1]
            els = [x for x in subterms(comp[2]) if x[0] == "elem" and x[1] == it]
            rb.pieces.append((it, els[0] if els else None, comp[2]))
            seen_piece = True
        else:
            (rb.tail if seen_piece else rb.head).append(p)
    return rb


class FrameDataPlan:
    """How LogicalFile._make_multi_frame_data gets the data wrapper of one frame for one write."""

    def __init__(self):
        self.func = None        # LogicalFile._make_multi_frame_data
        self.summ = None        # its summary with the private helpers of the logical file inlined
        self.ctor = None        # the MultiFrameData(...) term
        self.wrapper = None     # the term handed to it as the data wrapper
        self.alts = []          # [(conditions, call term, callee FuncInfo or None, {callee parameter: term})]


def frame_data_plan(chk) -> FrameDataPlan:
    from ..terms import ctor_calls
    cached = getattr(chk, "_frame_data_plan", None)
    if cached is not None:
        return cached
    ix, te = chk.ix, chk.terms
    mk = ix.get_method("LogicalFile", "_make_multi_frame_data")
    if mk is None:
        raise AnalysisError("LogicalFile._make_multi_frame_data not found")
    chk.consult(mk)
    mfd = ix.get_class("MultiFrameData")
    sdw = ix.get_class("SourceDataWrapper")
    p = FrameDataPlan()
    p.func = mk
    # (private helpers of the logical file are looked through: the wrapper may be made in one)
    p.summ = te.inline(mk, 2, stop=lambda g: g.cls is not mk.cls or g.name == "__init__")
    ctor = ctor_calls(p.summ, mfd)
    if len(ctor) != 1:
        raise AnalysisError("MultiFrameData construction not found in _make_multi_frame_data")
    p.ctor = ctor[0]
    minit = mfd.lookup("__init__")
    amap = te._bind_args(minit, p.ctor) or {}
    p.wrapper = amap.get(minit.param_names[2]) if len(minit.param_names) > 2 else None
    if p.wrapper is None:
        raise AnalysisError("MultiFrameData is built without a data wrapper argument")
    for conds, alt in alternatives(p.wrapper):
        tg = list(p.summ.calls.get(alt, ())) if alt[0] == "call" and alt in p.summ.precise else []
        made = [t for t in tg if t.cls is not None and (t.cls is sdw or sdw in t.cls.mro())
                and ((t.name == "__init__" and alt[1][0] != "attr") or t.kind in ("staticmethod", "classmethod"))]
        callee = made[0] if len(made) == 1 else None
        p.alts.append((conds, alt, callee, (te._bind_args(callee, alt) or {}) if callee is not None else {}))
    chk._frame_data_plan = p
    return p


def transport_integrity(chk, rule_id: str):
    """The layers below the record contents, shared by every property that speaks of what a reader gets out of the file:
    a record body reaches the file as segments that partition it in order with the right first / last bracketing (C02
    R02.1 / R02.2 / R02.4), through an output buffer that hands on exactly the bytes it was given (C10 R10.1 / R10.2) and a
    byte writer that replaces the file once and then appends (C10 R10.3).  If any of these fails, no record - whatever it
    holds - comes back as it was written."""
    from ..report import Check
    from . import c02, c10
    t2 = Check("C02", "quick", 0, chk.ix, chk.cg, quiet=True)
    t2.guard(c02.run, t2)
    t10 = Check("C10", "quick", 0, chk.ix, chk.cg, quiet=True)
    t10.guard(c10.r10_1_buffer, t10)
    t10.guard(c10.r10_3_byte_writer, t10)
    n = 0
    for t in (t2, t10):
        for o in t.obs:
            o.key = f"{o.rule}:{o.key}"
            o.rule = rule_id
            o.nontrivial = False
            chk.obs.append(o)
            n += 1
        chk.consulted_functions |= t.consulted_functions
        chk.deferred.extend(t.deferred)
    chk.floor("transport-layer obligations", n, 100)
