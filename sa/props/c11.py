"""C11 - all data sources are equivalent and the row window selects exactly its rows.  (structural clauses)

All rules are phrased over the value-flow normal form (sa/terms.py): a value is identified by the expression that
computes it from parameters, fields and calls, whatever temporaries, helper functions or statement layout are used.

R11.1 every load_chunk implementation addresses source rows with slice(from_idx + start, from_idx + stop) as produced
      by the bounds helper (C10 R10.5 proves that arithmetic and its range checks for all windows / chunk sizes);
      __getitem__ applies [from_idx:to_idx]; n_rows = (to_idx or total) - from_idx; an empty or out-of-range window
      is refused.
R11.2 dispatch totality of make_wrapper: dict / ndarray / path, anything else raises; HDF5 sources opened read-only.
R11.3 field order and the set of data sets read come from the frame's channel mapping in every construction branch,
      never from the source's own key order; the mapping is recomputed from the frame's channels on every use.
R11.4 inline data and write(data=dict) are merged into one dict wrapper (write-time data overriding); non-dict data
      together with inline data raises; inline arrays are stored exactly as given under the channel's data set name.
R11.5 who-may-use: the raw source of a wrapper is read only inside the wrapper classes (everything else goes through the
      window-aware accessors).
R11.6 the structured-array fast path (rows handed on without the field-by-field copy) is taken only under exact
      equality of the source dtype and the frame's chunk dtype (= C08 R08.5): field order is the frame's, not the
      array's.
Not decided: byte identity of whole files across source kinds.
"""

from __future__ import annotations

from ..report import Check
from ..terms import (SELF, NONE, A, K, ANY, Wild, match, subterms, contains, alternatives, is_call, call_name,
                     call_arg, calls_in, int_norm, pp, find)

LEVEL = "other"
EXPLANATION = ("Sibling agreement of the wrapper classes on how a chunk is addressed (window offset, bounds), dispatch "
               "totality, mapping-driven field order, and verbatim storage of inline data, all decided on the value-flow "
               "normal form of the functions involved; the window arithmetic itself is proved for all windows and chunk "
               "sizes by C10 R10.5. Byte identity across source kinds follows only under numpy's semantics and is not "
               "decided.")

DS = A(SELF, "_data_source")
FROM = A(SELF, "_from_idx")
TO = A(SELF, "_to_idx")
NROWS = A(SELF, "_n_rows")


def run(chk):
    chk.guard(r11_1_window, chk)
    chk.guard(r11_2_dispatch, chk)
    chk.guard(r11_3_mapping, chk)
    chk.guard(r11_4_inline, chk)
    chk.guard(r11_5_raw_source_private, chk)
    chk.guard(r11_6_zero_copy, chk)


def r11_6_zero_copy(chk):
    """A structured array may be handed on without the field-by-field copy only when its dtype *is* the frame's chunk
    dtype (same names in the same order, same offsets): otherwise the slots follow the source's field order, not the
    frame's, and an array source stops being equivalent to the same data given as a dict / HDF5 (shared with C08 R08.5)."""
    from . import c08
    n0 = len(chk.obs)
    c08.r08_5_record_layout(chk)
    keep = [o for o in chk.obs[n0:] if o.key == "zero-copy-only-for-identical-dtype"]
    for o in keep:
        o.rule = "R11.6"
    chk.obs[n0:] = keep


def _plus(a, b):
    return lambda t: t in (("bin", "+", a, b), ("bin", "+", b, a))


def _all_terms(s):
    for pc, t, _ in s.returns + s.raises:
        yield t
        yield from pc
    for e in s.effects:
        for t in (e.base, e.key, e.value):
            if isinstance(t, tuple):
                yield t
        yield from e.pc


class _Window:
    """The row window of a wrapper in terms of what it was constructed with (fields resolved through the constructor,
    sa.terms.field_resolver): first row = the from_idx argument, number of rows = the n_rows property resolved, end =
    `to_idx, or the total number of rows when it is None`."""

    def __init__(self, chk, base):
        from ..terms import field_resolver
        self.resolve = field_resolver(chk.terms, base, skip=("_data_source", "_mapping", "_dtype"))
        self.frm = ("param", "from_idx")
        self.n_rows = self.resolve(A(SELF, "n_rows"))
        to = ("param", "to_idx")
        b = match(("bin", "-", ("ite", ("cmp", "is", to, NONE), Wild("total"), to), self.frm), self.n_rows)
        self.total = b["total"] if b else None
        self.to = ("ite", ("cmp", "is", to, NONE), self.total, to) if b else None

    def is_window_slice(self, t, props_of=None) -> bool:
        """slice(from_idx + start, from_idx + (n_rows if stop is None else stop))"""
        t = self.resolve(t, props_of=props_of)
        if not is_call(t, "slice", 2) or t[1] != ("global", "slice"):
            return False
        lo, hi = t[2]
        start, stop = ("param", "start"), ("param", "stop")
        stop_or_all = ("ite", ("cmp", "is", stop, NONE), self.n_rows, stop)
        return _plus(self.frm, start)(lo) and (_plus(self.frm, stop_or_all)(hi))

    def is_whole_window(self, t, props_of=None) -> bool:
        """[from_idx : to_idx or total]"""
        return self.to is not None and self.resolve(t, props_of=props_of) == ("slice", self.frm, self.to, NONE)


def r11_1_window(chk):
    ix, te = chk.ix, chk.terms
    base = ix.get_class("SourceDataWrapper")
    impls = [c.methods["load_chunk"] for c in [base] + ix.subclasses(base) if "load_chunk" in c.methods]
    chk.floor("load_chunk implementations", len(impls), 2)
    win_ = _Window(chk, base)
    _is_window_slice = win_.is_window_slice
    n_row_reads = 0
    for f in impls:
        # (the bounds helper is looked through; delegation to the base implementation is not)
        s = te.inline(f, 2, stop=lambda g: g.cls is None or g.name in ("load_chunk", "__init__") or
                      not (g.cls is base or base in g.cls.mro()))
        seen = set()
        reads = 0
        for t in _all_terms(s):
            for x in subterms(t):
                if x[0] != "sub" or x in seen or not contains(x[1], DS):
                    continue
                seen.add(x)
                idx = x[2]
                if contains(idx, lambda y: y[0] in ("elem", "bound")) or idx[0] == "const" or \
                        contains(idx, A(SELF, "_mapping")):
                    continue  # selects a data set (by a key of the mapping), not rows
                reads += 1
                full = win_.resolve(idx, props_of=s.props)
                ok = _is_window_slice(idx, s.props)
                chk.require(ok, "R11.1", f"rows-addressed-through-window:{f.short}:{pp(x[1])[:40]}",
                            f"{f.short} addresses source rows with `{pp(full)[:160]}`, which is not "
                            f"slice(from_idx + start, from_idx + stop): the row window is ignored or misapplied on "
                            f"this path", f.where)
        n_row_reads += reads
        # what a load_chunk may hand back: the freshly allocated chunk, the source rows addressed through the window, or
        # the result of delegating to the base implementation - nothing that was sliced or cached elsewhere
        from ..terms import return_alternatives
        for conds, alt in return_alternatives(s):
            fresh = is_call(alt, ("zeros", "empty"))
            windowed = alt[0] == "sub" and alt[1] == DS and _is_window_slice(alt[2], s.props)
            deleg = is_call(alt, "load_chunk") and alt[1][0] == "attr" and is_call(alt[1][1], "super")
            chk.require(fresh or windowed or deleg, "R11.1", f"chunk-is-fresh-or-windowed-source-rows:{f.short}",
                        f"{f.short} can return `{pp(alt)[:80]}`: rows that are not the source addressed with "
                        f"slice(from_idx + start, from_idx + stop)", f.where)
        delegating = any(is_call(c, "load_chunk") and c[1][0] == "attr" and is_call(c[1][1], "super")
                         for t in _all_terms(s) for c in calls_in(t))
        chk.require(bool(reads) or delegating, "R11.1", f"reads-or-delegates:{f.short}", "load_chunk neither reads the "
                    "source nor delegates", f.where, nontrivial=False)
    chk.floor("row-addressing reads of the data source", n_row_reads, 2)
    from . import c10
    tmp = Check("C10", "quick", 0, chk.ix, chk.cg, quiet=True)
    c10.r10_5_tiling(tmp)
    for o in tmp.obs:
        o.rule = "R11.1"
        chk.obs.append(o)
    gi = chk.summary(base.lookup("__getitem__"))
    rets = [t for _, t, _ in gi.returns]
    chk.require(bool(rets) and all(t[0] == "sub" and win_.is_whole_window(t[2], gi.props) for t in rets), "R11.1",
                "getitem-windowed",
                "SourceDataWrapper.__getitem__ does not apply the row window [from_idx:to_idx] to what it returns",
                gi.func.where)
    init = chk.summary(base.lookup("__init__"))
    frm, to = ("param", "from_idx"), ("param", "to_idx")
    val = win_.n_rows
    chk.require(win_.total is not None and contains(win_.total, lambda y: y[0] == "attr" and y[2] == "shape"), "R11.1",
                "n_rows=to-from", f"the number of rows is `{pp(val) if val else '?'}`, not (to_idx, or the total number "
                f"of rows when it is None) - from_idx", init.func.where)
    total = win_.total if win_.total is not None else ANY
    lits = [int_norm(win_.resolve(c, props_of=init.props)) for pc, _, _ in init.raises for c in pc]
    start_checked = any(l[0] == "cmp" and l[1] in (">=", ">") and l[2] == frm and l[3] == total for l in lits)
    empty_checked = any(l[0] == "cmp" and l[1] == "<=" and l[3] == K(0) and l[2] == val for l in lits) if val else False
    chk.require(start_checked and empty_checked, "R11.1", "window-validated",
                "an empty or out-of-range window is accepted (no raise under `from_idx >= total rows` / "
                "`n_rows < 1`)", init.func.where)


def r11_5_raw_source_private(chk):
    """Who may touch the raw source: only the wrapper classes themselves (they apply the row window).  A read of
    `<wrapper>.data_source` / `<other>._data_source` anywhere else bypasses from_idx / to_idx."""
    import ast
    from ..index import walk_local
    ix = chk.ix
    base = ix.get_class("SourceDataWrapper")
    wrappers = {base} | set(ix.subclasses(base))
    n = 0
    for f in ix.functions.values():
        owner = f
        while owner.cls is None and owner.parent is not None:
            owner = owner.parent
        for x in walk_local(f.node):
            if not isinstance(x, ast.Attribute) or not isinstance(x.ctx, ast.Load):
                continue
            if x.attr == "data_source" and not (owner.cls in wrappers):
                n += 1
                chk.fail("R11.5", f"raw-source-read:{f.short}", f"{f.short} reads the raw data source of a wrapper "
                         f"(`{ast.unparse(x)}`): the row window from_idx / to_idx is bypassed", f"{f.module.relpath}:{x.lineno}")
            if x.attr == "_data_source" and not (isinstance(x.value, ast.Name) and x.value.id == "self"):
                n += 1
                chk.fail("R11.5", f"raw-source-read:{f.short}", f"{f.short} reaches into another object's _data_source "
                         f"(`{ast.unparse(x)}`)", f"{f.module.relpath}:{x.lineno}")
    if not n:
        chk.ok("R11.5", "raw-source-only-inside-wrappers", "no read of a wrapper's raw source outside the wrapper classes",
               base.where, nontrivial=False)


def r11_2_dispatch(chk):
    mwf = chk.ix.get_method("SourceDataWrapper", "make_wrapper")
    chk.consult(mwf)
    # (private helpers such as an extension test are looked through; the wrapper classes themselves are not)
    mw = chk.terms.inline(mwf, 2, stop=lambda g: g.name == "__init__" or g.cls is None)
    src = ("param", "source")

    def isinst(t, cls):
        return ("call", ("global", "isinstance"), (src, ("global", cls)), ())
    seen = {}
    for pc, t, _ in mw.returns:
        for _, alt in alternatives(t):
            if alt[0] == "call":
                seen.setdefault(call_name(alt), []).append((pc, alt))
    for cls, test, what in (("DictDataWrapper", isinst(None, "dict"), "dict"),
                            ("NumpyDataWrapper", isinst(None, "np.ndarray"), "ndarray")):
        ok = cls in seen and all(test in pc for pc, _ in seen[cls]) and \
            all(call_arg(c, 0) == src and call_arg(c, 1, "mapping") == ("param", "mapping") for _, c in seen[cls])
        chk.require(ok, "R11.2", f"dispatch:{what}", f"make_wrapper does not hand a {what} source (and the mapping) to "
                    f"{cls} exactly when the source is a {what}", mw.func.where, nontrivial=False)
    ok = "HDF5DataWrapper" in seen and all(call_arg(c, 0) == src and call_arg(c, 1, "mapping") == ("param", "mapping")
                                           and ("not", isinst(None, "dict")) in pc
                                           and ("not", isinst(None, "np.ndarray")) in pc
                                           for pc, c in seen.get("HDF5DataWrapper", []))
    chk.require(ok, "R11.2", "dispatch:hdf5 path", "make_wrapper does not hand every other source to HDF5DataWrapper",
                mw.func.where, nontrivial=False)
    from ..terms import raise_conditions
    ext_raise = any(any(l[0] == "cmp" and l[1] == "not in" and l[3][0] in ("tuple", "list", "set")
                        and {x[1] for x in l[3][1] if x[0] == "const"} == {"h5", "hdf5"} for l in pc)
                    for pc, _ in raise_conditions(mw))
    chk.require(ext_raise, "R11.2", "dispatch:other paths raise", "a path that is not *.h5 / *.hdf5 is not refused",
                mw.func.where, nontrivial=False)
    h5 = chk.summary("HDF5DataWrapper", "__init__")
    opens = [c for t in _all_terms(h5) for c in calls_in(t, "File")]
    chk.require(bool(opens) and all(call_arg(c, 1, "mode") == K("r") for c in opens), "R11.2", "hdf5-read-only",
                "the HDF5 source is not opened read-only", h5.func.where)


def _dict_constructions(s, t):
    """How a dict-valued term is built: [(iterable, key, value)] for a dict comprehension, or for an empty dict filled
    by subscript stores inside a loop of the same function."""
    out = []
    if t[0] == "comp" and t[1] == "dict" and len(t[3]) == 1 and not t[3][0][2]:
        out.append((t[3][0][1], t[2][0], t[2][1]))
    elif t in (("dict", ()), ("call", ("global", "dict"), (), ())):
        for e in s.stores(kind="store_sub"):
            if e.base == t and len(e.loops()) == 1 and e.loops()[0][0] == "for" and not e.pc:
                out.append((e.loops()[0][2], e.key, e.value))
    return out


def r11_3_mapping(chk):
    ix = chk.ix
    base = ix.get_class("SourceDataWrapper")
    lc = chk.summary(base.lookup("load_chunk"))
    rets = [t for _, t, _ in lc.returns]
    fills = [e for e in lc.stores(kind="store_sub") if e.base in rets]
    mapping = A(SELF, "_mapping")
    ok = bool(fills)
    for e in fills:
        loops = e.loops()
        if len(loops) != 1 or loops[0][0] != "for" or not contains(loops[0][2], mapping) or e.pc:
            ok = False
            continue
        it, lid = loops[0][2], loops[0][1]
        el = ("elem", it, lid)
        if is_call(it, "items") and it[1][1] == mapping:
            key, loc = ("sub", el, K(0)), ("sub", el, K(1))
        elif it == mapping or (is_call(it, "keys") and it[1][1] == mapping):
            key, loc = el, ("sub", mapping, el)
        else:
            ok = False
            continue
        # every alternative of the stored value is (derived from) this data set's rows
        for _, alt in alternatives(e.value):
            if e.key != key or not contains(alt, lambda y: y[0] == "sub" and y[1] == ("sub", DS, loc)):
                ok = False
    chk.require(ok and len(rets) == 1 and is_call(rets[0], ("zeros", "empty")) and
                call_arg(rets[0], 1, "dtype") == A(SELF, "_dtype"), "R11.3", "fields-filled-from-mapping",
                "the chunk (of the wrapper's dtype) is not filled field by field by iterating the channel mapping "
                "(field <- rows of the data set the mapping names for it)", lc.func.where)
    # every implementation that fills a chunk reads the rows of the data set itself: the only conversion on the way
    # into the chunk is numpy's assignment into the chunk field, identical for all source kinds - never a converting
    # view made by the source library (h5py's Dataset.astype saturates where numpy wraps, ...)
    for f in [c.methods["load_chunk"] for c in [base] + ix.subclasses(base) if "load_chunk" in c.methods]:
        fs = chk.summary(f)
        frets = [t for _, t, _ in fs.returns]
        for e in fs.stores(kind="store_sub"):
            if e.base not in frets:
                continue
            for _, alt in alternatives(e.value):
                for y in subterms(alt):
                    if y[0] != "sub" or not contains(y[1], DS) or y[1] == DS:
                        continue
                    for _c, b in alternatives(y[1]):
                        plain = b[0] == "sub" and b[1] == DS
                        chk.require(plain, "R11.3", f"rows-read-from-the-data-set-itself:{f.short}",
                                    f"{f.short} reads the rows through `{pp(b)[:70]}` instead of the data set itself: a "
                                    f"conversion made by the source library is not the one numpy applies to the other "
                                    f"source kinds", f.where, nontrivial=False)
    fr = ix.get_class("FrameItem")
    p = fr.lookup("channel_name_mapping")
    ps = chk.summary(p)
    chans = A(SELF, "channels", "value")
    cons = [c for _, t, _ in ps.returns for c in _dict_constructions(ps, t)]
    good = len(ps.returns) == 1 and len(cons) == 1 and cons[0][0] == chans and \
        match(A(Wild("e", lambda y: y[0] == "elem" and y[1] == chans), "name"), cons[0][1]) is not None and \
        match(A(Wild("e"), "dataset_name"), cons[0][2], match(A(Wild("e"), "name"), cons[0][1])) is not None
    chk.require(p.kind == "property" and not any("cache" in d for d in p.decorators) and good, "R11.3",
                "mapping-live-from-frame-channels", "the channel -> data set mapping is not recomputed from the frame's "
                "channels ({ch.name: ch.dataset_name}) on every use", p.where)
    dn = chk.summary(ix.get_class("ChannelItem").lookup("dataset_name"))
    want = ("ite", ("cmp", "is", A(SELF, "_dataset_name"), NONE), A(SELF, "name"), A(SELF, "_dataset_name"))
    chk.require([t for _, t, _ in dn.returns] == [want], "R11.3", "dataset-name-default",
                "a channel's data set name is not `its own data set name, or its name when none was given`",
                dn.func.where)
    from ._layout import frame_data_plan
    plan = frame_data_plan(chk)
    chk.floor("wrapper constructions", len(plan.alts), 2)
    fr_p = ("param", "fr")
    for _conds, c, callee, b in plan.alts:
        ok = callee is not None and b.get("mapping") == A(fr_p, "channel_name_mapping") and \
            b.get("from_idx") == ("param", "from_idx") and b.get("to_idx") == ("param", "to_idx")
        chk.require(ok, "R11.3", f"branch-passes-mapping-and-window:{call_name(c)}",
                    "a construction branch does not pass the frame's mapping and the row window", plan.func.where)


def _merge_parts(t):
    """Operands of a dict merge, in override order: a | b, {**a, **b}, dict(a, **b)."""
    if t[0] == "bin" and t[1] == "|":
        return _merge_parts(t[2]) + _merge_parts(t[3])
    if t[0] == "dict" and t[1] and all(k[0] == "dstar" for k, _ in t[1]):
        out = []
        for k, _ in t[1]:
            out += _merge_parts(k[1])
        return out
    return [t]


def r11_4_inline(chk):
    from ._layout import frame_data_plan
    from ..terms import raise_conditions
    plan = frame_data_plan(chk)
    mkf = plan.func
    data = ("param", "data")
    data_or_empty = ("ite", ("cmp", "is", data, NONE), ("dict", ()), data)
    inline = A(SELF, "_data_dict")
    ddw = chk.ix.get_class("DictDataWrapper")
    wr = [(c, callee, b) for _, c, callee, b in plan.alts if callee is not None and callee.cls is not None
          and (callee.cls is ddw or ddw in callee.cls.mro()) and callee.name == "__init__"]

    def merged(t):
        # the merge itself, or - when there are no inline data - the given dict alone (equal content)
        if t is None:
            return False
        if _merge_parts(t) == [inline, data_or_empty]:
            return True
        return t[0] == "ite" and t[1] == inline and _merge_parts(t[2]) == [inline, data_or_empty] and \
            t[3] == data_or_empty
    ok = bool(wr) and all(merged(b.get(callee.param_names[1])) for c, callee, b in wr)
    chk.require(ok, "R11.4", "dicts-merged", "inline data and the dict passed to write() are not merged (write-time data "
                "overriding) into the one dict wrapper", mkf.where)
    is_dict = ("call", ("global", "isinstance"), (data_or_empty, ("global", "dict")), ())
    ok = any(("not", is_dict) in pc and inline in pc for pc, _ in raise_conditions(plan.summ))
    chk.require(ok, "R11.4", "non-dict-with-inline-raises", "non-dict data together with inline channel data is "
                "accepted", mkf.where)
    add = chk.summary("LogicalFile", "add_channel")
    stores = [e for e in add.stores(kind="store_sub") if e.base == inline]
    chk.floor("inline data stores", len(stores), 1)
    chan = [c for _, t, _ in add.returns for _, c in alternatives(t)]
    for e in stores:
        chk.require(e.value == data, "R11.4", "inline-data-stored-verbatim",
                    f"add_channel stores `{pp(e.value)[:120]}` instead of the array it was given: inline data would "
                    f"differ from the same array supplied at write time (e.g. cast once with the dtype set at "
                    f"creation)", e.where)
        keys_ok = all(e.key == A(c, "dataset_name") or
                      (is_call(c) and e.key == call_arg(c, kw="dataset_name") and is_call(e.key, "_get_unique_dataset_name"))
                      for c in chan) and bool(chan)
        chk.require(keys_ok, "R11.4", "inline-data-keyed-by-dataset-name",
                    f"inline data are stored under `{pp(e.key)[:100]}`, not under the new channel's data set name",
                    e.where)
        chk.require(("cmp", "is not", data, NONE) in e.pc or not e.pc, "R11.4", "inline-data-stored-when-given",
                    "inline data are stored under a condition other than `data is not None`", e.where,
                    nontrivial=False)
