"""C11 - all data sources are equivalent and the row window selects exactly its rows.  (structural clauses)

R11.1 (BytesAI + siblings) every load_chunk implementation addresses the source with bounds produced by the one helper
      that adds the window offset and checks the range (C10 R10.5 proves the helper for all windows / chunks); __getitem__
      applies [from_idx:to_idx]; n_rows = to_idx - from_idx.
R11.2 (AST) dispatch totality of make_wrapper: dict / ndarray / path, anything else raises; HDF5 opened read-only; the
      leading-slash normalisation is idempotent.
R11.3 (AST) field order and the set of data sets read come from the frame's channel mapping in every construction
      branch, never from the source's own key order; the mappings are recomputed on every use.
R11.4 (reaching definitions) inline data and write(data=dict) are merged into one dict wrapper; non-dict data together
      with inline data raises; inline arrays are stored exactly as given (no early cast that later settings cannot undo).
Not decided: byte identity of whole files across source kinds.
"""

from __future__ import annotations

import ast

from .. import AnalysisError
from ..cfg import CFG
from ..common import norm, try_const, kw
from ..dataflow import ReachingDefs
from ..index import Scope, walk_local
from ..report import Check

LEVEL = "other"
EXPLANATION = ("Sibling agreement of the wrapper classes on how a chunk is addressed (window offset, bounds), dispatch "
               "totality, mapping-driven field order, and verbatim storage of inline data; the window arithmetic itself "
               "is proved for all windows and chunk sizes by C10 R10.5. Byte identity across source kinds follows only "
               "under numpy's semantics and is not decided.")


def run(chk):
    chk.guard(r11_1_window, chk)
    chk.guard(r11_2_dispatch, chk)
    chk.guard(r11_3_mapping, chk)
    chk.guard(r11_4_inline, chk)


def r11_1_window(chk):
    ix = chk.ix
    base = ix.get_class("SourceDataWrapper")
    helper = base.lookup("_get_chunk_slice")
    chk.require(helper is not None, "R11.1", "one-bounds-helper", "there is no single helper computing the chunk bounds",
                base.where)
    impls = [c.methods["load_chunk"] for c in [base] + ix.subclasses(base) if "load_chunk" in c.methods]
    chk.floor("load_chunk implementations", len(impls), 2)
    for f in impls:
        chk.consult(f)
        subs = [n for n in walk_local(f.node) if isinstance(n, ast.Subscript) and "_data_source" in norm(n.value)
                and not isinstance(n.ctx, ast.Store)]
        rd = ReachingDefs(f)
        for sub in subs:
            idx = sub.slice
            if isinstance(idx, ast.Name) and idx.id in ("loc", "key"):
                continue  # data set selection, not row selection
            at = rd.stmt_containing(sub)
            flows = rd.expand(idx, at)
            ok = any("_get_chunk_slice(start, stop)" in fl for fl in flows) and not isinstance(idx, ast.Slice)
            chk.require(ok, "R11.1", f"rows-addressed-through-helper:{f.short}:{norm(sub)[:40]}",
                        f"{f.short} addresses source rows with `{norm(idx)}`, not with the window-aware bounds helper: "
                        f"from_idx / to_idx are ignored on this path", f"{f.module.relpath}:{sub.lineno}")
        delegating = any(isinstance(n, ast.Call) and norm(n.func) == "super().load_chunk" for n in walk_local(f.node))
        chk.require(bool(subs) or delegating, "R11.1", f"reads-or-delegates:{f.short}", "load_chunk neither reads the "
                    "source nor delegates", f.where, nontrivial=False)
    from . import c10
    tmp = Check("C10", "quick", 0, chk.ix, chk.cg, quiet=True)
    c10.r10_5_tiling(tmp)
    for o in tmp.obs:
        o.rule = "R11.1"
        chk.obs.append(o)
    gi = base.lookup("__getitem__")
    chk.require("data[self._from_idx:self._to_idx]" in norm(gi.node), "R11.1", "getitem-windowed",
                "SourceDataWrapper.__getitem__ does not apply the row window", gi.where)
    init = base.lookup("__init__")
    s = norm(init.node)
    chk.require("self._n_rows = self._to_idx - self._from_idx" in s and
                "self._to_idx = to_idx if to_idx is not None else total_n_rows" in s, "R11.1", "n_rows=to-from",
                "the number of rows is not to_idx - from_idx (open end = all rows)", init.where)
    chk.require("if self._from_idx >= total_n_rows" in s and "if self._n_rows < 1" in s, "R11.1", "window-validated",
                "an empty or out-of-range window is accepted", init.where)


def r11_2_dispatch(chk):
    ix = chk.ix
    mw = ix.get_method("SourceDataWrapper", "make_wrapper")
    chk.consult(mw)
    s = norm(mw.node)
    for needle, what in (("if isinstance(source, dict)", "dict"), ("if isinstance(source, np.ndarray)", "ndarray"),
                         ("not in ('h5', 'hdf5')", "hdf5 path"), ("raise ValueError", "other paths raise"),
                         ("raise TypeError", "non path-like raises")):
        chk.require(needle in s, "R11.2", f"dispatch:{what}", f"make_wrapper no longer handles: {what}", mw.where,
                    nontrivial=False)
    h5 = ix.get_method("HDF5DataWrapper", "__init__")
    s = norm(h5.node)
    chk.require("h5py.File(data_file_name, 'r')" in s, "R11.2", "hdf5-read-only", "HDF5 source not opened read-only",
                h5.where)
    chk.require("f'/{v}' if not v.startswith('/') else v" in s, "R11.2", "slash-normalisation-idempotent",
                "data set paths are not normalised idempotently", h5.where)


def r11_3_mapping(chk):
    ix = chk.ix
    base = ix.get_class("SourceDataWrapper")
    lc = base.lookup("load_chunk")
    s = norm(lc.node)
    chk.require("for key, loc in self._mapping.items()" in s and "chunk[key] = self._data_source[loc][idx]" in s, "R11.3",
                "fields-filled-from-mapping", "chunk fields are not filled by iterating the channel mapping", lc.where)
    fr = ix.get_class("FrameItem")
    p = fr.lookup("channel_name_mapping")
    chk.require(p.kind == "property" and not any("cached" in d for d in p.decorators)
                and "{ch.name: ch.dataset_name for ch in self.channels.value}" in norm(p.node), "R11.3",
                "mapping-live-from-frame-channels", "the channel -> data set mapping is not recomputed from the frame's "
                "channels (current data set names) on every use", p.where)
    ch = ix.get_class("ChannelItem")
    dn = ch.lookup("dataset_name")
    chk.require("self._dataset_name if self._dataset_name is not None else self.name" in norm(dn.node), "R11.3",
                "dataset-name-default", "a channel's data set name does not default to its name", dn.where)
    mk = ix.get_method("LogicalFile", "_make_multi_frame_data")
    calls = [n for n in walk_local(mk.node) if isinstance(n, ast.Call) and kw(n, "mapping") is not None]
    chk.floor("wrapper constructions", len(calls), 2)
    for c in calls:
        ok = norm(kw(c, "mapping")) == "fr.channel_name_mapping" and norm(kw(c, "from_idx")) == "from_idx" \
            and norm(kw(c, "to_idx")) == "to_idx"
        chk.require(ok, "R11.3", f"branch-passes-mapping-and-window:{norm(c.func)[-28:]}",
                    "a construction branch does not pass the frame's mapping and the row window", f"{mk.module.relpath}:{c.lineno}")


def r11_4_inline(chk):
    ix = chk.ix
    mk = ix.get_method("LogicalFile", "_make_multi_frame_data")
    s = norm(mk.node)
    chk.require("if isinstance(data, dict)" in s and "self._data_dict | data" in s, "R11.4", "dicts-merged",
                "inline data and the dict passed to write() are not merged into one wrapper", mk.where)
    chk.require("if self._data_dict:" in s and "raise TypeError" in s, "R11.4", "non-dict-with-inline-raises",
                "non-dict data together with inline channel data is accepted", mk.where)
    add = ix.get_method("LogicalFile", "add_channel")
    chk.consult(add)
    rd = ReachingDefs(add)
    stores = [n for n in walk_local(add.node) if isinstance(n, ast.Assign)
              and any(isinstance(t, ast.Subscript) and "_data_dict" in norm(t.value) for t in n.targets)]
    chk.floor("inline data stores", len(stores), 1)
    for st in stores:
        at = rd.node_of(st)
        v = st.value
        defs = rd.reaching(v.id, at) if isinstance(v, ast.Name) else [v]
        ok = isinstance(v, ast.Name) and defs == ["param"]
        chk.require(ok, "R11.4", "inline-data-stored-verbatim",
                    f"add_channel stores `{[norm(d) if isinstance(d, ast.AST) else d for d in defs]}` instead of the array "
                    f"it was given: inline data would differ from the same array supplied at write time (e.g. cast "
                    f"once with the dtype set at creation)", f"{add.module.relpath}:{st.lineno}")
        key = st.targets[0].slice
        chk.require(norm(key) == "ch.dataset_name", "R11.4", "inline-data-keyed-by-dataset-name",
                    "inline data are not stored under the channel's data set name", f"{add.module.relpath}:{st.lineno}")
