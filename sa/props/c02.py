"""C02 - segmentation is lossless, ordered and correctly bracketed.

R02.1 (BytesAI) the slices emitted by the segmenter partition [0, S) in order: first slice starts at 0, each slice is
      [start, start+n) with n >= 1 inside the body, the next start is start+n (loop-carried) and the loop exits only
      when everything was emitted - proved at an arbitrary iteration under the inductive invariants the loop admits
      (`start + remaining == S` for the two-counter form, `start <= S` for a single position variable)
      =>  nothing dropped, duplicated or moved.
R02.2 (BytesAI) predecessor bit <=> start > 0, successor bit <=> start + n < S, on every path.
R02.3 (effects) the record kind, type byte and body are read-only after construction; the per-class type byte is
      stored on the receiver class and computed from that class's constant.
R02.5 (BytesAI, = C01 R01.5 c/d) padding flag <=> pad bytes, each holding the pad count, and declared size = emitted length:
      a reader never strips body bytes as padding.
R02.4 (inlined value-flow summary of the writer's entry method) what reaches the output buffer is produced inside
      `for record in <the records given>` and, nested in it, `for segment in <that record's bytes>.<segmenter>(...)` -
      the iterables themselves, not a sorted / reversed / sliced rearrangement; the body handed to the segmenter is the
      unmodified result of _make_body_bytes.
"""

from __future__ import annotations

import ast

from .. import AnalysisError
from ..absint import SeqV, IntV
from ..linarith import LinExpr, le, lt, ge, gt, eq, entails, infeasible_cached
from ..segmodel import SegmentModel
from ..common import norm, is_self_attr
from ..index import Scope, walk_local
from .c01 import segment_parts

LEVEL = "proof"
EXPLANATION = ("The partition argument (slices tile [0,S) in order), the first/last bracketing bits and the "
               "read-only-after-construction facts are discharged for all body lengths S and all accepted record "
               "lengths by inductive-invariant checking in the abstract interpreter plus effect and ordering rules; "
               "a refuted obligation carries a concrete (S, vrl) witness.")
TRUSTED = ["Python semantics of the modelled subset", "sa/absint.py, sa/linarith.py",
           "RP66 V1 section 2.2.2.1 (segment attribute bits 2 and 3: predecessor / successor)"]


def run(chk, model: SegmentModel = None):
    ix, cg = chk.ix, chk.cg
    from ..segmodel import shared_model
    m = model or shared_model(ix, cg)
    chk.trusted = TRUSTED
    chk.consult(m.segmenter, m.record_loop[0])
    for q in m.it.consulted:
        chk.consulted_functions.add(q)
    chk.info["loop"] = m.loop_reports
    S = m.S
    rep = m.loop_reports[0] if m.loop_reports else {}

    if m.error is None:
        chk.guard(_bytes_ai_part, chk, m, S, rep)
        chk.guard(_padding_part, chk, m)
    chk.guard(_structural_part, chk, m)


def _padding_part(chk, m):
    """R02.5: what a reader strips from the end of a segment is decided by the padding flag and the pad count in the last
    byte; if a segment without pad bytes carries the flag (or pad bytes do not hold their count), body bytes are taken for
    padding and the reassembled record is shorter than the one written (= the pad obligations of C01 R01.5, for every
    segment of every body length)."""
    from . import c01
    n0 = len(chk.obs)
    c01.r01_5_segments(chk, m)
    keep = []
    for o in chk.obs[n0:]:
        if o.key.startswith(("d-pad", "c-size==len")):
            o.rule = "R02.5"
            keep.append(o)
    chk.obs[n0:] = keep


def _bytes_ai_part(chk, m, S, rep):
    ix = chk.ix
    # ------------------------------------------------------------------ R02.1
    # names of the loop-carried variables by role: start = the slice's lower bound; remaining = S - start
    if rep.get("mode") == "inductive":
        invs = rep.get("invariants", [])
        # (which relations had to be proved depends on how the loop keeps its place - one position variable, or a
        #  position and a remaining count with `start + remaining == len(body)`; what is required are the obligations
        #  below - tiling, continuity, exit only when everything was emitted - at an arbitrary iteration)
        chk.info["loop_invariants"] = invs
    failed_exact = set()
    pending = {}
    order = sorted(range(len(m.yields)), key=lambda i: (not m.yields[i]["exact"], i))
    n_first = 0
    for k in order:
        y = m.yields[k]
        parts = segment_parts(y)
        if parts is None:
            raise AnalysisError("segment yield has an unexpected shape")
        size, head, sl, pad, seq = parts
        cons = y["cons"]
        tag = ("exact" if y["exact"] else "any-iteration") + f":{k}"
        base, lo, hi = sl[2]

        def ob(rule, name, cond, msg, extra, y=y, cons=cons, tag=tag):
            if cond:
                chk.ok(rule, f"{name}:{tag}", "", y["where"])
            elif y["exact"]:
                failed_exact.add(name)
                chk.fail(rule, f"{name}:{tag}", msg, y["where"], witness=SegmentModel.witness(cons, extra))
            elif name not in failed_exact:
                pending.setdefault(name, msg)
        ob("R02.1", "slice-of-the-body", sl[0] == "slice" and base == "param:body",
           f"the segment does not carry an in-bounds slice of the record body (found {sl[0]} of {base})", [])
        if sl[0] != "slice":
            continue
        ob("R02.1", "slice-nonempty", entails(cons, ge(hi - lo, 1)), "a segment can carry no body byte",
           [le(hi - lo, 0)])
        ob("R02.1", "slice-inside-body", entails(cons, ge(lo, 0)) and entails(cons, le(hi, S)),
           "segment slice can reach outside the body", [gt(hi, S)])
        # bracketing bits
        attr = head[1][2][0] if len(head) > 1 and head[1][0] == "pack:>B" else None
        if not (isinstance(attr, LinExpr) and attr.is_const()):
            continue
        a = int(attr.const)
        pred, succ = bool(a & 0x40), bool(a & 0x20)
        ob("R02.2", "predecessor-bit<=>start>0",
           entails(cons, ge(lo, 1)) if pred else entails(cons, eq(lo, 0)),
           f"predecessor bit is {int(pred)} but the slice start does not agree", [eq(lo, 0)] if pred else [ge(lo, 1)])
        ob("R02.2", "successor-bit<=>end<S",
           entails(cons, lt(hi, S)) if succ else entails(cons, eq(hi, S)),
           f"successor bit is {int(succ)} but the slice end does not agree", [eq(hi, S)] if succ else [lt(hi, S)])
        if y["exact"] and ("loop", "exact-iter", 1) not in y["st"].trace:
            # a segment produced in the first iteration must start at byte 0 of the body
            ob("R02.1", "first-slice-starts-at-0", entails(cons, eq(lo, 0)),
               "the first segment does not start at the first byte of the body", [ge(lo, 1)])
            n_first += 1
    chk.floor("first-segment paths", n_first, 2)
    # continuity: at the end of every iteration the carried start equals the end of the slice just emitted,
    # and the loop exits only when everything was consumed
    cont_seen = 0
    for e in m.iter_ends:
        _, where, head_vals, new_vals, cons, mode = e
        # the slice emitted in this iteration: find the yield whose constraints are a prefix of cons
        ys = [y for y in m.yields if _is_prefix(y["cons"], cons)]
        if not ys:
            continue
        y = ys[-1]
        parts = segment_parts(y)
        if parts is None or parts[2][0] != "slice":
            continue
        _, lo, hi = parts[2][2]
        carried = [v for v in new_vals.values() if isinstance(v, IntV)]
        ok = any(entails(cons, eq(v.e, hi)) for v in carried)
        cont_seen += 1
        if ok:
            chk.ok("R02.1", f"next-start==end-of-slice:{mode}:{cont_seen}", "", where, nontrivial=(cont_seen < 6))
        elif mode == "exact":
            failed_exact.add("continuity")
            chk.fail("R02.1", f"next-start==end-of-slice:{mode}:{cont_seen}",
                     "after a segment the splitter does not continue exactly where the segment ended "
                     "(bytes dropped or duplicated at the boundary)", where,
                     witness=SegmentModel.witness(cons))
        elif "continuity" not in failed_exact:
            pending.setdefault("continuity", "carried start differs from the end of the emitted slice")
    chk.floor("iteration ends checked for continuity", cont_seen, 4)
    # complete exact paths: the slices written, in order, chain 0 -> S (covers fast paths that bypass the generator)
    n_chain = 0
    for k, o in enumerate(m.seg_outs):
        if o.kind != "val" or any(t == ("loop", "inductive") for t in o.st.trace):
            continue
        cur = LinExpr.c(0)
        why = None
        for e in o.st.events:
            if e[0] != "vr-out":
                continue
            yy = m._segment_from_vr(e, True, o.st)
            parts = segment_parts(yy) if yy["value"] is not None else None
            if parts is None or parts[2][0] != "slice":
                why = "a visible record does not carry a slice of the body"
                break
            _, lo, hi = parts[2][2]
            if not entails(o.st.cons, eq(lo, cur)):
                why = f"a segment starts at {lo!r} but the bytes written so far end at {cur!r}"
                break
            cur = hi
        if why is None and not entails(o.st.cons, eq(cur, S)):
            why = f"the segments written end at byte {cur!r}, not at len(body)"
        n_chain += 1
        if why is not None:
            failed_exact.add("chain")
        chk.require(why is None, "R02.1", f"slices-chain-0..S:complete-path{k}",
                    f"on a complete path the segments do not tile the body in order: {why}", m.record_loop[0].where,
                    witness=SegmentModel.witness(o.st.cons) if why else None, nontrivial=(n_chain < 8))
    chk.floor("complete exact paths chain-checked", n_chain, 3)
    ex_seen = 0
    for e in m.loop_exits:
        _, where, vals, cons, mode = e
        ints = [v.e for v in vals.values() if isinstance(v, IntV)]
        ok = any(entails(cons, eq(x, S)) for x in ints)
        ex_seen += 1
        if ok:
            chk.ok("R02.1", f"exit-only-when-consumed:{mode}:{ex_seen}", "", where, nontrivial=(ex_seen < 4))
        elif mode == "exact":
            failed_exact.add("exit")
            chk.fail("R02.1", f"exit-only-when-consumed:{mode}:{ex_seen}",
                     "the splitting loop can stop before the whole body was emitted", where,
                     witness=SegmentModel.witness(cons))
        elif "exit" not in failed_exact:
            pending.setdefault("exit", "loop may exit with start != len(body)")
    chk.floor("loop exits checked", ex_seen, 2)
    for o in m.raises:
        if not any(t == ("loop", "inductive") for t in o.st.trace):
            failed_exact.add("raise")
    for name, msg in pending.items():
        if name not in failed_exact and not failed_exact and not chk.violations():
            raise AnalysisError(f"obligation {name} not discharged at an arbitrary iteration and no exact witness: {msg}")
    # raise paths are C15's business, but a raise that is reachable also loses the record: report it here as well
    for o in m.raises:
        exact = not any(t == ("loop", "inductive") for t in o.st.trace)
        if exact:
            chk.fail("R02.1", f"segmenter-raises:{o.where[1][:50]}", f"the segmenter can raise {o.exc}", o.where[0],
                     witness=SegmentModel.witness(o.st.cons))



def _structural_part(chk, m):
    ix, cg = chk.ix, chk.cg
    # ------------------------------------------------------------------ R02.3 read-only record facts
    lrb = m.lrb_cls
    init = lrb.lookup("__init__")
    fields = [t.attr for n in walk_local(init.node) if isinstance(n, ast.Assign) for t in n.targets
              if is_self_attr(t)]
    chk.floor("fields of the record-bytes wrapper", len(fields), 3)
    for f in ix.functions.values():
        if f is init:
            continue
        for n in walk_local(f.node):
            tg = n.targets if isinstance(n, ast.Assign) else ([n.target] if isinstance(n, (ast.AugAssign,
                                                                                            ast.AnnAssign)) else [])
            for t in tg:
                if isinstance(t, ast.Attribute) and t.attr in fields and f.cls is not None \
                        and (f.cls is lrb or lrb in f.cls.mro()):
                    chk.fail("R02.3", f"store:{f.short}.{t.attr}",
                             "a field of the record wrapper is modified after construction (segments of one record "
                             "could disagree)", f"{f.module.relpath}:{n.lineno}")
    chk.ok("R02.3", "wrapper-fields-read-only", f"fields {fields} are stored only in __init__", init.where)
    # type byte memo: stored on the receiver class from the receiver's constant
    meta = ix.get_class("LRMeta")
    prop = meta.lookup("lr_type_struct")
    chk.consult(prop)
    from ..terms import A as _A, contains as _contains, is_call as _is_call, call_arg as _call_arg, pp as _pp
    psum = chk.terms.inline(prop, 2)    # (the conversion may sit in a helper of the metaclass)
    recv = ("param", prop.param_names[0])
    sts = [e for e in psum.effects if e.kind == "store_attr"]
    ok = bool(sts) and all(e.base == recv and _contains(e.value, _A(recv, "logical_record_type")) for e in sts)
    chk.require(ok, "R02.3", "type-byte-memo-per-class",
                "the memoised record-type byte is not stored on / computed from the receiving class itself", prop.where)
    new = meta.lookup("__new__")
    resets = new is not None and any(isinstance(n, ast.Assign) and any(isinstance(t, ast.Attribute)
                                     and t.attr in {e.key for e in sts} for t in n.targets)
                                     for n in walk_local(new.node))
    chk.require(resets, "R02.3", "type-byte-slot-per-class",
                "subclasses no longer get their own (empty) type-byte slot, so they would inherit a parent's byte",
                meta.where)
    rab = ix.get_method("LogicalRecord", "represent_as_bytes")
    chk.consult(rab)
    from ..terms import SELF as _SELF, return_alternatives as _ra
    rs = chk.summary(rab)
    made = [t for _, t in _ra(rs)]
    good = bool(made)
    for t in made:
        body_arg = _call_arg(t, 0, "bts")
        kind = _call_arg(t, 2, "is_eflr")
        tb = _call_arg(t, 1, "lr_type_struct")
        good = good and _is_call(t, lrb.name) and _is_call(body_arg, "_make_body_bytes", 0) and body_arg[1][1] == _SELF \
            and kind == _A(_SELF, "is_eflr") and tb is not None and tb[0] == "attr" and tb[2] == "lr_type_struct"
    chk.require(good, "R02.3", "body-and-kind-passed-unmodified",
                "represent_as_bytes does not hand the unmodified body, the class's type byte and is_eflr to the "
                "segmenting wrapper", rab.where)

    # ------------------------------------------------------------------ R02.4 ordering in the writer loop
    # Over the value-flow summary of the writer's entry method (helpers and generator helpers of the writer looked
    # through): what reaches the output buffer is produced inside `for record in <the records given>` and, nested in
    # it, `for segment in <that record's bytes>.<segmenter>(...)` - the iterables themselves, not a sorted / reversed /
    # sliced / de-duplicated rearrangement of them.
    from ..terms import ctor_calls, call_recv, is_call as _is_call2, pp as _pp2, subterms as _subterms2
    entry = m.entry if getattr(m, "entry", None) is not None else m.record_loop[0]
    ws = chk.terms.inline(entry, 2, stop=lambda g: g.cls is not entry.cls or g.name == "__init__")
    bufs = ctor_calls(ws, chk.ix.get_class("BufferedOutput"))
    sinks = [e for e in ws.effects if e.kind == "call" and call_recv(e.value) in bufs and e.loops()]

    def unwrap(it, names):
        while it[0] == "call" and it[2] and ((it[1][0] == "global" and it[1][1].split(".")[-1] in names)):
            it = it[2][0]
        return it
    recs_p = ("param", entry.param_names[1]) if len(entry.param_names) > 1 else None
    ok_nest = ok_rec = ok_seg = bool(sinks)
    seen_iters = []
    for e in sinks:
        loops = e.loops()
        seen_iters.append([_pp2(lp[2])[:70] if isinstance(lp[2], tuple) else str(lp[2]) for lp in loops])
        if len(loops) != 2 or any(lp[0] != "for" for lp in loops):
            ok_nest = False
            continue
        outer, inner = loops
        o_it = unwrap(outer[2], ("progressbar", "iter", "list", "tuple"))
        ok_rec = ok_rec and o_it == recs_p
        i_it = unwrap(inner[2], ("iter", "list", "tuple"))
        rec_el = ("elem", outer[2], outer[1])
        seg_ok = _is_call2(i_it, m.segmenter.name) and call_recv(i_it) is not None and \
            _is_call2(call_recv(i_it), "represent_as_bytes", 0) and call_recv(call_recv(i_it)) == rec_el
        ok_nest = ok_nest and _is_call2(i_it) and any(x == rec_el for x in _subterms2(inner[2]))
        ok_seg = ok_seg and seg_ok
    where_ = f"{entry.module.relpath}:{entry.node.lineno}"
    chk.require(ok_nest, "R02.4", "segments-nested-in-record-loop",
                f"segments are not produced inside the loop over records from that record's own bytes ({seen_iters})",
                where_)
    chk.require(ok_rec, "R02.4", "record-order-preserved",
                f"records are not consumed in the order given (outer iterable: {[s_[0] for s_ in seen_iters if s_]})",
                where_)
    chk.require(ok_seg, "R02.4", "segment-order-preserved",
                f"segments are not consumed in the order the segmenter yields them "
                f"(inner iterable: {[s_[-1] for s_ in seen_iters if s_]})", where_)
    # between the visible-record builder and the file: the output buffer keeps the order (C10 R10.1 / R10.2)
    from . import c10
    from ..report import Check
    tmp = Check("C10", "quick", 0, chk.ix, chk.cg, quiet=True)
    c10.r10_1_buffer(tmp)
    for o in tmp.obs:
        if o.rule == "R10.2" or "copied-after-buffered-bytes" in o.key or "one-copy" in o.key:
            o.rule = "R02.4"
            chk.obs.append(o)
    if m.error is not None and not chk.violations():
        raise m.error


def _is_prefix(a, b) -> bool:
    return len(a) <= len(b) and all(x is y or x == y for x, y in zip(a, b))
