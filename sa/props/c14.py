"""C14 - output depends only on the current specification, not on process history.

A closed inventory of every mechanism by which history could reach the bytes; each item is matched to an obligation and an
un-inventoried new item is itself a violation until classified.

R14.1 value memos: no encoder is memoised on value equality (C06 R06.7); the one decorator cache left (`ushort`) is keyed
      by an int computed from booleans and weights.
R14.2 object memo `EFLRItem.obname`: every writer of the fields the memoised function reads (name, origin reference,
      copy number) invalidates it (all stores go through __setattr__, which drops the memo for exactly those keys).
R14.3 class memo (record type byte): per receiving class, from that class's constant (C02 R02.3).
R14.4 mode flag: saved / restored on every exit, single writer (C17 R17.1, R17.2).
R14.5 (provenance fixpoint, sa/stores.py) no value computed from an argument of write() is stored into an object that
      outlives the write; the stores found are the known finding F-STALE.
R14.6 (provenance fixpoint with nondeterminism sources) random / now / id / hash / environment values reach only the
      FILE-SET-NUMBER and CREATION-TIME defaults (when unset) and nothing on the byte path returns them; no set iteration.
R14.7 no module- or class-level mutable container is mutated after import.
R14.8 the memo inventory is closed: {ushort, EFLRItem.obname, LRMeta.lr_type_struct}; any other cache is a violation.
"""

from __future__ import annotations

import ast

from .. import AnalysisError
from ..common import Model, norm, try_const, is_self_attr
from ..effects import memo_sites, stores_in, module_level_mutables, receiver_classes, MUTATORS
from ..index import Scope, walk_local
from ..report import Check

LEVEL = "other"
EXPLANATION = ("Closed inventory of history-carrying mechanisms (caches, memoised properties, class/module-level state, "
               "the mode flag, stores into persistent objects on the write path, nondeterminism sources): each item "
               "found in the source is matched to an obligation; unknown items are violations. This removes every "
               "*mechanism* by which an earlier call could influence later bytes; byte equality with a fresh process "
               "as such is a runtime notion and is not decided. Carries known findings (values derived from the data "
               "of one write persist on the frame / channel objects).")

ALLOWED_MEMOS = {
    "decorator:ushort": "int key (sum of boolean * weight, 0..255); encoding of an int is a function of its value",
    "decorator:EFLRItem.obname": "invalidated by EFLRItem.__setattr__ for every field it reads (R14.2)",
    "manual:LRMeta.lr_type_struct:_lr_type_struct": "per class, from the class constant (R14.3)",
}

PER_WRITE_CLASSES = {"DLISWriter", "ByteWriter", "BufferedOutput", "MultiFrameData", "FrameData", "SourceDataWrapper",
                     "DictDataWrapper", "NumpyDataWrapper", "HDF5DataWrapper", "LogicalRecordBytes",
                     "SegmentAttributes", "SizedGenerator", "NoFormatFrameData"}

# stores into persistent objects that code reachable from DLISFile.write may perform: (function, target) -> verdict
WRITE_PATH_STORES = {
    # specification-derived, idempotent defaults (documented write-time additions)
    ("OriginItem._run_checks_and_set_defaults", "field_name.value"): "spec",
    ("LogicalFile._check_defining_origin_params", "file_id.value"): "spec",
    ("ChannelItem._run_checks_and_set_defaults", "element_limit.value"): "spec",
    ("ChannelItem._run_checks_and_set_defaults", "dimension.value"): "spec",
    ("ChannelItem._run_checks_and_set_defaults", "long_name.value"): "spec",
    ("ParameterItem._run_checks_and_set_defaults", "dimension.value"): "spec",
    ("ComputationItem._run_checks_and_set_defaults", "dimension.value"): "spec",
    ("DimensionedItem._check_or_set_value_dimensionality", "dimension.value"): "spec",
    # data-derived: values computed from the data of one write stay on the objects (known finding F-STALE)
    ("ChannelItem._set_dimension_from_data", "dimension.value"): "data",
    ("ChannelItem._set_dimension_from_data", "element_limit.value"): "data",
    ("ChannelItem._set_cast_dtype", "_cast_dtype"): "data",
    ("ReprCodeAttribute.set_from_dtype", "_value"): "data",
    ("FrameItem._setup_frame_params_from_data.<locals>.assign_if_none", "<key>"): "data",
    # generic setters reached through the above
    ("Attribute.value.setter", "_value"): "setter",
    ("Attribute.units.setter", "_units"): "setter",
    ("EFLRItem.__setattr__", "obname"): "memo-invalidation",
    ("EFLRItem.__setattr__", "__dict__"): "memo-invalidation",
    ("EFLRItem.__setattr__", "<key>"): "setter",
    ("LRMeta.lr_type_struct", "_lr_type_struct"): "memo",        # R14.3
    ("high_compatibility_mode", "high_compat_mode"): "mode-flag",  # R14.4
}

NONDET = ("random", "datetime.now", "time.time", "time.monotonic", "uuid", "os.environ", "getpid", "urandom")


def run(chk):
    chk.guard(r14_8_memo_inventory, chk)
    chk.guard(r14_2_obname, chk)
    chk.guard(r14_3_4_shared, chk)
    chk.guard(r14_5_write_path_stores, chk)
    chk.guard(r14_6_nondeterminism, chk)
    chk.guard(r14_7_global_containers, chk)
    chk.guard(r14_9_identity_from_current_state, chk)


# ---------------------------------------------------------------------------------------------------- R14.8 / R14.1
def r14_8_memo_inventory(chk):
    ix = chk.ix
    memos = memo_sites(ix)
    chk.info["memo_inventory"] = [m.key for m in memos]
    for m in memos:
        ok = m.key in ALLOWED_MEMOS
        chk.require(ok, "R14.8", f"memo:{m.key}",
                    f"{m.func.short} keeps a computed result across calls ({m.kind} cache '{m.detail}'): results of "
                    f"earlier calls / writes can leak into later output unless every input is part of the key and "
                    f"every writer invalidates", m.where, detail_ok=ALLOWED_MEMOS.get(m.key, ""))
    # the same idiom in one expression (`self._c = self._c or compute()`, `getattr(self, '_c', None) or ...`), found on
    # the value-flow summaries: a store into a field of the receiver whose value reads that very field as one of its
    # alternatives, the other being computed
    from ..terms import SELF, subterms, contains
    known_manual = {m.func for m in memos}
    for f in ix.functions.values():
        if not isinstance(f.node, ast.FunctionDef) or f.name in ("__init__", "__new__") or f.kind == "setter" \
                or f in known_manual:
            continue
        for e in chk.terms.summary(f).effects:
            if e.kind != "store_attr" or e.aug is not None or e.base not in (SELF, ("param", "cls")):
                continue
            own = ("attr", e.base, e.key)
            v = e.value
            reuse = (v[0] == "or" and own in v[1]) or (v[0] == "ite" and own in (v[2], v[3]))
            # ... or spread over statements, through locals and the instance dict: stored only where the field was found
            # unset, and the function hands back the field (or the value just stored)
            if not reuse and any(contains(l, own) for l in e.pc):
                fsum = chk.terms.summary(f)
                reuse = any(contains(t, own) or t == v for _, t, _ in fsum.returns)
            per_write = f.cls is not None and any(c.name in PER_WRITE_CLASSES for c in f.cls.mro())
            if reuse and not per_write and contains(v, lambda x: x[0] == "call"):
                key = f"manual:{f.short}:{e.key}"
                chk.require(key in ALLOWED_MEMOS, "R14.8", f"memo:{key}",
                            f"{f.short} keeps a computed result across calls (`{e.key}` is reused when already set): "
                            f"results of earlier calls / writes can leak into later output", e.where)
    # positive control for the zero-count direction is in sa/selftest (C14-b*)
    # R14.1: ushort is only called with the bit sum
    us = ix.find_function("ushort")
    if us is not None and any(m.func is us for m in memos):
        from ..terms import alternatives, call_arg, pp, is_call

        def int_typed(t):
            # an expression whose result is an int whatever the operands' types: sum(...) / int(...) / len(...),
            # int constants, and + * | & << of such
            if t[0] == "const":
                return type(t[1]) is int
            if is_call(t, ("sum", "int", "len")) and t[1][0] == "global":
                return True
            if t[0] == "bin" and t[1] in ("+", "*", "|", "&", "<<", "-"):
                return int_typed(t[2]) and int_typed(t[3])
            return False
        for caller in sorted({s.caller for s in chk.cg.callers_of(us)}, key=lambda f: f.short):
            summ = chk.summary(caller)
            for c in summ.all_calls("ushort"):
                arg = call_arg(c, 0)
                ok = arg is not None and all(int_typed(a) for _, a in alternatives(arg))
                chk.require(ok, "R14.1", f"ushort-key-is-int:{caller.short}",
                            f"the cached ushort() is called with `{pp(arg) if arg else '?'}`: keys that compare equal "
                            f"but encode differently (True / 1 / 1.0) could collide", caller.where)
    from . import c06
    n0 = len(chk.obs)
    c06.r06_7_no_memo(chk)
    for o in chk.obs[n0:]:
        o.rule = "R14.1"


# ---------------------------------------------------------------------------------------------------- R14.2
def r14_2_obname(chk):
    ix = chk.ix
    item = ix.get_class("EFLRItem")
    ob = item.lookup("obname")
    memoised = ob is not None and any("cached_property" in d for d in ob.decorators)
    if not memoised:
        chk.ok("R14.2", "obname-not-memoised", "OBNAME is recomputed on every use", item.where, nontrivial=False)
        return
    chk.consult(ob)
    # fields the memoised function reads (through write_struct_obname): resolved from the source
    wso = ix.get_function("write_struct_obname")
    read_props = {n.attr for n in walk_local(wso.node) if isinstance(n, ast.Attribute) and isinstance(n.value, ast.Name)
                  and n.value.id == wso.param_names[0]}
    fields = set()
    for p in read_props:
        g = item.lookup(p)
        if g is not None and g.kind == "property":
            for n in walk_local(g.node):
                if isinstance(n, ast.Attribute) and is_self_attr(n):
                    fields.add(n.attr)
        else:
            fields.add(p)
    chk.info["obname_reads"] = sorted(fields)
    sa = item.lookup("__setattr__")
    inval = set()
    if sa is not None:
        # value-flow summary of __setattr__: the effect that drops the memo (`__dict__.pop('obname', ...)` / del) and
        # the keys named by its path condition (module-level constants are resolved to their values)
        from ..terms import subterms, is_call
        ss = chk.summary(sa)
        key = ("param", sa.param_names[1])
        for e in ss.effects:
            drops = (e.kind == "call" and is_call(e.value, "pop") and e.value[2] and e.value[2][0] == ("const", "obname")) \
                or (e.kind == "del" and any(x == ("const", "obname") or (x[0] == "attr" and x[2] == "obname")
                                            for x in subterms(e.value)))
            if not drops:
                continue
            for l in e.pc:
                for x in subterms(l):
                    if x[0] == "cmp" and x[1] == "in" and x[2] == key and x[3][0] in ("tuple", "list", "set"):
                        inval |= {y[1] for y in x[3][1] if y[0] == "const"}
                    if x[0] == "cmp" and x[1] == "==" and x[2] == key and x[3][0] == "const":
                        inval.add(x[3][1])
    missing = sorted(f for f in fields if f not in inval)
    chk.require(not missing, "R14.2", "obname-invalidated-by-every-writer",
                f"the memoised OBNAME reads {sorted(fields)} but assignments to {missing} do not invalidate it: a renamed "
                f"/ re-originated object keeps its old identity bytes", (sa or ob).where)
    # no store bypasses __setattr__ (direct __dict__ writes / object.__setattr__) for those fields
    for f in ix.functions.values():
        for s in stores_in(f):
            if s.kind.startswith("dict:") and s.attr in fields | {"<dynamic>"} and f is not sa:
                chk.fail("R14.2", f"bypass:{f.short}", "an identity field is written through __dict__, bypassing the "
                         "memo invalidation", s.where)
            if s.kind == "setattr" and isinstance(s.node.func, ast.Attribute) and "object" in norm(s.node.func.value) \
                    and s.attr in fields:
                chk.fail("R14.2", f"bypass:{f.short}", "an identity field is written with object.__setattr__", s.where)


# ---------------------------------------------------------------------------------------------------- R14.3 / R14.4
def r14_3_4_shared(chk):
    from . import c17, c02
    tmp = Check("C17", "quick", 0, chk.ix, chk.cg, quiet=True)
    c17.run(tmp)
    for o in tmp.obs:
        if o.rule in ("R17.1", "R17.2", "R17.3"):
            o.rule = "R14.4"
            chk.obs.append(o)
    chk.consulted_functions |= tmp.consulted_functions
    # R14.3 via the structural part of C02 (no BytesAI needed)
    meta = chk.ix.get_class("LRMeta")
    prop = meta.lookup("lr_type_struct")
    from ..terms import A as _A, contains as _contains
    psum = chk.terms.inline(prop, 2)    # (the conversion may sit in a helper of the metaclass)
    recv = ("param", prop.param_names[0])
    sts = [e for e in psum.effects if e.kind == "store_attr"]
    ok = bool(sts) and all(e.base == recv and _contains(e.value, _A(recv, "logical_record_type")) for e in sts)
    chk.require(ok, "R14.3", "type-byte-memo-per-class",
                "the memoised record-type byte is not stored on / computed from the receiving class itself", prop.where)


# ---------------------------------------------------------------------------------------------------- R14.5
def write_path_stores(chk):
    """The store inventory of sa/stores.py for DLISFile.write (cached on the Check's term engine)."""
    te = chk.terms
    if getattr(te, "_wps", None) is None:
        from ..stores import WritePathStores
        te._wps = WritePathStores(chk.ix, chk.cg, te, chk.ix.get_method("DLISFile", "write"), PER_WRITE_CLASSES)
    return te._wps


def r14_5_write_path_stores(chk):
    """Every store into an object that outlives the write, made by code reachable from DLISFile.write, must hold a
    value computed from the specification alone.  A value computed from an argument of this write() (the data, the row
    window, chunk sizes, the file name) that is left on a specification object is still there at the next write - and
    after a failed one.  The inventory is semantic (object and field written, whatever function does it)."""
    w = write_path_stores(chk)
    for f in w.reach:
        chk.consult(f)
    chk.info["write_path_persistent_stores"] = sorted({f"{s.key}{' <- derived from write() arguments' if s.derived else ''}"
                                                       for s in w.stores})
    chk.info["write_derived_parameters"] = {f.short: sorted(ps) for f, ps in w.derived_params.items() if ps}
    chk.floor("functions reachable from DLISFile.write", len(w.reach), 120)
    chk.floor("persistent stores on the write path", len({s.key for s in w.stores}), 8)
    chk.floor("write-derived parameters found by the provenance fixpoint", sum(len(v) for v in w.derived_params.values()),
              40)
    seen = set()
    for s in sorted(w.stores, key=lambda x: (x.key, not x.derived)):
        if s.key in seen:
            continue
        seen.add(s.key)
        if s.derived:
            from ..terms import pp
            chk.fail("R14.5", f"data-derived-store:{s.key}",
                     f"{s.func.short} stores `{pp(s.value)[:90]}`, a value computed from the arguments of one write(), "
                     f"into {s.key} ({s.site}): it is still there at the next write (or after a failed one)", s.where)
        else:
            chk.ok("R14.5", f"store:{s.key}", "value computed from the specification / constants only", s.where,
                   nontrivial=False)


# ---------------------------------------------------------------------------------------------------- R14.6
def r14_6_nondeterminism(chk):
    """Where do values from nondeterminism sources (random, now, id, hash, environment, pid) end up?  The provenance
    engine of sa/stores.py is run over the whole package with those calls as sources: the only stores such a value may
    reach are the FILE-SET-NUMBER and CREATION-TIME defaults of an ORIGIN, each on a path where the attribute was found
    unset; and no function on the byte-producing path may return such a value directly."""
    from ..stores import WritePathStores
    from ..terms import pp, call_name, NONE
    ix = chk.ix

    def nondet(t):
        if t[0] != "call":
            return False
        fn = pp(t[1])
        return any(w in fn for w in NONDET) or fn in ("id", "hash")
    funcs = [f for f in ix.functions.values() if isinstance(f.node, (ast.FunctionDef, ast.AsyncFunctionDef))]
    w = WritePathStores(ix, chk.cg, chk.terms, funcs, PER_WRITE_CLASSES, sources={}, source_term=nondet)
    sites = []
    for f in funcs:
        for c in chk.terms.summary(f).all_calls():
            if nondet(c):
                sites.append((f, c))
    chk.info["nondeterminism_sites"] = sorted({f"{f.short}: {pp(c)[:60]}" for f, c in sites})
    chk.floor("nondeterminism sites", len(sites), 2)
    allowed = {"OriginItem.file_set_number.value", "OriginItem.creation_time.value"}
    hit = set()
    for s in w.stores:
        if not s.derived:
            continue
        target = ("attr", s.base, s.field)
        unset = any(l == ("cmp", "is", target, NONE) or l == ("not", target) for l in s.pc)
        hit.add(s.key)
        chk.require(s.key in allowed and unset, "R14.6", f"nondeterminism:{s.key}",
                    f"{s.func.short} stores `{pp(s.value)[:70]}` (from a nondeterminism source) into {s.key}"
                    f"{'' if s.key in allowed else ': allowed only for the FILE-SET-NUMBER / CREATION-TIME defaults'}"
                    f"{'' if unset else ' on a path that does not say the attribute was unset'}", s.where)
    write = ix.get_method("DLISFile", "write")
    reach = set(chk.cg.reachable([write]))
    # (id() / hash() used for identity tests - `id(x) in ids` - yield specification-determined booleans: for values
    # *returned* on the byte path only the genuinely external sources count; stores are judged with all sources)
    w_ret = WritePathStores(ix, chk.cg, chk.terms, funcs, PER_WRITE_CLASSES, sources={},
                            source_term=lambda t: nondet(t) and pp(t[1]) not in ("id", "hash"))
    for f in sorted(w_ret.derived_returns, key=lambda x: x.short):
        direct = any(nondet(c) for c in chk.terms.summary(f).all_calls())
        chk.require(f not in reach, "R14.6", f"nondeterminism-on-byte-path:{f.short}",
                    f"{f.short}, reachable from DLISFile.write, returns a value taken from a nondeterminism source",
                    f.where)
    for f, c in sites:
        # every source must be accounted for: it feeds an allowed store (through returns / helpers) or nothing
        chk.consult(f)
    chk.require(bool(hit & allowed), "R14.6", "nondeterminism-sources-feed-the-origin-defaults",
                "no nondeterminism source reaches the FILE-SET-NUMBER / CREATION-TIME defaults: the inventory is blind",
                "", nontrivial=False)
    # iteration over sets on the byte-producing path
    write = ix.get_method("DLISFile", "write")
    reach = chk.cg.reachable([write])
    for f in reach:
        for n in walk_local(f.node):
            it = n.iter if isinstance(n, ast.For) else None
            if it is not None and (isinstance(it, ast.Set) or (isinstance(it, ast.Call) and
                                                                isinstance(it.func, ast.Name) and it.func.id == "set")):
                chk.fail("R14.6", f"set-iteration:{f.short}", "iteration order of a set (hash dependent) on the "
                         "write path", f"{f.module.relpath}:{n.lineno}")


# ---------------------------------------------------------------------------------------------------- R14.7
def r14_7_global_containers(chk):
    ix = chk.ix
    glob = module_level_mutables(ix)
    chk.info["module_and_class_level_containers"] = [f"{m.name}:{(c.name + '.') if c else ''}{n}" for m, c, n, e in glob]
    names = {(c.name if c else None, n) for m, c, n, e in glob}
    plain = {n for m, c, n, e in glob}
    from ..common import import_time_registrars
    registrars = set()
    for m, c, n, e in glob:
        if c is None:
            registrars |= {(m.name, r) for r in import_time_registrars(ix, m, n)}
    for f in ix.functions.values():
        if any(f.module.name == mn and f.qualname.endswith(r) for mn, r in registrars):
            continue  # the inner function of a registry decorator: runs at import time only (see common.py)
        for s in stores_in(f):
            hit = False
            if s.attr in plain and isinstance(s.base, (ast.Name, ast.Attribute)):
                # ClassName.attr[...] = / self.attr.append(...) on a class-level container
                b = norm(s.base)
                if s.kind != "assign" and (b in {c for c, _ in names if c} or b in ("self", "cls")
                                           or b.endswith(".__class__")):
                    hit = (b in ("self", "cls") and f.cls is not None and
                           any((k.name, s.attr) in names for k in f.cls.mro())) or b in {c for c, _ in names if c}
            if hit:
                chk.fail("R14.7", f"class-container-mutated:{f.short}.{s.attr}",
                         "a class-level container is mutated at run time (process-wide state)", s.where)
        for n in walk_local(f.node):
            # module-level containers: name[...] = , name.append(...)
            if isinstance(n, (ast.Assign, ast.AugAssign, ast.Delete)):
                tg = n.targets if isinstance(n, (ast.Assign, ast.Delete)) else [n.target]
                for t in tg:
                    if isinstance(t, ast.Subscript) and isinstance(t.value, ast.Name) and (None, t.value.id) in names \
                            and t.value.id not in f.param_names:
                        chk.fail("R14.7", f"module-container-mutated:{f.short}.{t.value.id}",
                                 "a module-level container is mutated at run time", f"{f.module.relpath}:{n.lineno}")
            if isinstance(n, ast.Call) and isinstance(n.func, ast.Attribute) and n.func.attr in MUTATORS \
                    and isinstance(n.func.value, ast.Name) and (None, n.func.value.id) in names \
                    and n.func.value.id not in f.param_names and not _is_local(f, n.func.value.id):
                chk.fail("R14.7", f"module-container-mutated:{f.short}.{n.func.value.id}",
                         "a module-level container is mutated at run time", f"{f.module.relpath}:{n.lineno}")
            if isinstance(n, ast.Global):
                chk.fail("R14.7", f"global-statement:{f.short}", f"`global {', '.join(n.names)}` rebinds module state "
                         f"at run time", f"{f.module.relpath}:{n.lineno}")
    chk.ok("R14.7", "containers-inventoried", f"{len(glob)} module/class-level containers, none mutated after import",
           "", nontrivial=True)


def _is_local(f, name):
    for n in walk_local(f.node):
        if isinstance(n, ast.Name) and n.id == name and isinstance(n.ctx, ast.Store):
            return True
    return False


# ---------------------------------------------------------------------------------------------------- R14.9
def r14_9_identity_from_current_state(chk):
    """Copy numbers are a function of the names registered *now* (a scan of the set's item list), not of a separately
    kept tally that earlier renames / removals / rejected calls leave out of date (shared with C07 R07.1)."""
    from . import c07
    n0 = len(chk.obs)
    c07.r07_1_copy_numbers(chk)
    for o in chk.obs[n0:]:
        o.rule = "R14.9"
