"""C12 - fail-closed: a write either raises or yields a faithful, well-formed file.  (guard inventory)

A conjunction of guard-exists-and-dominates obligations, one per rejection the statement names:
R12.1 (inlined value-flow summaries) check_objects (origin, channels, frames present; channels registered; references) dominates record generation.
R12.2 (value-flow normal form of the chunk-dtype plan + CFG) per data set on the wrapper / loading path: lookup failure raises; dtype outside the table raises;
      more than 2 dimensions raises; the row counts of all mapped data sets are compared on their raw leading dimensions
      and a difference raises, before the first row is loaded.
R12.3 (shared) IDENT <= 255 / strict ASCII (C06 R06.3), UVARI range (C06 R06.2), no masking before pack (C06 R06.1),
      empty list either rejected or written with count 0 (C04 R04.2), big-endian on disk for every source order (C03 R03.2),
      fixed-width label / FILE-HEADER text fields are refused when too long, never written longer (C01 R01.1, C09 R09.4).
R12.4 (error discipline) every `except` handler in the package either raises on every path, or protects a pure probe
      (at most two statements that only bind locals / return and call effect-free things: nothing half-made can exist
      when the exception arrives), or is one of the reviewed handlers, keyed by owner, exception type and the number of
      statements it protects; any other swallowing handler, or a reviewed one that now covers more statements, is a
      violation.
R12.5 no warning / log call replaces one of the raises above.
R12.6 (shared, = C02 R02.1/2/4/5 + C10 R10.1-3) the transport below the records: segments partition each body in order with
      correct bracketing and padding, the output buffer and the byte writer hand on exactly those bytes.
"""

from __future__ import annotations

import ast

from .. import AnalysisError
from ..cfg import CFG, ENTRY, EXIT, header_expr
from ..common import norm, try_const
from ..index import Scope, walk_local, walk_expr
from ..report import Check

LEVEL = "other"
EXPLANATION = ("Inventory of the guards that make invalid input fail closed, each shown to exist and to dominate the "
               "point where it matters, plus a closed table of the exception handlers that do not re-raise. 'Decodes to "
               "content equal to the specification' as a whole is the conjunction of C03-C09 and is not decided here.")

# reviewed handlers that do not (always) raise: (function, exception types) -> (max statements in the try body, reason)
REVIEWED_HANDLERS = {
    # keyed by the class (or, for module-level functions, the function) and the exception type: private methods may be
    # renamed, the class and what is caught are the stable part
    ("Attribute", "ReprCodeConverter.ReprCodeError"): (1, "code inference failure is logged and yields 'no code'; "
                                                        "writing the value then fails in write_struct"),
    ("RepresentationCode", "ValueError"): (1, "probing by value, falls through to the final raise"),
    ("RepresentationCode", "KeyError"): (1, "probing by name, falls through to the final raise"),
    ("DTimeAttribute", "ValueError"): (1, "format probing loop; raises when no format fits"),
    ("DTimeAttribute", "self.DTimeFormatError"): (1, "float fallback only if allow_float, else re-raised"),
    ("HDF5DataWrapper", "TypeError"): (1, "closing the source file"),
    ("ValidatorEnum", "ValueError"): (1, "membership probe; non-members raise or warn below"),
    ("convert_maybe_numeric", "ValueError"): (1, "documented: returns the string unchanged if it is not numeric"),
}


# calls that only compute: a `try` that protects nothing else cannot leave anything half-done behind
_PURE_NAMES = {"int", "float", "str", "bool", "len", "next", "iter", "isinstance", "issubclass", "getattr", "hasattr", "repr",
               "type", "tuple", "list", "dict", "set", "frozenset", "min", "max", "abs", "round", "sorted", "enumerate",
               "zip", "range", "any", "all", "bytes"}
_PURE_ATTRS = {"strptime", "fromisoformat", "lower", "upper", "strip", "split", "startswith", "endswith", "get", "index",
               "find", "item", "format", "dtype", "iinfo", "finfo", "issubdtype", "encode", "decode", "isoformat"}


def _effect_free(chk, g, depth=2, _seen=None) -> bool:
    """Does the package function g (and what it calls, to `depth`) only compute: no stores, no deletions, no yields?"""
    _seen = _seen or set()
    if g in _seen:
        return True
    _seen.add(g)
    if g.is_generator():
        return False
    su = chk.terms.summary(g)
    for e in su.effects:
        if e.kind in ("store_attr", "store_sub", "del"):
            return False
    if depth <= 0:
        return not any(e.kind == "call" for e in su.effects)
    for n in walk_local(g.node):
        if isinstance(n, ast.Call) and not _pure_call(chk, g, n, depth - 1, _seen):
            return False
    return True


def _enum_like(chk, f, expr) -> bool:
    """Is `expr` (a name called like a constructor) an Enum class: the class itself, `cls` inside one, or a parameter
    annotated type[<Enum class>]?"""
    ix = chk.ix

    def is_enum_cls(c):
        return any(isinstance(b, str) and b.split(".")[-1] in ("Enum", "IntEnum", "Flag", "IntFlag") for k in c.mro()
                   for b in k.bases)
    if not isinstance(expr, ast.Name):
        return False
    owner = f
    while owner is not None:
        if owner.cls is not None and expr.id in ("cls", "self") and is_enum_cls(owner.cls):
            return True
        a = owner.node.args if hasattr(owner.node, "args") else None
        if a is not None:
            for p in a.posonlyargs + a.args + a.kwonlyargs:
                if p.arg == expr.id and p.annotation is not None:
                    src = ast.unparse(p.annotation)
                    if src.lower().startswith("type[") and src[5:-1].split(".")[-1] in ("Enum", "IntEnum"):
                        return True
                    inner = src[5:-1] if src.lower().startswith("type[") else None
                    if inner:
                        ent = ix.resolve_name(inner.split(".")[-1], owner.module)
                        if ent and ent[0] == "class" and is_enum_cls(ent[1]):
                            return True
        owner = owner.parent
    ent = ix.resolve_name(expr.id, f.module)
    return bool(ent and ent[0] == "class" and is_enum_cls(ent[1]))


def _pure_call(chk, f, n: ast.Call, depth=2, _seen=None) -> bool:
    ix = chk.ix
    try:
        targets = [t for t in ix.resolve_call(n, Scope(ix, f))[0] if hasattr(t, "node")]
    except Exception:  # noqa: BLE001
        targets = []
    if targets:
        return all(_effect_free(chk, t, depth, _seen) for t in targets)
    fn = n.func
    if isinstance(fn, ast.Name) and fn.id not in _PURE_NAMES:
        # a local bound to one of several pure callables (`parser = float if '.' in s else int`)
        leaves = []
        for a in walk_local(f.node):
            if isinstance(a, ast.Assign) and any(isinstance(t, ast.Name) and t.id == fn.id for t in a.targets):
                todo = [a.value]
                while todo:
                    x = todo.pop()
                    if isinstance(x, ast.IfExp):
                        todo += [x.body, x.orelse]
                    else:
                        leaves.append(x)
        # ... or a loop variable running over a table written out in the function
        tables = {t.id: a.value for a in walk_local(f.node) if isinstance(a, (ast.Assign, ast.AnnAssign))
                  for t in (a.targets if isinstance(a, ast.Assign) else [a.target])
                  if isinstance(t, ast.Name) and isinstance(getattr(a, "value", None), (ast.Tuple, ast.List))}
        for lp in walk_local(f.node):
            if isinstance(lp, ast.For) and isinstance(lp.target, (ast.Tuple, ast.List)):
                names = [t.id if isinstance(t, ast.Name) else None for t in lp.target.elts]
                if fn.id in names:
                    it = lp.iter if isinstance(lp.iter, (ast.Tuple, ast.List)) else tables.get(getattr(lp.iter, "id", None))
                    if it is not None and all(isinstance(r, (ast.Tuple, ast.List)) and len(r.elts) == len(names)
                                              for r in it.elts):
                        leaves += [r.elts[names.index(fn.id)] for r in it.elts]

        def pure_leaf(x):
            if isinstance(x, ast.Name):
                return x.id in _PURE_NAMES or _enum_like(chk, f, x)
            return isinstance(x, ast.Attribute) and x.attr in ("__getitem__", "__call__") and _enum_like(chk, f, x.value)
        if leaves and all(pure_leaf(x) for x in leaves):
            return True
    if isinstance(fn, ast.Name):
        return fn.id in _PURE_NAMES or _enum_like(chk, f, fn)
    if isinstance(fn, ast.Attribute):
        return fn.attr in _PURE_ATTRS
    return False


def _pure_probe(chk, f, t: ast.Try) -> bool:
    """The protected statements only compute (bind locals, return, call effect-free things): whatever the handler
    does with the exception, no half-made state and no output can have been produced before it."""
    for st in t.body:
        if isinstance(st, ast.Assign):
            if not all(isinstance(x, ast.Name) for x in st.targets):
                return False
        elif isinstance(st, ast.AnnAssign):
            if not isinstance(st.target, ast.Name):
                return False
        elif not isinstance(st, (ast.Expr, ast.Return, ast.Pass)):
            return False
        for n in ast.walk(st):
            if isinstance(n, (ast.Yield, ast.YieldFrom, ast.Await, ast.NamedExpr)):
                return False
            if isinstance(n, ast.Call) and not _pure_call(chk, f, n):
                return False
    return True


def _handler_owner(f):
    g = f
    while g.cls is None and g.parent is not None:
        g = g.parent
    return g.cls.name if g.cls is not None else g.name


def run(chk):
    chk.guard(r12_1, chk)
    chk.guard(r12_2_data_guards, chk)
    chk.guard(r12_3_shared, chk)
    chk.guard(r12_4_handlers, chk)
    from ._layout import transport_integrity
    chk.guard(transport_integrity, chk, "R12.6")


def r12_1(chk):
    from . import c17, c07
    tmp = Check("C17", "quick", 0, chk.ix, chk.cg, quiet=True)
    c17.run(tmp)
    for o in tmp.obs:
        if o.rule == "R17.6" and "check_objects" in o.key:
            o.rule = "R12.1"
            chk.obs.append(o)
    from ..terms import (SELF, A, NONE, K, contains, unroll_const_loops, pp, subterms, is_call)
    ix = chk.ix
    lf = ix.get_class("LogicalFile")
    co = lf.lookup("check_objects")
    chk.consult(co)
    cs = chk.terms.inline(co, 3, stop=lambda g: g.kind == "property")   # properties stay opaque: self.channels etc.
    raises = unroll_const_loops([(e.pc, e.value, e.ctx, e) for e in cs.effects if e.kind == "raise"])
    for prop, what in (("defining_origin", "no origin"), ("channels", "no channels"), ("frames", "no frames")):
        t = A(SELF, prop)
        hits = [e for pc, v, ctx, e in raises if not ctx and len(pc) >= 1 and
                (("not", t) in pc or ("cmp", "is", t, NONE) in pc) and
                all(l in (("not", t), ("cmp", "is", t, NONE)) or (l[0] != "not" and l[0] != "cmp" or True) for l in pc)]
        # the raise must not depend on anything but earlier completeness tests having passed
        hits = [e for pc, v, ctx, e in raises if not ctx and (("not", t) in pc or ("cmp", "is", t, NONE) in pc) and
                all(l in (("not", t), ("cmp", "is", t, NONE)) or (l[0] == "attr" and l[1] == SELF) or
                    (l[0] == "cmp" and l[1] == "is not" and l[2][0] == "attr" and l[2][1] == SELF and l[3] == NONE)
                    for l in pc)]
        chk.require(bool(hits), "R12.1", f"completeness:{what}", f"a logical file with {what} is not rejected by "
                    f"check_objects (no unconditional raise under `not self.{prop}`)", co.where)
    chk.ok("R12.1", "completeness-on-write-path", "decided on the inlined summary of check_objects", co.where,
           nontrivial=False)
    glr = ix.get_method("DLISFile", "generate_logical_records")
    chk.consult(glr)
    gs = chk.terms.inline(glr, 2, stop=lambda g: g.name in ("_make_multi_frame_data", "generator", "__init__"))
    lfs_t = A(SELF, "logical_files")
    ok = False
    for e in gs.effects:
        if e.kind != "raise" or len(e.loops()) != 1:
            continue
        it = e.loops()[0][2]
        if not (it == lfs_t or (is_call(it, "enumerate") and it[2] and it[2][0] == lfs_t)):
            continue
        for l in e.pc:
            if l[0] in ("cmp", "not") and contains(l, lambda x: x[0] == "attr" and x[2] == "defining_origin" and
                                                   contains(x[1], lambda y: y[0] == "elem" and y[1] == it)):
                if (l[0] == "cmp" and l[1] == "is" and l[3] == NONE) or l[0] == "not":
                    ok = len(e.pc) == 1
    chk.require(ok, "R12.1", "every-logical-file-has-origin",
                "a logical file without origin is not rejected before generation", glr.where)


def r12_2_data_guards(chk):
    from ..terms import SELF, A, K, is_call, call_arg, pp, subterms, contains, int_norm
    from ._layout import field_plan
    ix = chk.ix
    fp = field_plan(chk)
    dd = fp.func
    data = ("param", dd.param_names[0])
    loc = ("sub", fp.elem, K(1))
    missing = [r for r in fp.raises if any(c[0] == "except" and {"KeyError", "ValueError"} & set(c[2]) for c in r[2])
               or any(c[0] == "except" for c in r[2])]
    chk.require(bool(missing), "R12.2", "missing-dataset-raises", "a missing data set is not rejected (no raise in a "
                "handler around the look-up of the data set)", dd.where)
    # the dtype validated is the dtype that ends up in the chunk dtype, on every path
    ok = bool(fp.alts)
    for conds, tup in fp.alts:
        comps = tup[1] if tup[0] == "tuple" else ()
        gets = [x for x in subterms(comps[1]) if is_call(x, "get", 2)] if len(comps) > 1 else []
        ok = ok and len(gets) == 1 and any(call_arg(v, 0) == gets[0] for v in fp.validations)
    uncond = [e for e in fp.summary.effects if e.kind == "call" and is_call(e.value, "validate_numpy_dtype")]
    ok = ok and bool(uncond) and all(not e.pc for e in uncond)
    chk.require(ok, "R12.2", "unsupported-dtype-raises", "a data set dtype can enter the chunk dtype without being "
                "validated against the dtype table", dd.where)
    too_many = [pc for pc, _, _ in fp.raises if any(
        int_norm(l)[0] == "cmp" and int_norm(l)[1] == ">=" and int_norm(l)[3] == K(3) and int_norm(l)[2][0] == "attr"
        and int_norm(l)[2][2] == "ndim" for l in pc)]
    chk.require(bool(too_many), "R12.2", "more-than-2-dimensions-raises",
                "data sets with more than two dimensions are not rejected", dd.where)
    # row counts: before the first row is yielded, a raise conditioned on the raw leading dimensions of *all* mapped data
    # sets (inlined value-flow summary of the chunk generator and of the constructor)
    base = ix.get_class("SourceDataWrapper")
    DS, MAP = A(SELF, "_data_source"), A(SELF, "_mapping")

    def raw_dims(t):
        """-> list of (iterable, element term) for comprehensions over the mapping inside t"""
        out = []
        for x in subterms(t):
            if x[0] == "comp" and len(x[3]) == 1 and contains(x[3][0][1], lambda y: y == MAP or y == ("param", "mapping")):
                elt = x[2][1] if x[1] == "dict" else x[2]
                out.append((x[3][0][1], elt))
        return out

    def is_raw(elt):
        return (elt[0] == "sub" and elt[2] == K(0) and elt[1][0] == "attr" and elt[1][2] == "shape" and
                elt[1][1][0] == "sub" and contains(elt[1][1][1], lambda y: y == DS or y == ("param", "data_source"))) or \
            (is_call(elt, "len", 1) and elt[2][0][0] == "sub")
    guards = []
    for fn in (base.lookup("make_chunked_generator"), base.lookup("__init__")):
        if fn is None:
            continue
        chk.consult(fn)
        su = chk.terms.inline(fn, 2)
        first_yield = min((i for i, e in enumerate(su.effects) if e.kind == "yield"), default=len(su.effects))
        for i, e in enumerate(su.effects):
            if e.kind != "raise":
                continue
            dims = [d for l in e.pc for d in raw_dims(l)]
            if dims:
                guards.append((fn, i, first_yield, dims, e))
    chk.require(bool(guards), "R12.2", "row-count-guard-exists",
                "nothing compares the numbers of rows of the data sets of a frame (a shorter first data set truncates the "
                "others; a one-row data set is broadcast)", base.where)
    for fn, i, first_yield, dims, e in guards:
        ok = all(is_raw(elt) and (is_call(it, "values", 0) or is_call(it, "items", 0) or it in (MAP, ("param", "mapping")))
                 for it, elt in dims)
        chk.require(ok, "R12.2", f"row-counts-compared-raw:{e.func.short}",
                    f"the row-count guard compares `{[pp(elt)[:60] for _, elt in dims]}`, not the raw leading dimension of "
                    f"every mapped data set: longer data sets can be truncated silently", e.where)
        chk.require(i < first_yield, "R12.2", f"row-count-guard-before-first-row:{e.func.short}",
                    "rows can be loaded before the row counts were compared", fn.where)
    chk.floor("row-count guards", len(guards), 1)


def r12_3_shared(chk):
    from . import c06, c04, c03
    n0 = len(chk.obs)
    c06.r06_3_ident_ascii(chk)
    c06.r06_2_uvari(chk)
    from ..absint import Interp
    c06.r06_1_table(chk, Interp(chk.ix))
    c03.r03_2_byte_order(chk)
    # fixed-width text fields: a value too long for the storage unit label is refused, never written as a longer label
    # (C01 R01.1: exactly 80 bytes in field order on every non-raising path)
    from . import c01
    c01.r01_1_sul(chk, None)
    # ... and the same for the two fixed-width values of the FILE-HEADER object (C09 R09.4 / C04 R04.5)
    tmp9 = Check("C09", "quick", 0, chk.ix, chk.cg, quiet=True)
    from . import c09
    c09.r09_4_header(tmp9)
    for o in tmp9.obs:
        if o.key.startswith("file-header"):
            chk.obs.append(o)
    for o in chk.obs[n0:]:
        o.rule = "R12.3"
    tmp = Check("C04", "quick", 0, chk.ix, chk.cg, quiet=True)
    c04.r04_1_2_attribute(tmp)
    for o in tmp.obs:
        if "list0" in o.key or "single-valued" in o.key:
            o.rule = "R12.3"
            chk.obs.append(o)


def r12_4_handlers(chk):
    ix = chk.ix
    n = 0
    seen_reviewed = set()
    for f in ix.functions.values():
        for t in walk_local(f.node):
            if not isinstance(t, ast.Try):
                continue
            for h in t.handlers:
                n += 1
                types = norm(h.type) if h.type is not None else "<bare>"
                raises = any(isinstance(x, ast.Raise) for b in h.body for x in ast.walk(b))
                always = _always_raises(h.body)
                key_types = [norm(e) for e in h.type.elts] if isinstance(h.type, ast.Tuple) else [types]
                where = f"{f.module.relpath}:{h.lineno}"
                if always:
                    chk.ok("R12.4", f"handler-raises:{f.short}:{types}", "", where, nontrivial=False)
                    continue
                if len(t.body) <= 2 and _pure_probe(chk, f, t):
                    chk.ok("R12.4", f"handler-of-a-pure-probe:{f.short}:{types}",
                           "the protected statements only compute a value", where, nontrivial=False)
                    continue
                ok = True
                for kt in key_types:
                    rv = REVIEWED_HANDLERS.get((_handler_owner(f), kt))
                    if rv is None:
                        ok = False
                        chk.fail("R12.4", f"swallowing-handler:{f.short}:{kt}",
                                 f"`except {kt}` in {f.short} does not re-raise on every path and is not a reviewed "
                                 f"handler: an error can be swallowed and a wrong file written", where)
                    else:
                        seen_reviewed.add((f.short, kt))
                        body_stmts = sum(1 for _ in t.body)
                        chk.require(body_stmts <= rv[0], "R12.4", f"reviewed-handler-scope:{f.short}:{kt}",
                                    f"the reviewed handler `except {kt}` in {f.short} now protects {body_stmts} statements "
                                    f"(reviewed: {rv[0]}): it may swallow errors of code it was not reviewed for", where,
                                    detail_ok=rv[1])
    chk.floor("exception handlers in the package", n, 10)
    chk.info["handlers"] = n
    chk.info["reviewed_handlers_seen"] = sorted(f"{a}:{b}" for a, b in seen_reviewed)


def _always_raises(stmts) -> bool:
    for st in stmts:
        if isinstance(st, ast.Raise):
            return True
        if isinstance(st, ast.If):
            if _always_raises(st.body) and st.orelse and _always_raises(st.orelse):
                return True
    return False
