"""C12 - fail-closed: a write either raises or yields a faithful, well-formed file.  (guard inventory)

A conjunction of guard-exists-and-dominates obligations, one per rejection the statement names:
R12.1 (CFG) check_objects (origin, channels, frames present; channels registered; references) dominates record generation.
R12.2 (CFG + AST) per data set on the wrapper / loading path: lookup failure raises; dtype outside the table raises;
      more than 2 dimensions raises; the row counts of all mapped data sets are compared on their raw leading dimensions
      and a difference raises, before the first row is loaded.
R12.3 (shared) IDENT <= 255 / strict ASCII (C06 R06.3), UVARI range (C06 R06.2), no masking before pack (C06 R06.1),
      empty list either rejected or written with count 0 (C04 R04.2), big-endian on disk for every source order (C03 R03.2).
R12.4 (error discipline) every `except` handler in the package either raises or is one of the reviewed handlers, keyed
      by function, exception types and the statements it protects; a new swallowing handler, or a reviewed one that now
      covers more statements, is a violation.
R12.5 no warning / log call replaces one of the raises above.
"""

from __future__ import annotations

import ast

from .. import AnalysisError
from ..cfg import CFG, ENTRY, EXIT, header_expr
from ..common import norm, try_const
from ..index import Scope, walk_local, walk_expr
from ..report import Check

LEVEL = "other"
EXPLANATION = ("Inventory of the guards that make invalid input fail closed, each shown to exist and to dominate the "
               "point where it matters, plus a closed table of the exception handlers that do not re-raise. 'Decodes to "
               "content equal to the specification' as a whole is the conjunction of C03-C09 and is not decided here.")

# reviewed handlers that do not (always) raise: (function, exception types) -> (max statements in the try body, reason)
REVIEWED_HANDLERS = {
    ("Attribute._guess_repr_code", "ReprCodeConverter.ReprCodeError"): (1, "code inference failure is logged and yields 'no code'; "
                                                                       "writing the value then fails in write_struct"),
    ("RepresentationCode.get_member", "ValueError"): (1, "probing by value, falls through to the final raise"),
    ("RepresentationCode.get_member", "KeyError"): (1, "probing by name, falls through to the final raise"),
    ("DTimeAttribute.parse_dtime", "ValueError"): (1, "format probing loop; for/else raises when no format fits"),
    ("DTimeAttribute._convert_value", "self.DTimeFormatError"): (1, "float fallback only if allow_float, else re-raised"),
    ("HDF5DataWrapper.close", "TypeError"): (1, "closing the source file"),
    ("ValidatorEnum.make_converter.<locals>.converter", "ValueError"): (1, "membership probe; non-members raise or warn below"),
    ("convert_maybe_numeric", "ValueError"): (1, "documented: returns the string unchanged if it is not numeric"),
}


def run(chk):
    chk.guard(r12_1, chk)
    chk.guard(r12_2_data_guards, chk)
    chk.guard(r12_3_shared, chk)
    chk.guard(r12_4_handlers, chk)


def r12_1(chk):
    from . import c17, c07
    tmp = Check("C17", "quick", 0, chk.ix, chk.cg, quiet=True)
    c17.run(tmp)
    for o in tmp.obs:
        if o.rule == "R17.6" and "check_objects" in o.key:
            o.rule = "R12.1"
            chk.obs.append(o)
    ix = chk.ix
    lf = ix.get_class("LogicalFile")
    comp = lf.lookup("_check_completeness")
    chk.consult(comp)
    s = norm(comp.node)
    for needle, what in (("if not self.defining_origin", "no origin"), ("if not self.channels", "no channels"),
                         ("if not self.frames", "no frames")):
        ok = needle in s
        g = CFG(comp.node)
        br = [i for i in g.branch if needle[3:] in norm(g.stmt[i].test)]
        ok = ok and bool(br) and any(g.kind[x] == "raise" for x in g.reachable(g.branch[br[0]][0], exceptional=False))
        chk.require(ok, "R12.1", f"completeness:{what}", f"a logical file with {what} is not rejected", comp.where)
    co = lf.lookup("check_objects")
    chk.require(comp in chk.cg.callees(co), "R12.1", "completeness-on-write-path", "check_objects does not check "
                "completeness", co.where)
    glr = ix.get_method("DLISFile", "generate_logical_records")
    s = norm(glr.node)
    chk.require("if f.defining_origin is None" in s and "raise RuntimeError" in s, "R12.1", "every-logical-file-has-origin",
                "a logical file without origin is not rejected before generation", glr.where)


def r12_2_data_guards(chk):
    ix = chk.ix
    dd = ix.get_method("SourceDataWrapper", "determine_dtypes")
    chk.consult(dd)
    s = norm(dd.node)
    chk.require("except (ValueError, KeyError):" in s and "raise ValueError(f\"No dataset" in s, "R12.2",
                "missing-dataset-raises", "a missing data set is not rejected", dd.where)
    val = ix.get_method("ReprCodeConverter", "validate_numpy_dtype")
    calls = [n for n in walk_local(dd.node) if isinstance(n, ast.Call) and val in ix.resolve_call(n, Scope(ix, dd))[0]]
    loop = [n for n in walk_local(dd.node) if isinstance(n, ast.For)]
    ok = bool(calls) and bool(loop) and all(any(x is c for x in ast.walk(loop[0])) for c in calls)
    # every path through the loop body validates the dtype that ends up in the chunk dtype
    g = CFG(dd.node)
    vn = g.nodes_where(lambda s_: any(isinstance(c, ast.Call) and val in ix.resolve_call(c, Scope(ix, dd))[0]
                                      for c in walk_expr(header_expr(s_) or ast.Pass())))
    ap = g.nodes_where(lambda s_: isinstance(s_, ast.Expr) and isinstance(s_.value, ast.Call)
                       and norm(s_.value.func) == "dtypes.append")
    ok = ok and bool(ap) and all(g.dominated_by(a, vn) for a in ap)
    chk.require(ok, "R12.2", "unsupported-dtype-raises", "a data set dtype can enter the chunk dtype without being "
                "validated against the dtype table", dd.where)
    chk.require("if dset_row0.ndim > 2" in s and "raise RuntimeError" in s, "R12.2", "more-than-2-dimensions-raises",
                "data sets with more than two dimensions are not rejected", dd.where)
    # row counts
    base = ix.get_class("SourceDataWrapper")
    cands = [f for f in base.methods.values() if "shape[0]" in norm(f.node) and any(isinstance(n, ast.Raise)
                                                                                   for n in walk_local(f.node))
             and f.name not in ("__init__",)]
    init = base.lookup("__init__")
    in_init = "!= total_n_rows" in norm(init.node) and "raise" in norm(init.node)
    chk.require(bool(cands) or in_init, "R12.2", "row-count-guard-exists",
                "nothing compares the numbers of rows of the data sets of a frame (a shorter first data set truncates the "
                "others; a one-row data set is broadcast)", base.where)
    for f in cands:
        chk.consult(f)
        comps = [n for n in walk_local(f.node) if isinstance(n, (ast.DictComp, ast.SetComp, ast.ListComp, ast.GeneratorExp))
                 and "shape[0]" in norm(n)]
        raw = all(_is_raw_leading_dim(c.value if isinstance(c, ast.DictComp) else c.elt) for c in comps) and bool(comps)
        over_all = all("self._mapping.values()" in norm(c.generators[0].iter) or "mapping.values()" in
                       norm(c.generators[0].iter) for c in comps)
        chk.require(raw and over_all, "R12.2", f"row-counts-compared-raw:{f.short}",
                    f"the row-count guard compares `{[norm(c.value if isinstance(c, ast.DictComp) else c.elt) for c in comps]}`"
                    f", not the raw leading dimension of every mapped data set: longer data sets can be truncated silently",
                    f.where)
        gen = base.lookup("make_chunked_generator")
        g = CFG(gen.node)
        sc = Scope(ix, gen)
        gn = g.nodes_where(lambda s_: any(isinstance(c, ast.Call) and f in ix.resolve_call(c, sc)[0]
                                          for c in walk_expr(header_expr(s_) or ast.Pass())))
        ys = g.nodes_where(lambda s_: any(isinstance(x, (ast.Yield, ast.YieldFrom)) for x in walk_expr(s_))
                           and not isinstance(s_, (ast.If, ast.For, ast.While, ast.Try, ast.With)))
        chk.require(bool(gn) and bool(ys) and all(g.dominated_by(y, gn) for y in ys), "R12.2",
                    f"row-count-guard-before-first-row:{f.short}", "rows can be loaded before the row counts were compared",
                    gen.where)
    chk.floor("row-count guards", len(cands) + int(in_init), 1)


def _is_raw_leading_dim(e) -> bool:
    # <something>[loc].shape[0]   or   len(<something>[loc])
    if isinstance(e, ast.Subscript) and isinstance(e.value, ast.Attribute) and e.value.attr == "shape" \
            and try_const(e.slice) == 0:
        return True
    if isinstance(e, ast.Call) and isinstance(e.func, ast.Name) and e.func.id == "len" and len(e.args) == 1:
        return True
    return False


def r12_3_shared(chk):
    from . import c06, c04, c03
    n0 = len(chk.obs)
    c06.r06_3_ident_ascii(chk)
    c06.r06_2_uvari(chk)
    from ..absint import Interp
    c06.r06_1_table(chk, Interp(chk.ix))
    c03.r03_2_byte_order(chk)
    for o in chk.obs[n0:]:
        o.rule = "R12.3"
    tmp = Check("C04", "quick", 0, chk.ix, chk.cg, quiet=True)
    c04.r04_1_2_attribute(tmp)
    for o in tmp.obs:
        if "list0" in o.key or "single-valued" in o.key:
            o.rule = "R12.3"
            chk.obs.append(o)


def r12_4_handlers(chk):
    ix = chk.ix
    n = 0
    seen_reviewed = set()
    for f in ix.functions.values():
        for t in walk_local(f.node):
            if not isinstance(t, ast.Try):
                continue
            for h in t.handlers:
                n += 1
                types = norm(h.type) if h.type is not None else "<bare>"
                raises = any(isinstance(x, ast.Raise) for b in h.body for x in ast.walk(b))
                always = _always_raises(h.body)
                key_types = [norm(e) for e in h.type.elts] if isinstance(h.type, ast.Tuple) else [types]
                where = f"{f.module.relpath}:{h.lineno}"
                if always:
                    chk.ok("R12.4", f"handler-raises:{f.short}:{types}", "", where, nontrivial=False)
                    continue
                ok = True
                for kt in key_types:
                    rv = REVIEWED_HANDLERS.get((f.short, kt))
                    if rv is None:
                        ok = False
                        chk.fail("R12.4", f"swallowing-handler:{f.short}:{kt}",
                                 f"`except {kt}` in {f.short} does not re-raise on every path and is not a reviewed "
                                 f"handler: an error can be swallowed and a wrong file written", where)
                    else:
                        seen_reviewed.add((f.short, kt))
                        body_stmts = sum(1 for _ in t.body)
                        chk.require(body_stmts <= rv[0], "R12.4", f"reviewed-handler-scope:{f.short}:{kt}",
                                    f"the reviewed handler `except {kt}` in {f.short} now protects {body_stmts} statements "
                                    f"(reviewed: {rv[0]}): it may swallow errors of code it was not reviewed for", where,
                                    detail_ok=rv[1])
    chk.floor("exception handlers in the package", n, 10)
    chk.info["handlers"] = n
    chk.info["reviewed_handlers_seen"] = sorted(f"{a}:{b}" for a, b in seen_reviewed)


def _always_raises(stmts) -> bool:
    for st in stmts:
        if isinstance(st, ast.Raise):
            return True
        if isinstance(st, ast.If):
            if _always_raises(st.body) and st.orelse and _always_raises(st.orelse):
                return True
    return False
