"""C09 - each logical file has the mandated order: header, origin, sets, then data.

R09.1 (BytesAI, generator driven) for a storage unit with two logical files whose registries hold sets of several types in
      arbitrary insertion order, the records yielded by DLISFile.generator are, per logical file and in creation order of
      the logical files: its FILE-HEADER set, its ORIGIN sets (registration order), its other sets (registration order,
      FILE-HEADER / ORIGIN excluded), its no-format records, then its frame-data generators - all taken from that logical
      file's own registry.
R09.2 (CFG) the set registry never overwrites an existing (class, name) entry with another object.
R09.3 (BytesAI) a set without objects has an empty body and an empty body produces no segment (=> no record).
R09.4 (BytesAI) FILE-HEADER values: SEQUENCE-NUMBER right-justified in 10, ID left-justified in 65 (shared with C04).
R09.5 (tables + CFG) defining origin: add_origin forwards the header id as FILE-ID; the write path checks FILE-ID against
      the header id before anything is written; FILE-SET-NUMBER is assigned on every path of the origin's set-up; the
      defining origin is the first object of the logical file's own origin sets.
R09.6 (effects) the header / origin / set writers keep no memo of encoded bytes.
R09.7 (= C07 R07.3) what an indirectly formatted record refers to is an object of the same logical file (hence one of the
      sets written before the data): the write path checks membership for every reference, no-format objects included.
R09.8 (shared, = C02 R02.1/2/4/5 + C10 R10.1-3) the transport below the records: segments partition each body in order with
      correct bracketing and padding, the output buffer and the byte writer hand on exactly those bytes.
"""

from __future__ import annotations

import ast

from .. import AnalysisError
from ..absint import (Interp, State, SeqV, IntV, BoolV, ObjV, OpaqueV, StubV, NONE, TupleV, ClassV, Out)
from ..linarith import LinExpr, ge, le, eq, entails, infeasible_cached
from ..cfg import CFG, ENTRY, EXIT
from ..common import Model, norm, kw, is_self_attr
from ..effects import memo_sites
from ..index import Scope, walk_local
from ..report import Check

LEVEL = "proof"
EXPLANATION = ("The record generator is interpreted (generators inlined) on a symbolic storage unit with two logical "
               "files and shuffled registries; the yielded sequence is compared with the mandated order. Registry "
               "no-overwrite, the empty-set rule, the fixed-width header fields and the defining-origin checks are "
               "discharged on CFGs / by abstract interpretation for all field lengths.")
TRUSTED = ["sa/absint.py generator semantics", "CPython dict preserves insertion order",
           "RP66 V1 sections 5.1 / 5.2 (FILE-HEADER, ORIGIN)"]


def run(chk):
    chk.trusted = TRUSTED
    chk.guard(r09_1_order, chk)
    chk.guard(r09_2_registry, chk)
    chk.guard(r09_3_empty, chk)
    chk.guard(r09_4_header, chk)
    chk.guard(r09_5_origin, chk)
    chk.guard(r09_6_no_memo, chk)
    chk.guard(r09_7_referenced_objects_are_in_the_file, chk)
    from ._layout import transport_integrity
    chk.guard(transport_integrity, chk, "R09.8")


def r09_7_referenced_objects_are_in_the_file(chk):
    """A frame / channel / no-format object can only precede the records that refer to it if it is in the logical file
    at all: the generic membership check of C07 R07.3 (every reference-typed attribute and the object of every no-format
    record is required, on the write path, to be registered in the same logical file)."""
    from . import c07
    n0 = len(chk.obs)
    c07.r07_3_references(chk)
    for o in chk.obs[n0:]:
        o.rule = "R09.7"


def r09_1_order(chk):
    ix = chk.ix
    df = ix.get_class("DLISFile")
    gen = df.lookup("generator")
    chk.consult(gen)
    et = {n: ix.get_class(n) for n in ("FileHeaderSet", "OriginSet", "ChannelSet", "FrameSet", "ZoneSet", "AxisSet",
                                        "WellReferencePointSet", "PathSet")}
    lf_cls = ix.get_class("LogicalFile")
    fhi_cls = ix.get_class("FileHeaderItem")
    it = Interp(ix)
    st = State()

    def mkset(cls, tag, name=None):
        return st.new_obj(cls, tag=tag, fields={"set_name": NONE if name is None else
                                                SeqV("str", len(name), [("const", LinExpr.c(len(name)), name)],
                                                     const=name)})

    lfs, expect = [], []
    layouts = [
        # registration order deliberately not "origin first": zone, origin(named), channel, origin(default), frame
        # (WELL-REFERENCE shares the ORIGIN's logical record type OLR and PATH the FRAME's: the order is by set class,
        #  not by record type)
        [("ZoneSet", None), ("WellReferencePointSet", None), ("OriginSet", "B"), ("ChannelSet", None),
         ("OriginSet", None), ("PathSet", None), ("FrameSet", None)],
        [("ChannelSet", "X"), ("AxisSet", None), ("OriginSet", None), ("FrameSet", "X"), ("ChannelSet", None)],
    ]
    mfd_all = []
    for i, layout in enumerate(layouts):
        fh_set = mkset(et["FileHeaderSet"], f"lf{i}:FILE-HEADER")
        # sequence numbers deliberately decreasing: creation order, not header numbers, decides the file order
        fh_item = st.new_obj(fhi_cls, tag=f"lf{i}:fh-item", fields={
            "_parent": fh_set, "sequence_number": IntV(5 - i),
            "header_id": SeqV("str", 2, [("const", LinExpr.c(2), f"H{i}")], const=f"H{i}")})
        reg: dict = {}
        order_origin, order_other = [], []
        for cname, sname in layout:
            key = ("cls", et[cname].qualname)
            sobj = mkset(et[cname], f"lf{i}:{cname}:{sname}", sname)
            reg.setdefault(key, {})[sname] = sobj
        # registry: dict class -> dict name -> set (insertion ordered)
        reg_v = st.new_dict({k: st.new_dict(v) for k, v in reg.items()})
        for k, v in reg.items():
            for sname, sobj in v.items():
                (order_origin if k[1] == et["OriginSet"].qualname else order_other).append(sobj.tag)
        nf = [StubV(f"lf{i}:nofmt{j}") for j in range(2)]
        mfd = [TupleV([StubV(f"lf{i}:frame{f}:row{r}") for r in range(2)], True) for f in range(2)]
        mfd_all.append(st.new_list(mfd))
        lf = st.new_obj(lf_cls, tag=f"lf{i}", fields={"file_header_item": fh_item, "_eflr_sets": reg_v,
                                                      "_no_format_frame_data": st.new_list(nf)})
        lfs.append(lf)
        expect += [fh_set.tag] + order_origin + order_other + [x.tag for x in nf] + \
            [x.tag for m in mfd for x in m.items]
    dfo = st.new_obj(df, tag="file", fields={"logical_files": st.new_list(lfs)})
    outs = it.drive(gen, [dfo, st.new_list(mfd_all)], {}, st)
    done = [o for o in outs if o.kind == "val"]
    if len(done) != 1:
        raise AnalysisError(f"record generator: expected one complete path, got {[o.kind for o in outs]}")
    got = []
    for e in done[0].st.events:
        if e[0] == "yield":
            v = e[2]
            got.append(v.tag if hasattr(v, "tag") else repr(v))
    chk.info["yield_order"] = got
    # explicitly formatted part: exact order; indirectly formatted part (no-format and frame data): every source keeps
    # its own order and stays inside its logical file, the interleaving between sources is not mandated
    def is_iflr(t):
        return ":nofmt" in t or ":frame" in t

    def source(t):
        return t.rsplit(":row", 1)[0] if ":row" in t else t.split(":nofmt")[0] + ":nofmt"
    ok = True
    pos_g = pos_e = 0
    first_bad = 0
    for lfi in range(len(layouts)):
        ge_ = [t for t in got if t.startswith(f"lf{lfi}:")]
        ee_ = [t for t in expect if t.startswith(f"lf{lfi}:")]
        ok = ok and [t for t in ge_ if not is_iflr(t)] == [t for t in ee_ if not is_iflr(t)]
        # all EFLRs before the first IFLR
        firsts = [i for i, t in enumerate(ge_) if is_iflr(t)]
        if firsts:
            ok = ok and not any(not is_iflr(t) for t in ge_[firsts[0]:])
        for src in {source(t) for t in ee_ if is_iflr(t)}:
            ok = ok and [t for t in ge_ if is_iflr(t) and source(t) == src] == \
                [t for t in ee_ if is_iflr(t) and source(t) == src]
    # logical files contiguous and in creation order
    ok = ok and [t.split(":")[0] for t in got] == sorted(t.split(":")[0] for t in got) and len(got) == len(expect)
    first_bad = next((i for i, (a, b) in enumerate(zip(got, expect)) if a != b), min(len(got), len(expect)))
    chk.require(ok, "R09.1", "record-order-per-logical-file",
                f"the generator yields {got[first_bad:first_bad + 3]} where "
                f"{expect[first_bad:first_bad + 3]} is mandated (position {first_bad}; order per logical file must be "
                f"header, origin sets, other sets, no-format records, frame data - each in registration order)",
                gen.where, detail_ok=f"{len(got)} records in the mandated order for 2 logical files")
    for q in it.consulted:
        chk.consulted_functions.add(q)
    # the frame-data generators come from generate_logical_records, built per logical file in the same order:
    # what is handed to the generator is a list with one entry per logical file, in the order of self.logical_files,
    # each entry made of that logical file's own _make_multi_frame_data results
    from ..terms import SELF, A, K, contains, subterms, is_call, call_arg, pp, is_fresh_empty_list
    glr = df.lookup("generate_logical_records")
    chk.consult(glr)
    gs = chk.terms.inline(glr, 2, stop=lambda g: g.name in ("_make_multi_frame_data", "generator", "__init__"))
    lfs_t = A(SELF, "logical_files")

    def over_lfs(it):
        return it == lfs_t or (is_call(it, "enumerate") and it[2] and it[2][0] == lfs_t)

    def per_lf_entry(t, el):
        # a comprehension of <that logical file>._make_multi_frame_data(...) calls
        if t[0] != "comp" or t[1] != "list":
            return False
        e = t[2]
        return is_call(e, "_make_multi_frame_data") and e[1][0] == "attr" and contains(e[1][1], el)
    args = [call_arg(c, 0, "multi_frame_data_objects") for c in gs.all_calls("generator")]
    ok = bool(args)
    for a in args:
        if a is None:
            ok = False
        elif a[0] == "comp" and a[1] == "list" and len(a[3]) == 1 and over_lfs(a[3][0][1]) and not a[3][0][2]:
            el = [x for x in subterms(a[2]) if x[0] == "elem" and x[1] == a[3][0][1]]
            ok = ok and bool(el) and per_lf_entry(a[2], el[0])
        elif is_fresh_empty_list(chk.terms, glr, a):
            apps = [e for e in gs.effects if e.kind == "call" and is_call(e.value, "append") and e.value[1][1] == a
                    and contains(e.value, lambda x: is_call(x, "_make_multi_frame_data"))]
            ok = ok and len(apps) == 1 and not apps[0].pc and len(apps[0].loops()) == 1 and \
                apps[0].loops()[0][0] == "for" and over_lfs(apps[0].loops()[0][2]) and \
                per_lf_entry(apps[0].value[2][0], ("elem", apps[0].loops()[0][2], apps[0].loops()[0][1]))
        else:
            ok = False
    chk.require(ok, "R09.1", "frame-data-built-per-logical-file-in-order",
                "the per-logical-file lists of frame data handed to the record generator are not built with one entry per "
                "logical file, in creation order, from that logical file's own frame data", glr.where)


def r09_2_registry(chk):
    """Every store of a set into the registry happens on a path that established that the (class, name) slot was free
    (`name not in <slot dict>` / `<looked-up set> is None`) - read off the value-flow summaries of the registry class."""
    from ..terms import SELF, NONE, contains, pp, is_call
    ix = chk.ix
    reg = ix.get_class("EFLRSetsDict")
    n = 0
    # private helpers of the registry are judged through the methods that call them (the guard may sit in the caller)
    called_inside = {g for f0 in reg.methods.values() for g in chk.cg.callees(f0) if g.cls is reg}
    for name, f in reg.methods.items():
        if f.name.startswith("_") and not f.name.startswith("__") and f in called_inside:
            continue
        su = chk.terms.inline(f, 3, stop=lambda g: g.cls is not reg or g.name == "__init__")
        stores = [e for e in su.effects if e.kind == "store_sub" and contains(e.base, SELF)]
        for e in stores:
            n += 1
            slot, key = e.base, e.key
            free = [l for l in e.pc if (l[0] == "cmp" and l[1] == "not in" and l[2] == key and l[3] == slot) or
                    (l[0] == "cmp" and l[1] == "is" and l[3] == NONE and is_call(l[2], "get") and l[2][1][1] == slot
                     and l[2][2] and l[2][2][0] == key)]
            chk.require(bool(free), "R09.2", f"no-overwrite:{f.short}:{pp(slot)[:30]}",
                        f"{f.short} stores into {pp(slot)[:40]}[{pp(key)[:20]}] under {[pp(l)[:40] for l in e.pc]}: a set "
                        f"can be registered over an existing (class, name) entry - two sets of one type and name (or a "
                        f"lost set) in one logical file", e.where)
    chk.floor("registry stores", n, 2)


def r09_3_empty(chk):
    from . import c04
    n0 = len(chk.obs)
    c04.r04_1_other_components(chk)
    keep = [o for o in chk.obs[n0:] if o.rule == "R04.5"]
    for o in keep:
        o.rule = "R09.3"
    chk.obs[n0:] = keep
    # an empty body produces no record: the segmenter yields nothing for S = 0
    from ..segmodel import SegmentModel
    from ..segmodel import shared_model
    m = shared_model(chk.ix, chk.cg)
    if m.error is not None:
        raise m.error
    bad = [y for y in m.yields if y["exact"] and not infeasible_cached(list(y["cons"]) + [eq(m.S, 0)])]
    chk.require(not bad, "R09.3", "empty-body-no-record", "a record with an empty body is written as a (padding-only) "
                "segment", m.segmenter.where, witness={"S": 0})


def r09_4_header(chk):
    from . import c04
    from ..terms import subterms as subterms_, ctor_calls as ctor_calls_
    n0 = len(chk.obs)
    c04.r04_1_other_components(chk)
    keep = [o for o in chk.obs[n0:] if o.key.startswith("file-header")]
    for o in keep:
        o.rule = "R09.4"
    chk.obs[n0:] = keep
    chk.floor("FILE-HEADER obligations", len(keep), 2)
    # exactly one object in the FILE-HEADER set: the item registers itself once; LogicalFile builds one set per file
    lf = chk.ix.get_class("LogicalFile")
    init = lf.lookup("__init__")
    fhs = chk.ix.get_class("FileHeaderSet")
    isum = chk.terms.inline(init, 2, stop=lambda g: g.module is not init.module)   # (a helper may build the header)
    mk = ctor_calls_(isum, fhs)
    in_loop = [e for e in isum.effects if e.loops() and any(isinstance(t, tuple) and any(m_ in list(subterms_(t))
               for m_ in mk) for t in (e.base, e.value))]
    chk.require(len(mk) == 1 and not in_loop, "R09.4", "one-header-set-per-logical-file",
                "a logical file does not create exactly one FILE-HEADER set of its own", init.where)


def r09_5_origin(chk):
    ix, cg = chk.ix, chk.cg
    model = Model(ix)
    lf = ix.get_class("LogicalFile")
    add = lf.lookup("add_origin")
    chk.consult(add)
    ctor = [c for f, ic, c in model.add_methods() if f is add]
    if not ctor:
        raise AnalysisError("OriginItem construction not found in add_origin")
    from ..terms import (SELF, A, K, NONE, contains, is_call, call_arg, call_name, pp, attr_stores, raise_conditions,
                         subterms, first_of as _first_of)
    asum = chk.summary(add)
    from ..terms import ctor_calls as _cc, bound_arg as _ba
    octor = [c for c in _cc(asum, ix.get_class("OriginItem")) if _ba(chk.terms, asum, c, "file_id") is not None]
    fid = _ba(chk.terms, asum, octor[0], "file_id") if octor else None
    header_ids = (A(SELF, "file_header", "header_id"), A(SELF, "file_header_item", "header_id"))
    chk.require(fid in header_ids, "R09.5", "file-id-from-header",
                f"add_origin passes file_id={pp(fid) if fid else None}", add.where)
    co = lf.lookup("check_objects")
    cs = chk.terms.inline(co, 3)
    chk.consult(co)
    mism = [pc for pc, _ in raise_conditions(cs) if any(
        l[0] == "cmp" and l[1] == "!=" and contains(l, lambda x: x[0] == "attr" and x[2] == "file_id") and
        contains(l, lambda x: x[0] == "attr" and x[2] == "header_id") for l in pc)]
    no_origin = [pc for pc, _ in raise_conditions(cs) if any(
        (l[0] == "not" or (l[0] == "cmp" and l[1] == "is" and l[3] == NONE)) and contains(
            l, lambda x: (x[0] == "attr" and x[2] == "defining_origin") or _first_of(x) is not None) for l in pc)]
    chk.require(bool(mism) and bool(no_origin), "R09.5", "file-id-checked-against-header",
                "the defining origin's FILE-ID is no longer compared with the header id on the write path (raise on "
                "mismatch, raise when there is no origin)", co.where)
    chk.ok("R09.5", "check-on-write-path", "decided on the inlined summary of check_objects", co.where, nontrivial=False)
    # file set number assigned on every path of the origin's set-up: the stores under "FILE-SET-NUMBER is None" cover both
    # polarities of whatever else they depend on
    oi = ix.get_class("OriginItem")
    hook = oi.lookup("_set_defaults_at_init") or oi.lookup("__init__")
    hs = chk.terms.inline(hook, 3)
    chk.consult(hook)
    fsn = A(SELF, "file_set_number")
    unset = ("cmp", "is", A(fsn, "value"), NONE)
    sts = [e for obj, k, v, e in attr_stores(hs) if obj == fsn and k == K("value") and unset in e.pc]
    rest = [tuple(l for l in e.pc if l != unset) for e in sts]
    complete = any(not r for r in rest) or any(len(a) == 1 and len(b) == 1 and (a[0] == ("not", b[0]) or b[0] == ("not", a[0]))
                                               for a in rest for b in rest)
    chk.require(bool(sts) and complete, "R09.5", "file-set-number-always-present",
                "an origin can be left without FILE-SET-NUMBER (the defaults do not cover every path on which it is "
                "unset)", hook.where)
    base_init = ix.get_class("EFLRItem").lookup("__init__")
    called = hook.name == "__init__" or bool(chk.summary(base_init).all_calls(hook.name))
    chk.require(called, "R09.5", "defaults-hook-called", "the origin's default set-up is never called", base_init.where)
    # defining origin = first item of own origin sets
    from ..terms import SELF, A, K, NONE, contains, alternatives, return_alternatives, pp
    do = lf.lookup("defining_origin")
    ds = chk.terms.inline(do, 3)
    vals = [t for _, t in return_alternatives(ds) if t != NONE]
    from ..terms import first_of
    ok = bool(vals) and all(first_of(t) is not None and contains(first_of(t), A(SELF, "_eflr_sets")) and contains(
        first_of(t), lambda x: x[0] == "global" and x[1].endswith("OriginSet")) and not contains(
        first_of(t), lambda x: x[0] == "attr" and x[2] == "physical_file") for t in vals)
    chk.require(ok, "R09.5", "defining-origin-first-of-own-sets",
                f"the defining origin is `{[pp(t)[:60] for t in vals]}`, not the first object of the logical file's own "
                f"ORIGIN sets", do.where)


def r09_6_no_memo(chk):
    names = ("FileHeaderItem", "FileHeaderSet", "OriginItem", "OriginSet", "EFLRSet")
    memos = [m for m in memo_sites(chk.ix) if m.func.cls is not None and any(c.name in names for c in m.func.cls.mro()
                                                                            if c.name != "EFLRItem")
             and m.func.name != "obname"]
    for m in memos:
        chk.fail("R09.6", f"memo:{m.key}", f"{m.func.short} keeps encoded header / origin bytes across writes: a changed "
                 f"sequence number or id is not reflected in the next file", m.where)
    if not memos:
        chk.ok("R09.6", "header-writers-memo-free", "", "", nontrivial=False)
