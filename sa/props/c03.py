"""C03 - channel data round-trips bit-exactly, one numbered record per row.  (structural clauses)

R03.1 (AST + BytesAI) numbering 1..N, one record per row: the per-frame counter is reset when iteration starts,
      incremented by exactly one on the only path that produces a record, passed as the frame number, one `next()` of the
      row generator per record, stop condition counter >= n_rows; the record body is OBNAME(frame), UVARI(frame number),
      then one piece per slot in the row's own order.
R03.2 (reaching definitions) big-endian on disk whatever the source order: every field dtype of the chunk dtype is
      normalised to native byte order on every path (source dtypes and cast dtypes alike), and every slot is byte-swapped
      exactly once (copying form) when written.
R03.3 (tables) dtype <-> code <-> size table agrees with RP66 (8 rows); the accepted-dtype test is the key set of that
      table.
R03.4 (CFG) slot order = frame channel order: the guard comparing the frame's channel names with the chunk dtype's
      names dominates construction of every MultiFrameData; the mapping that fixes field order iterates the frame's
      channel list.
R03.5 (shared with C10 R10.5) chunking covers rows once, in order.
R03.6 (= C06 R06.2) the frame number's UVARI forms are exact.   R03.7 the source wrapper is built anew per write and frame.
R03.8 (= C11 R11.3) every chunk-filling load_chunk reads the rows of the data set itself, so the declared cast is the
      one numpy applies on assignment into the chunk field - for every source kind alike.
Not decided: bit-exact preservation through numpy's cast / copy, memory layouts inside numpy, what a reader decodes.
R03.10 (value flow) the declared cast is applied when the rows are written, not when the data are handed over: what
      add_channel keeps of the caller's `data` does not depend on the cast declared at that moment (the cast can be
      changed or removed through the channel's public setter before the file is written).
R03.9 (shared, = C02 R02.1/2/4/5 + C10 R10.1-3) the transport below the records: segments partition each body in order with
      correct bracketing and padding, the output buffer and the byte writer hand on exactly those bytes.
"""

from __future__ import annotations

import ast
import struct

from .. import AnalysisError
from ..cfg import CFG, ENTRY, EXIT, header_expr
from ..common import norm, try_const, is_self_attr
from ..dataflow import ReachingDefs
from ..effects import stores_in, memo_sites
from ..index import Scope, walk_local, walk_expr
from ..report import Check
from .. import rp66_ref as ref

LEVEL = "other"
EXPLANATION = ("Decides the structural clauses that are necessary for the round trip: record numbering and slot order, "
               "byte-order normalisation on every path to the chunk dtype plus exactly one copying swap per slot, the "
               "dtype/code/size table against RP66, the channel-order guard, chunk tiling (all n, all chunk sizes), and that "
               "the data handed to add_channel are kept unconverted (the cast is applied at write time). "
               "Bit patterns after numpy casts and the decoded values are not decided.")


def run(chk):
    chk.guard(r03_1_numbering, chk)
    chk.guard(r03_2_byte_order, chk)
    chk.guard(r03_3_table, chk)
    chk.guard(r03_4_slot_order, chk)
    chk.guard(r03_5_chunks, chk)
    chk.guard(r03_6_frame_number_encoding, chk)
    chk.guard(r03_7_fresh_wrapper, chk)
    chk.guard(r03_8_one_conversion, chk)
    chk.guard(r03_10_cast_at_write, chk)
    from ._layout import transport_integrity
    chk.guard(transport_integrity, chk, "R03.9")


def r03_8_one_conversion(chk):
    """The declared cast is applied once and by numpy, when the source rows are assigned into the chunk field of the
    declared dtype: every chunk-filling implementation reads the rows of the data set itself (= C11 R11.3), so no source
    kind converts the values a second, different way (h5py's converting views saturate where numpy wraps)."""
    from . import c11
    tmp = Check("C11", "quick", 0, chk.ix, chk.cg, quiet=True)
    c11.r11_3_mapping(tmp)
    for o in tmp.obs:
        if o.key.startswith(("rows-read-from-the-data-set-itself", "fields-filled-from-mapping")):
            o.rule = "R03.8"
            chk.obs.append(o)
    chk.consulted_functions |= tmp.consulted_functions


def r03_10_cast_at_write(chk):
    """add_channel keeps the caller's data as they are: no kept value that is derived from `data` also depends on the
    cast declared in the same call (parameter or channel attribute).  The cast belongs to the write (R03.8): the channel's
    cast_dtype setter is public, so a conversion frozen at add time is the wrong one when the cast changes later."""
    from ..terms import SELF, contains, pp
    lf = chk.ix.get_class("LogicalFile")
    add = lf.lookup("add_channel")
    if add is None:
        raise AnalysisError("LogicalFile.add_channel not found")
    chk.consult(add)
    su = chk.terms.inline(add, 2, stop=lambda g: g.module is not add.module)
    data = ("param", "data")

    def is_cast(x):
        return (x == ("param", "cast_dtype")) or (isinstance(x, tuple) and len(x) == 3 and x[0] == "attr" and
                                                  isinstance(x[2], str) and x[2].lstrip("_") == "cast_dtype")
    kept = [e for e in su.effects if e.kind in ("store_sub", "store_attr") and contains(e.base, SELF) and
            e.value is not None and contains(e.value, data)]
    chk.floor("stores of the channel data in add_channel", len(kept), 1)
    for e in kept:
        chk.require(not contains(e.value, is_cast), "R03.10", f"data-kept-unconverted:{pp(e.base)[:40]}",
                    f"add_channel keeps `{pp(e.value)[:90]}`: the data are converted with the cast declared at that "
                    f"moment, so a cast changed or removed before write() is not the one the file shows", e.where)


def _numbering_generator_form(chk, mfd, it_):
    """MultiFrameData.__iter__ written as a generator: every yielded FrameData is numbered by one enumeration,
    starting at 1, of the row generator over *all* rows (a numbering that restarts per chunk is refuted)."""
    from ..terms import SELF, A, K, is_call, call_arg, contains, pp, bound_arg
    su = chk.terms.inline(it_, 2)
    ys = [(pc, t, ctx) for pc, t, n, ctx in su.yields]
    chk.floor("frame data yields", len(ys), 1)
    for pc, t, ctx in ys:
        loops = [c for c in ctx if c[0] in ("for", "while")]
        ok = is_call(t, "FrameData") and len(loops) == 1 and loops[0][0] == "for"
        detail = "a record is produced outside the single loop over the rows"
        if ok:
            it = loops[0][2]
            el = ("elem", it, loops[0][1])
            rows = it[2][0] if is_call(it, "enumerate") and it[2] else None
            start = call_arg(it, 1, "start") if rows is not None else None
            num, slots = bound_arg(chk.terms, su, t, "frame_number"), bound_arg(chk.terms, su, t, "slots")
            ok = rows is not None and start == K(1) and is_call(rows, "make_chunked_generator") and \
                num == ("sub", el, K(0)) and slots == ("sub", el, K(1)) and bound_arg(chk.terms, su, t, "frame") == A(SELF, "_frame")
            detail = f"frame number `{pp(num) if num else '?'}` over `{pp(it)[:60]}`"
        chk.require(ok, "R03.1", "frame-number-counts-all-rows-from-1",
                    f"the records are not numbered 1..N over all rows of the frame in order ({detail})", it_.where)
    # body layout and memo rules are shared with the iterator form
    return True


def r03_1_numbering(chk):
    ix = chk.ix
    mfd = ix.get_class("MultiFrameData")
    it_, nx = mfd.lookup("__iter__"), mfd.lookup("__next__")
    if it_ is None:
        raise AnalysisError("MultiFrameData.__iter__ not found")
    if nx is None and it_.is_generator():
        chk.consult(it_)
        _numbering_generator_form(chk, mfd, it_)
        _r03_1_body(chk)
        return
    if nx is None:
        raise AnalysisError("MultiFrameData is neither an iterator (__next__) nor a generator-based iterable")
    chk.consult(it_, nx)
    g = CFG(nx.node)
    incs = g.nodes_where(lambda s: isinstance(s, ast.AugAssign) and is_self_attr(s.target) and isinstance(s.op, ast.Add)
                         and try_const(s.value) == 1)
    chk.require(len(incs) == 1, "R03.1", "counter-incremented-by-one-once",
                f"the frame counter is incremented {len(incs)} times per record (or not by 1)", nx.where)
    if len(incs) != 1:
        return
    inc = next(iter(incs))
    counter = g.stmt[inc].target.attr
    rets = g.nodes_where(lambda s: isinstance(s, ast.Return) and s.value is not None)
    ok = bool(rets) and all(g.dominated_by(r, {inc}) for r in rets) and \
        g.must_pass_through({inc}, ENTRY, EXIT, exceptional=False)
    chk.require(ok, "R03.1", "every-record-counts", "a record can be produced without incrementing the frame counter "
                "(or the counter is incremented without producing a record)", nx.where)
    from ..terms import SELF, A, K, is_call, call_arg, pp, return_alternatives, raise_conditions, contains, bound_arg
    ns = chk.summary(nx)
    made = [t for _, t in return_alternatives(ns)]
    numbers = [bound_arg(chk.terms, ns, t, "frame_number") for t in made]
    ok = bool(made) and all(is_call(t, "FrameData") and n_ == A(SELF, counter) for t, n_ in zip(made, numbers))
    chk.require(ok, "R03.1", "frame-number-is-the-counter",
                f"the frame number written is `{[pp(n_ or t)[:40] for t, n_ in zip(made, numbers)]}`, not the "
                f"counter", nx.where)
    rows_taken = [bound_arg(chk.terms, ns, t, "slots") for t in made if is_call(t, "FrameData")]
    ok = bool(rows_taken) and all(r is not None and is_call(r, "next", 1) and r[1] == ("global", "next") and
                                  r[2][0][0] == "attr" and r[2][0][1] == SELF for r in rows_taken)
    chk.require(ok, "R03.1", "one-row-per-record",
                f"a record does not take exactly the next row of the frame's row generator "
                f"({[pp(r)[:40] if r else None for r in rows_taken]})", nx.where)
    stops = [pc for pc, exc in raise_conditions(ns) if contains(exc, lambda x: x == ("global", "StopIteration"))]
    n_rows = [A(SELF, "_data_source", "n_rows"), ("call", ("global", "len"), (SELF,), ())]
    ok = len(stops) >= 1 and all(any(l[0] == "cmp" and l[1] == ">=" and l[2] == A(SELF, counter) and l[3] in n_rows
                                     for l in pc) for pc in stops)
    chk.require(ok, "R03.1", "stops-after-n-rows", f"iteration does not stop exactly after n_rows records "
                f"({[[pp(l)[:40] for l in pc] for pc in stops]})", nx.where)
    resets = [s for s in stores_in(it_) if s.attr == counter and try_const(s.value) == 0]
    chk.require(bool(resets), "R03.1", "counter-reset-per-iteration", "the frame counter is not reset when iteration "
                "starts: a second write would continue the numbering", it_.where)
    _r03_1_body(chk)


def _r03_1_body(chk):
    ix = chk.ix
    # body layout (value-flow normal form of FrameData._make_body_bytes: helpers and temporaries looked through)
    from ..terms import SELF, A, is_call, call_arg, pp
    from ._layout import row_body
    rb = row_body(chk)
    body = rb.func

    def is_frame_number(t):
        if is_call(t, "write_struct_uvari", 1):
            return t[2][0] == A(SELF, "_frame_number")
        # the UVARI emitter inlined: every branch packs the frame number (C06 R06.2 decides the forms)
        from ..terms import alternatives, contains
        alts = [a for _, a in alternatives(t)]
        return len(alts) == 3 and all(is_call(a, "convert") and contains(a, A(SELF, "_frame_number")) for a in alts)
    ok = len(rb.head) == 2 and rb.head[0] == A(SELF, "_frame", "obname") and is_frame_number(rb.head[1])
    chk.require(ok, "R03.1", "body-starts-obname-then-frame-number",
                f"the FDATA body starts with {[pp(p)[:40] for p in rb.head[:2]]}", body.where)
    ok = len(rb.pieces) >= 1 and all(p[0] == A(SELF, "_slots") for p in rb.pieces) and not rb.tail
    chk.require(ok, "R03.1", "one-piece-per-slot-in-row-order",
                "the slots of the row are not appended one by one in the row's own order", body.where)
    for m in memo_sites(ix):
        if m.func.cls is not None and m.func.cls.name in ("FrameData", "MultiFrameData"):
            chk.fail("R03.1", f"memo:{m.key}", "frame data bytes / rows are memoised", m.where)


def r03_2_byte_order(chk):
    from ..terms import SELF, A, K, is_call, call_arg, pp, subterms, contains
    from ._layout import field_plan, row_body
    fp = field_plan(chk)
    chk.floor("field descriptor alternatives in determine_dtypes", len(fp.alts), 1)
    for conds, tup in fp.alts:
        comps = tup[1] if tup[0] == "tuple" else ()
        nt = comps[1] if len(comps) > 1 else None
        ok = nt is not None and is_call(nt, "newbyteorder", 1) and nt[2][0] in (K("="), K("N"), K("native")) and \
            nt[1][0] == "attr" and is_call(nt[1][1], "dtype", 1)
        chk.require(ok, "R03.2", f"field-dtype-native-on-every-path:{pp(nt)[:40] if nt else '?'}",
                    f"a field dtype can reach the chunk dtype without being normalised to native byte order "
                    f"(`{pp(nt)[:70] if nt else ''}`): FrameData swaps unconditionally, so big-endian 2-D data would be "
                    f"written little-endian", fp.func.where)
    # FrameData: every slot swapped exactly once, copying form
    rb = row_body(chk)
    body = rb.func
    ok = len(rb.pieces) >= 1
    for it, el, piece in rb.pieces:
        swaps = [x for x in subterms(piece) if is_call(x, "byteswap")]
        ok = ok and is_call(piece, "tobytes", 0) and len(swaps) == 1 and piece[1][1] == swaps[0] and \
            swaps[0][1][1] == el
        for sw in swaps:
            inpl = sw[2] or any(k == "inplace" for k, _ in sw[3])
            chk.require(not inpl, "R03.2", f"copying-swap:{pp(sw)[:40]}", "in-place byte swap", body.where,
                        nontrivial=False)
    chk.require(ok, "R03.2", "each-slot-swapped-once",
                "a slot's bytes are emitted without (or with more than) one byte swap", body.where)
    # the zero-copy path hands the caller's rows over without normalising them: only exact dtype equality (which
    # includes the byte order) makes that safe  (shared with C08 R08.5)
    from . import c08
    n0 = len(chk.obs)
    c08.r08_5_record_layout(chk)
    keep = [o for o in chk.obs[n0:] if o.key == "zero-copy-only-for-identical-dtype"]
    for o in keep:
        o.rule = "R03.2"
    chk.obs[n0:] = keep


def _dtype_component_flows(rd, tup, at):
    """Source texts of every definition that can flow into the dtype component of the appended field tuple."""
    flows = []
    elts = tup.elts if isinstance(tup, ast.Tuple) else None
    if elts is None:
        # dt variable: expand its definitions, each a tuple
        for d in rd.reaching(tup.id, at) if isinstance(tup, ast.Name) else []:
            if isinstance(d, ast.Tuple):
                dn = rd.stmt_containing(d)
                flows += _dtype_component_flows(rd, d, dn)
            elif isinstance(d, ast.AST):
                flows.append(norm(d))
        return flows
    comp = elts[0] if isinstance(elts[0], ast.Starred) else (elts[1] if len(elts) > 1 else elts[0])
    if isinstance(comp, ast.Starred):
        # (*dt, width): the component comes from the starred tuple
        inner = comp.value
        for d in (rd.reaching(inner.id, at) if isinstance(inner, ast.Name) else []):
            if isinstance(d, ast.Tuple):
                flows += _dtype_component_flows(rd, d, rd.stmt_containing(d))
            else:
                flows.append(norm(d) if isinstance(d, ast.AST) else str(d))
        if not isinstance(inner, ast.Name):
            flows.append(norm(inner))
        return flows
    if isinstance(comp, ast.Name):
        for d in rd.reaching(comp.id, at):
            flows.append(norm(d) if isinstance(d, ast.AST) else f"<{d} {comp.id}>")
    else:
        flows.append(norm(comp))
    return flows


def _normalised(src: str) -> bool:
    s = src.replace(" ", "")
    return ".newbyteorder('=')" in s or ".newbyteorder('native')" in s or '.newbyteorder("=")' in s \
        or ".newbyteorder('N')" in s


def r03_3_table(chk):
    ix = chk.ix
    conv = ix.get_class("ReprCodeConverter")
    tbl = conv.class_assigns.get("numpy_dtypes_to_repr_codes")
    if not isinstance(tbl, ast.Dict):
        raise AnalysisError("numpy_dtypes_to_repr_codes not found")
    rows = {try_const(k): norm(v).split(".")[-1] for k, v in zip(tbl.keys, tbl.values)}
    chk.floor("dtype table rows", len(rows), 8)
    from ..absint import Interp
    it = Interp(ix)
    for dt, code in sorted(rows.items()):
        want = ref.DTYPE_CODES.get(dt)
        fmt = it.struct_formats.get(code)
        ok = want == code and fmt is not None and struct.calcsize(fmt) == ref.DTYPE_SIZES.get(dt)
        chk.require(ok, "R03.3", f"dtype-row:{dt}", f"{dt} -> {code} (format {fmt}); RP66 pairs {dt} with {want} of "
                    f"{ref.DTYPE_SIZES.get(dt)} bytes", conv.where)
    chk.require(set(rows) == set(ref.DTYPE_CODES), "R03.3", "supported-dtypes", f"supported dtypes are {sorted(rows)}",
                conv.where)
    val = conv.lookup("validate_numpy_dtype")
    from ..terms import raise_conditions as _rc, contains as _contains, pp as _pp
    # (a helper that extracts the dtype's name is looked through)
    vs = chk.terms.inline(val, 2, stop=lambda g: g.cls is not val.cls)
    nt = ("param", val.param_names[-1])
    table_guard = [pc for pc, _ in _rc(vs) if any(
        l[0] == "cmp" and l[1] == "not in" and _pp(l[3]).endswith("numpy_dtypes_to_repr_codes") for l in pc)]
    chk.require(bool(table_guard), "R03.3", "accepted-dtypes-are-the-table-keys",
                "dtype validation is not membership in the dtype table (no raise under `<dtype name> not in <table>`)",
                val.where)
    names = [l[2] for pc in table_guard for l in pc if l[0] == "cmp" and l[1] == "not in"]
    # (a summary with a helper looked through lists the guard twice - with the helper call and with its value)
    resolved = [n_ for n_ in names if not _contains(n_, lambda x: x[0] == "call" and x in vs.precise)] or names
    by_name = bool(resolved) and all(_contains(n_, lambda x: x[0] == "attr" and x[1] == nt and
                                               x[2] in ("name", "__name__")) for n_ in resolved)
    chk.require(by_name, "R03.3", "dtype-identified-by-name",
                "dtype validation no longer identifies the dtype by its name", val.where, nontrivial=False)


def r03_4_slot_order(chk):
    ix = chk.ix
    mfd = ix.get_class("MultiFrameData")
    init = mfd.lookup("__init__")
    chk.consult(init)
    from ..terms import SELF, A, subterms, raise_conditions, pp
    # (the comparison may sit in a helper of the same module)
    isum = chk.terms.inline(init, 2, stop=lambda g: g.module is not init.module or g.name == "__init__")
    frame_p, data_p = ("param", "frame"), ("param", "data")
    chans = A(frame_p, "channels", "value")

    def ordered_names(t):
        # tuple(c.name for c in frame.channels.value) - a tuple / list built from the channels in their order
        for x in subterms(t):
            if x[0] == "comp" and x[1] in ("gen", "list") and len(x[3]) == 1 and x[3][0][1] == chans and not x[3][0][2] \
                    and x[2] == A(("elem", chans, x[2][1][2] if x[2][0] == "attr" and x[2][1][0] == "elem" else None), "name"):
                return True
        return False
    guard_idx = None
    from ..terms import neg as _neg, literals as _literals, passed_refusal as _passed
    refusal = set()
    for pc_, _t in raise_conditions(isum):
        for c_ in pc_:
            refusal.update(_literals(c_))
    for i, e in enumerate(isum.effects):
        if e.kind != "raise" or e.ctx:
            continue
        for l in e.pc:
            if l[0] == "cmp" and l[1] == "!=" and ((ordered_names(l[2]) and l[3] == A(data_p, "dtype", "names")) or
                                                   (ordered_names(l[3]) and l[2] == A(data_p, "dtype", "names"))):
                # nothing but earlier refusals having passed may stand beside the comparison
                if all(o is l or _passed(o, refusal) for o in e.pc):
                    guard_idx = i
    chk.require(guard_idx is not None, "R03.4", "guard-compares-ordered-names",
                "no raise under `<the frame's channel names, in order> != <the chunk dtype's field names>`", init.where)
    stores = [(i, e) for i, e in enumerate(isum.effects) if e.kind == "store_attr" and e.base == SELF
              and e.value == data_p]
    ok = guard_idx is not None and bool(stores) and all(i > guard_idx for i, _ in stores)
    chk.require(ok, "R03.4", "channel-order-guard-dominates", "a MultiFrameData can be built although the chunk fields "
                "are not the frame's channels in the frame's order", init.where)
    fr = ix.get_class("FrameItem")
    from ..terms import return_alternatives as _ra
    own_chans = A(SELF, "channels", "value")
    for prop in ("channel_name_mapping", "known_channel_dtypes_mapping"):
        p = fr.lookup(prop)
        ps = chk.summary(p)
        built = [t for _, t in _ra(ps)]
        ok = bool(built) and all(t[0] == "comp" and t[1] == "dict" and len(t[3]) == 1 and t[3][0][1] == own_chans
                                 for t in built)
        chk.require(ok and p.kind == "property" and not any("cache" in d for d in p.decorators), "R03.4",
                    f"mapping-from-frame-channels:{prop}",
                    f"FrameItem.{prop} is not recomputed from the frame's channel list on every use", p.where)
    from ..terms import is_call as _is_call
    from ._layout import field_plan
    fp = field_plan(chk)
    it = fp.iterable
    ok = _is_call(it, "items", 0) and it[1][1] == ("param", fp.func.param_names[1]) and all(
        t[0] == "tuple" and t[1] and t[1][0] == ("sub", fp.elem, ("const", 0)) for _, t in fp.alts)
    chk.require(ok, "R03.4", "dtype-fields-in-mapping-order",
                "the chunk dtype's fields are not created by iterating the channel mapping (one field per entry, named "
                "by its key)", fp.func.where)


def r03_5_chunks(chk):
    from . import c10
    tmp = Check("C10", "quick", 0, chk.ix, chk.cg, quiet=True)
    c10.r10_5_tiling(tmp)
    for o in tmp.obs:
        o.rule = "R03.5"
        chk.obs.append(o)
    chk.consulted_functions |= tmp.consulted_functions


def r03_6_frame_number_encoding(chk):
    """The frame number is a UVARI: its 1/2/4-byte forms must be exact for every row number (C06 R06.2)."""
    from . import c06
    n0 = len(chk.obs)
    c06.r06_2_uvari(chk)
    for o in chk.obs[n0:]:
        o.rule = "R03.6"


def r03_7_fresh_wrapper(chk):
    """The source wrapper (row window, cast dtypes, data set names) is built anew for every write of every frame."""
    ix = chk.ix
    mk = ix.get_method("LogicalFile", "_make_multi_frame_data")
    from ..terms import pp, contains
    from ._layout import frame_data_plan
    plan = frame_data_plan(chk)
    alts = [(c, a) for c, a, _, _ in plan.alts]
    ok = bool(plan.alts)
    for _conds, alt, callee, b in plan.alts:
        if callee is None:
            ok = False
            continue
        window = b.get("from_idx") == ("param", "from_idx") and b.get("to_idx") == ("param", "to_idx")
        per_frame = all(b.get(k) is not None and contains(b[k], ("param", "fr")) for k in ("known_dtypes", "mapping"))
        ok = ok and window and per_frame
    chk.require(ok, "R03.7", "wrapper-built-per-write",
                f"the data wrapper used for a frame can come from somewhere else than a constructor call made in this "
                f"very write with this write's window / dtypes / mapping ({[pp(a)[:60] for _, a in alts]})", mk.where)
