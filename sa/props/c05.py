"""C05 - metadata fidelity: what the user sets is what a reader gets.

R05.1 (tables) the add_* forwarding table is total and uncrossed: every parameter except the routing ones reaches the
      item constructor exactly once under its own name (or the three documented `*_type` -> `type`/`_type` renames) and
      names an attribute declared by that item class (or a constructor parameter).
R05.2 (tables) each attribute's label equals the RP66 form of the Python name it is stored under; set type <-> logical
      record type agree with RP66 V1 Appendix A.
R05.3 (value-flow normal form, inlined) set_attributes routes a plain value to `.value`, dict / AttrSetup parts to exactly `.value` / `.units`
      through setattr on the Attribute (so converters run); AttrSetup yields every part that is not None (0, 0.0, False
      and '' included).
R05.4 (semantic store inventory, sa/stores.py) every value / unit stored into an attribute by code reachable from write()
      is stored on a path that found that attribute part unset (a default, never an overwrite of what the user set).
R05.5 (tables) converter <-> representation code agreement of the declarations.
R05.6 (BytesAI, shared with C06) DTIME / IDENT / ASCII / UVARI emitters are exact.
R05.7 (value-flow normal form) setters store the checker's *result*; no property getter of an Attribute stores anything (an inferred
      representation code is recomputed from the current value).
R05.8 (shared, = C02 R02.1/2/4/5 + C10 R10.1-3) the transport below the records: segments partition each body in order with
      correct bracketing and padding, the output buffer and the byte writer hand on exactly those bytes.
"""

from __future__ import annotations

import ast

from .. import AnalysisError
from ..common import Model, norm, try_const, is_self_attr, kw, find_super_init_call
from ..effects import stores_in
from ..index import Scope, walk_local
from ..report import Check
from .. import rp66_ref as ref

LEVEL = "other"
EXPLANATION = ("Table agreement (213 forwarded parameters, 172 labels, 22 set types), routing of values and units, the "
               "closed list of write-time additions, converter/code agreement and exact primitive emitters are decided "
               "from the source. Equality of decoded and assigned values for arbitrary inputs is not decided (it follows "
               "from these clauses plus C04/C06 only under Python's own value semantics).")

ROUTING = {"set_name", "data", "self"}
CTOR_PARAMS_OK = {"name", "parent", "origin_reference", "dataset_name", "cast_dtype"}


def run(chk):
    chk.guard(r05_1_forwarding, chk)
    chk.guard(r05_2_labels, chk)
    chk.guard(r05_3_routing, chk)
    chk.guard(r05_4_write_time_additions, chk)
    chk.guard(r05_5_converters, chk)
    chk.guard(r05_6_emitters, chk)
    chk.guard(r05_7_setters, chk)
    from ._layout import transport_integrity
    chk.guard(transport_integrity, chk, "R05.8")


def r05_1_forwarding(chk):
    from ..terms import ctor_calls, contains
    ix = chk.ix
    model = Model(ix)
    ams = model.add_methods()
    chk.floor("add_* methods", len(ams), 21)
    rows = 0
    for f, ic, ctor in sorted(ams, key=lambda t: t[0].name):
        chk.consult(f)
        params = [p for p in f.param_names if p not in ROUTING]
        decl_fields = {d.field for d in model.decls_of(ic)}
        init = ic.lookup("__init__")
        ctor_params = set()
        for c in ic.mro():
            ci = c.methods.get("__init__")
            if ci is not None:
                ctor_params |= set(ci.param_names)
        # the constructor call as a term: what each constructor parameter receives, whatever local names it went through
        fs = chk.terms.summary(f)
        cterms = ctor_calls(fs, ic)
        if not cterms:
            # the item is built in a helper of the logical file: look through it
            fs = chk.terms.inline(f, 2, stop=lambda g: g.cls is not f.cls or g.name == "__init__" or g.kind == "property")
            cterms = ctor_calls(fs, ic)
        if not cterms:
            raise AnalysisError(f"{f.name}: construction of {ic.name} not found in the value-flow summary")
        init_pos = [p for p in (init.param_names[1:] if init else [])]
        for cterm in cterms:
            pairs = [(init_pos[i] if i < len(init_pos) else f"<pos{i}>", a) for i, a in enumerate(cterm[2])]
            pairs += [(k, v) for k, v in cterm[3] if k]
            direct, indirect = {}, {}
            for kname, val in pairs:
                for p in params:
                    if val == ("param", p):
                        direct.setdefault(p, []).append(kname)
                    elif contains(val, ("param", p)):
                        indirect.setdefault(p, []).append(kname)
            for p in params:
                rows += 1
                # a parameter handed on as it is lands where it is passed; one that is only transformed on the way
                # (a helper deriving the value to store from it) lands where the derived value is passed
                ks = direct.get(p) or indirect.get(p, [])
                if p == "origin_reference":
                    ok = ks == ["origin_reference"]
                    chk.require(ok, "R05.1", f"forward:{f.name}.{p}", f"{f.name}: origin_reference is forwarded as {ks}",
                                f.where, nontrivial=False)
                    continue
                ok = len(ks) == 1
                detail = f"{f.name}: parameter `{p}` is forwarded {len(ks)} times ({ks})"
                if ok:
                    k = ks[0]
                    same = k == p or (p.endswith("_type") and k.strip("_") == "type")
                    target_ok = k in decl_fields or k in ctor_params
                    ok = same and target_ok
                    detail = f"{f.name}: parameter `{p}` lands in `{k}`" + ("" if target_ok else
                                                                            f", which {ic.name} does not declare")
                chk.require(ok, "R05.1", f"forward:{f.name}.{p}", detail, f.where, nontrivial=False)
            # every keyword names something the class knows
            for kname, val in pairs:
                ok = kname in decl_fields or kname in ctor_params
                chk.require(ok, "R05.1", f"keyword-known:{f.name}.{kname}",
                            f"{f.name} passes `{kname}=` but {ic.name} declares no such attribute", f.where,
                            nontrivial=False)
    chk.floor("forwarded parameter rows", rows, 200)
    chk.info["forwarded_parameters"] = rows


def r05_2_labels(chk):
    ix = chk.ix
    model = Model(ix)
    chk.floor("attribute declarations", len(model.decls), 160)
    for d in model.decls:
        want = d.field.strip("_").upper().replace("_", "-")
        chk.require(d.rp66_label() == want, "R05.2", f"label:{d.key}",
                    f"{d.key} is written under the label {d.rp66_label()!r}; its Python name maps to {want!r}", d.where,
                    nontrivial=False)
    # label transformation itself
    ainit = model.Attribute.lookup("__init__")
    from ..terms import SELF as _S, K as _K, is_call as _ic, pp as _pp
    asum = chk.summary(ainit)
    lab = ("param", "label")
    want = ("call", ("attr", ("call", ("attr", ("call", ("attr", lab, "strip"), (_K("_"),), ()), "upper"), (), ()),
                     "replace"), (_K("_"), _K("-")), ())
    sts = [e for e in asum.stores("_label") if e.base == _S]
    chk.require(bool(sts) and all(e.value == want for e in sts), "R05.2", "label-transformation",
                f"Attribute derives the RP66 label as `{[_pp(e.value)[:60] for e in sts]}`, not as "
                f"label.strip('_').upper().replace('_', '-')", ainit.where)
    chk.floor("set classes", len(model.set_classes), 22)
    for sc in sorted(model.set_classes, key=lambda c: c.name):
        st = try_const(sc.class_assigns.get("set_type")) if "set_type" in sc.class_assigns else None
        lrt = sc.class_assigns.get("logical_record_type")
        lname = norm(lrt).split(".")[-1] if lrt is not None else None
        want = ref.SET_TYPE_TO_EFLR.get(st)
        chk.require(want is not None and lname == want, "R05.2", f"set-type:{sc.name}",
                    f"{sc.name}: set type {st!r} with logical record type {lname}; RP66 V1 Appendix A says {want}",
                    sc.where, nontrivial=False)
        it = sc.class_assigns.get("item_type")
        item_cls = ix.find_class(norm(it)) if it is not None else None
        back = item_cls.late_assigns.get("parent_eflr_class") if item_cls else None
        chk.require(item_cls is not None and back is not None and norm(back[0]) == sc.name, "R05.2",
                    f"set<->item:{sc.name}", f"{sc.name}.item_type / {norm(it) if it else None}.parent_eflr_class do not "
                    f"point at each other", sc.where, nontrivial=False)
    et = ix.get_class("EFLRType")
    for name, num in ((n, try_const(e)) for n, e in et.class_assigns.items()):
        chk.require(ref.EFLR_TYPES.get(num) == name, "R05.2", f"eflr-type-number:{name}",
                    f"EFLR type {name} = {num}; the standard has {ref.EFLR_TYPES.get(num)}", et.where, nontrivial=False)
    it_ = ix.get_class("IFLRType")
    for name, num in ((n, try_const(e)) for n, e in it_.class_assigns.items()):
        chk.require(ref.IFLR_TYPES.get(num) == name, "R05.2", f"iflr-type-number:{name}",
                    f"IFLR type {name} = {num}", it_.where, nontrivial=False)


def r05_3_routing(chk):
    """Routing of values into attributes, decided on the inlined value-flow summary of EFLRItem.set_attributes: whatever
    helpers the loop body is split into, the stores that finally happen are setattr(<attribute object>, part, value)."""
    from ..terms import (SELF, NONE, A, K, attr_stores, raise_conditions, is_call, call_arg, contains, pp, subterms,
                         unroll_const_loops)
    ix = chk.ix
    item = ix.get_class("EFLRItem")
    sa = item.lookup("set_attributes")
    chk.consult(sa)
    from ..terms import normalise_loops, Summary
    s0 = chk.terms.inline(sa, 3)
    s = Summary(sa)
    s.effects = normalise_loops(s0.effects)
    s.raises, s.returns, s.calls, s.props, s.precise = s0.raises, s0.returns, s0.calls, s0.props, s0.precise
    stores = attr_stores(s)
    chk.floor("attribute-part stores in set_attributes", len(stores), 2)

    def is_kwargs_items(it):
        return is_call(it, "items") and it[1][1][0] == "param" and it[1][1][1].startswith("**")
    plain, parts, other = [], [], []
    for obj, key, val, e in stores:
        loops = e.loops()
        outer = loops[0] if loops else None
        if outer is None or outer[0] != "for" or not is_kwargs_items(outer[2]):
            other.append(e)
            continue
        el = ("elem", outer[2], outer[1])
        name, given = ("sub", el, K(0)), ("sub", el, K(1))
        attr_obj = [("call", ("global", "getattr"), (SELF, name, NONE), ()), ("call", ("global", "getattr"), (SELF, name), ())]
        if obj not in attr_obj:
            other.append(e)
            continue
        inst = [l for l in e.pc if (l[0] == "call" and l[1] == ("global", "isinstance") and l[2][0] == given) or
                (l[0] == "not" and l[1][0] == "call" and l[1][1] == ("global", "isinstance") and l[1][2][0] == given)]
        if key == K("value") and val == given and any(l[0] == "not" for l in inst):
            plain.append(e)
        elif len(loops) == 2 and is_call(loops[1][2], "items") and loops[1][2][1][1] == given:
            el2 = ("elem", loops[1][2], loops[1][1])
            guard = [l for l in e.pc if l[0] == "cmp" and l[1] == "in" and l[2] == ("sub", el2, K(0)) and
                     l[3][0] in ("tuple", "list", "set") and {x[1] for x in l[3][1] if x[0] == "const"} == {"value", "units"}]
            classes = {pp(c) for l in inst if l[0] == "call" for c in (l[2][1][1] if l[2][1][0] == "tuple" else (l[2][1],))}
            if key == ("sub", el2, K(0)) and val == ("sub", el2, K(1)) and guard and {"dict", "AttrSetup"} <= classes:
                parts.append(e)
            else:
                other.append(e)
        else:
            other.append(e)
    where = sa.where
    chk.require(bool(plain), "R05.3", "set_attributes:plain-value-to-.value",
                "a plain keyword value is not stored into the `.value` part of the attribute named by the keyword", where)
    chk.require(bool(parts), "R05.3", "set_attributes:parts-only-value-units",
                "a dict / AttrSetup keyword value is not stored part by part into exactly the `value` / `units` parts of "
                "the attribute (under `part in ('value', 'units')`)", where)
    chk.require(not other, "R05.3", "set_attributes:no-other-store",
                f"set_attributes also stores {[repr(e)[:90] for e in other[:2]]}: a store that is neither "
                f"<attribute>.value = <given value> nor <attribute>.<part> = <given part>", where)
    chk.require(all(e.kind == "call" for e in plain + parts), "R05.3", "set_attributes:through-setattr",
                "the parts are not assigned through setattr / the property setters of the Attribute (converters and "
                "checks would be skipped)", where, nontrivial=False)
    ok = False
    for pc, exc in raise_conditions(s):
        for l in pc:
            if contains(l, lambda x: x[0] == "call" and x[1] == ("global", "isinstance") and len(x[2]) == 2
                        and x[2][1] == ("global", "Attribute")) and (l[0] in ("not", "or")):
                ok = True
    chk.require(ok, "R05.3", "set_attributes:unknown-attribute-raises",
                "a keyword that does not name an Attribute of the item is not rejected", where)
    init = chk.summary(item.lookup("__init__"))
    fwd = [c for c in init.all_calls("set_attributes")]
    ok = False
    for c in fwd:
        for k, v in c[3]:
            if k is None and v[0] == "dstar" and v[1][0] == "comp" and v[1][1] == "dict" and len(v[1][3]) == 1:
                pat, it, conds = v[1][3][0]
                elt = v[1][2]
                if is_kwargs_items(it) and len(conds) == 1 and conds[0][0] == "cmp" and conds[0][1] == "is not" and \
                        conds[0][3] == NONE and conds[0][2] == elt[1] and elt[0][0] == "sub" and elt[1][0] == "sub":
                    ok = True
    chk.require(ok, "R05.3", "constructor-forwards-all-non-None-kwargs",
                "the item constructor does not forward exactly the keyword values that are not None to set_attributes "
                "(e.g. it drops 0 or '')", init.func.where)
    asetup = ix.get_class("AttrSetup")
    items = chk.summary(asetup.lookup("items"))
    ys = unroll_const_loops([(pc, t, ctx, n) for pc, t, n, ctx in items.yields])
    got = {}
    bad = []
    for pc, t, ctx, n in ys:
        if t[0] == "tuple" and len(t[1]) == 2 and t[1][0][0] == "const" and t[1][1] == A(SELF, t[1][0][1]):
            want = (("cmp", "is not", t[1][1], NONE),)
            if tuple(pc) == want and not ctx:
                got[t[1][0][1]] = True
            else:
                bad.append((t[1][0][1], [pp(c) for c in pc]))
        else:
            bad.append((pp(t), [pp(c) for c in pc]))
    chk.require(not bad, "R05.3", "AttrSetup-yields-every-part-that-is-not-None",
                f"AttrSetup.items yields {bad[:2]}: a part must be yielded exactly when it is not None (explicit falsy "
                f"values 0, 0.0, False, '' included)", items.func.where)
    chk.require(set(got) == {"value", "units"}, "R05.3", "AttrSetup-parts",
                f"AttrSetup yields the parts {sorted(got)}, not exactly 'value' and 'units'", items.func.where)


def r05_4_write_time_additions(chk):
    """A value or unit added to an attribute by code reachable from DLISFile.write is a default: the store happens only
    on paths where the attribute part was found unset (None / empty).  An unguarded store would replace what the user
    assigned.  The stores are taken from the semantic inventory of sa/stores.py (object and part written, whichever
    function or helper does the writing; path conditions rewritten into the terms of the object)."""
    from . import c14
    from ..terms import pp
    w = c14.write_path_stores(chk)
    parts = [s for s in w.stores if s.field in ("value", "units")]
    chk.floor("write-time stores into attribute parts", len({s.key for s in parts}), 8)
    # an attribute whose value can legitimately be falsy (numbers: 0; status; date-times) must be tested with
    # `is None`; for list / text valued parts "empty" is as good as unset
    model = Model(chk.ix)
    falsy_ok = {}
    for d in model.decls:
        names = {c.name for c in d.attr_cls.mro()}
        falsy_ok[(d.item_cls.name, d.field)] = bool(names & {"DimensionAttribute", "TextAttribute", "IdentAttribute",
                                                          "EFLRAttribute", "EFLROrTextAttribute"})
    seen = set()
    for s in parts:
        target = ("attr", s.base, s.field)
        bits = s.key.split(".")
        owner = chk.ix.find_class(bits[0])
        fld = bits[-2] if len(bits) >= 3 else ""
        # the declarations this store can concern: those of the owner's hierarchy and - for a store made in a mix-in -
        # of every item class that includes the mix-in
        related = []
        for d in model.decls:
            if d.field != fld:
                continue
            m_ = d.item_cls.mro()
            if (owner is not None and (owner in m_ or d.item_cls in owner.mro())) or \
                    (s.func.cls is not None and s.func.cls in m_):
                related.append(falsy_ok[(d.item_cls.name, d.field)])
        loose = s.field == "units" or (bool(related) and all(related))
        unset = [l for l in s.pc if (l[0] == "cmp" and l[1] == "is" and l[2] == target and l[3] == ("const", None))
                 or (loose and l == ("not", target))]
        k = (s.key, bool(unset))
        if k in seen:
            continue
        seen.add(k)
        chk.consult(s.func)
        chk.require(bool(unset), "R05.4", f"default-only-if-unset:{s.key}",
                    f"{s.func.short} stores `{pp(s.value)[:70]}` into {s.key} under "
                    f"{[pp(l)[:50] for l in s.pc] or 'no condition'}: nothing on that path says the attribute was unset, so "
                    f"a value assigned by the user is replaced at write time", s.where)


def r05_5_converters(chk):
    ix = chk.ix
    model = Model(ix)
    int_codes = {"SSHORT", "SNORM", "SLONG", "USHORT", "UNORM", "ULONG", "UVARI"}
    float_codes = {"FSINGL", "FDOUBL", "FSHORT", "FSING1", "FSING2", "ISINGL", "VSINGL", "FDOUB1", "FDOUB2", "CSINGL",
                   "CDOUBL"}
    n = 0
    for d in model.decls:
        names = [c.name for c in d.attr_cls.mro()]
        code = norm(d.kwargs["representation_code"]).split(".")[-1] if "representation_code" in d.kwargs else None
        if "NumericAttribute" in names and code is not None:
            n += 1
            chk.require(code in int_codes | float_codes, "R05.5", f"numeric-code:{d.key}",
                        f"{d.key}: NumericAttribute with non-numeric code {code}", d.where, nontrivial=False)
        if "TextAttribute" in names or "IdentAttribute" in names or "StatusAttribute" in names \
                or "DimensionAttribute" in names:
            chk.require(code is None or code in ("ASCII", "IDENT", "STATUS", "UVARI"), "R05.5", f"fixed-code:{d.key}",
                        f"{d.key}: explicit code {code} on an attribute class with a fixed code", d.where,
                        nontrivial=False)
    chk.floor("numeric attributes with explicit codes", n, 10)
    from ..terms import (SELF, A, K, return_alternatives, raise_conditions, is_call, call_arg, contains, pp)
    na = ix.get_class("NumericAttribute")
    cn = chk.terms.inline(na.lookup("_convert_number"), 2)
    chk.consult(na.lookup("_convert_number"))
    val = ("param", "value")

    def int_cond(l, op=("in", "not in")):
        return contains(l, lambda x: x[0] == "cmp" and x[1] in op and pp(x[3]).endswith("int_codes") and contains(
            x[2], lambda y: y[0] == "attr" and y[1] == SELF and y[2] in ("representation_code", "_representation_code")))
    ints = [(c, t) for c, t in return_alternatives(cn) if t == ("call", ("global", "int"), (val,), ())]
    floats = [(c, t) for c, t in return_alternatives(cn) if t == ("call", ("global", "float"), (val,), ())]
    ok = bool(ints) and bool(floats) and all(any(int_cond(l, ("in",)) for l in c) for c, _ in ints) and \
        all(any(int_cond(l, ("not in",)) for l in c) for c, _ in floats) and \
        len(return_alternatives(cn)) == len(ints) + len(floats)
    chk.require(ok, "R05.5", "numeric-parser-follows-code",
                f"NumericAttribute._convert_number returns {[pp(t) for _, t in return_alternatives(cn)][:3]}: it no longer "
                f"yields int(value) for integer codes and float(value) otherwise", cn.func.where)
    frac = [pc for pc, exc in raise_conditions(cn) if any(
        contains(l, lambda x: (x[0] == "call" and x[1][0] == "attr" and x[1][2] == "is_integer") or
                 (x[0] == "bin" and x[1] == "%" and x[3] == K(1))) for l in pc)]
    chk.require(bool(frac), "R05.5", "int-parser-rejects-fractions",
                "a non-integral value assigned to an integer-coded attribute is truncated instead of rejected",
                cn.func.where)
    da = ix.get_class("DTimeAttribute")
    di = chk.summary(da.lookup("__init__"))
    sts = [e for e in di.stores("_representation_code") if pp(e.value).endswith("DTIME")]
    ok = bool(sts) and all((("not", A(SELF, "_allow_float")) in e.pc or ("not", ("param", "allow_float")) in e.pc)
                           and ("not", A(SELF, "_representation_code")) in e.pc for e in sts)
    chk.require(ok, "R05.5", "dtime-code-fixed-without-float", "a DTimeAttribute without allow_float may lack the DTIME "
                "code (it is not set exactly when no float is allowed and no code was given)", da.where)
    sa = ix.get_class("StatusAttribute")
    cs = chk.summary(sa.lookup("convert_status"))
    ok = any(any(l[0] == "cmp" and l[1] == "not in" and l[3][0] in ("tuple", "list", "set") and
                 [x[1] for x in l[3][1]] in ([0, 1], [1, 0]) for l in pc) for pc, _ in raise_conditions(cs))
    chk.require(ok, "R05.5", "status-only-0-1", "STATUS accepts values other than 0 and 1", sa.where)


def r05_6_emitters(chk):
    from . import c06
    n0 = len(chk.obs)
    c06.r06_4_dtime(chk)
    c06.r06_3_ident_ascii(chk)
    c06.r06_2_uvari(chk)
    c06.r06_1_table(chk, __import__("sa.absint", fromlist=["Interp"]).Interp(chk.ix))
    for o in chk.obs[n0:]:
        o.rule = "R05.6"


def r05_7_setters(chk):
    from ..terms import SELF, A, alternatives, return_alternatives, is_call, call_arg, pp, attr_stores
    ix = chk.ix
    model = Model(ix)
    attr = model.Attribute
    for key, field, checker in (("units.setter", "_units", "_unit_checker"), ("value.setter", "_value", "convert_value")):
        f = attr.methods.get(key)
        if f is None:
            raise AnalysisError(f"Attribute.{key} not found")
        su = chk.summary(f)
        given = ("param", f.param_names[1])
        sts = su.stores(field)
        ok = bool(sts) and all(is_call(a, checker) and a[2] == (given,) for e in sts for _, a in alternatives(e.value))
        chk.require(ok, "R05.7", f"{key.split('.')[0]}-setter-stores-checked-result",
                    f"the {key.split('.')[0]} setter stores `{'; '.join(pp(e.value)[:50] for e in sts)}` instead of the "
                    f"result of {checker}(<given>)" + (" (a Unit enum member would be written as 'Unit.XYZ')"
                                                     if field == "_units" else ""), f.where)
    n_getters = 0
    for c in model.attr_classes:
        for m in c.methods.values():
            if m.kind == "property":
                n_getters += 1
                st = [e for obj, k, v, e in attr_stores(chk.summary(m)) if obj == SELF]
                chk.require(not st, "R05.7", f"getter-effect-free:{m.short}",
                            f"the property getter {m.short} stores `{repr(st[0])[:60] if st else ''}`: what it returns "
                            f"later depends on what the attribute held when it was first read", m.where, nontrivial=False)
    chk.floor("Attribute property getters", n_getters, 8)
    # the emitters str()-ify only str values: enum members are turned into their value by the converters
    from ..common import enum_converter
    conv_f, v, cls_t = enum_converter(ix, chk.terms)
    conv = [conv_f]
    # (helpers of the enum class the converter is split into are looked through)
    cs = chk.terms.inline(conv_f, 2, stop=lambda g: g.cls is None or g.cls.name != "ValidatorEnum")
    member = ("call", ("global", "isinstance"), (v, cls_t), ())
    alts = return_alternatives(cs)
    as_value = [c for c, t in alts if t == A(v, "value") and member in c]
    raw_member = [c for c, t in alts if t == v and member in c]
    chk.require(bool(as_value) and not raw_member, "R05.7", "enum-members-stored-as-their-value",
                "enum members accepted by the enum converters are not replaced by their string value", conv[0].where)
    from ..terms import NONE
    other = [(c, t) for c, t in alts if t not in (v, A(v, "value"), NONE)]
    chk.require(not other, "R05.7", "enum-converter-returns-the-given-text",
                f"the enum converter can return `{[pp(t)[:50] for _, t in other[:2]]}`: a text the user did not give "
                f"(only the given value, an enum member's own value, or None may come back)", conv[0].where)
