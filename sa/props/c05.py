"""C05 - metadata fidelity: what the user sets is what a reader gets.

R05.1 (tables) the add_* forwarding table is total and uncrossed: every parameter except the routing ones reaches the
      item constructor exactly once under its own name (or the three documented `*_type` -> `type`/`_type` renames) and
      names an attribute declared by that item class (or a constructor parameter).
R05.2 (tables) each attribute's label equals the RP66 form of the Python name it is stored under; set type <-> logical
      record type agree with RP66 V1 Appendix A.
R05.3 (AST) set_attributes routes a plain value to `.value`, dict / AttrSetup parts to exactly `.value` / `.units`
      through setattr on the Attribute (so converters run); AttrSetup yields every part that is not None (0, 0.0, False
      and '' included).
R05.4 (effects, shared with C14 R14.5) the only values added at write time are the documented defaults, each guarded by
      "not already set".
R05.5 (tables) converter <-> representation code agreement of the declarations.
R05.6 (BytesAI, shared with C06) DTIME / IDENT / ASCII / UVARI emitters are exact.
R05.7 (AST) setters store the checker's *result*; no property getter of an Attribute stores anything (an inferred
      representation code is recomputed from the current value).
"""

from __future__ import annotations

import ast

from .. import AnalysisError
from ..common import Model, norm, try_const, is_self_attr, kw, find_super_init_call
from ..effects import stores_in
from ..index import Scope, walk_local
from ..report import Check
from .. import rp66_ref as ref

LEVEL = "other"
EXPLANATION = ("Table agreement (213 forwarded parameters, 172 labels, 22 set types), routing of values and units, the "
               "closed list of write-time additions, converter/code agreement and exact primitive emitters are decided "
               "from the source. Equality of decoded and assigned values for arbitrary inputs is not decided (it follows "
               "from these clauses plus C04/C06 only under Python's own value semantics).")

ROUTING = {"set_name", "data", "self"}
CTOR_PARAMS_OK = {"name", "parent", "origin_reference", "dataset_name", "cast_dtype"}


def run(chk):
    chk.guard(r05_1_forwarding, chk)
    chk.guard(r05_2_labels, chk)
    chk.guard(r05_3_routing, chk)
    chk.guard(r05_4_write_time_additions, chk)
    chk.guard(r05_5_converters, chk)
    chk.guard(r05_6_emitters, chk)
    chk.guard(r05_7_setters, chk)


def r05_1_forwarding(chk):
    ix = chk.ix
    model = Model(ix)
    ams = model.add_methods()
    chk.floor("add_* methods", len(ams), 21)
    rows = 0
    for f, ic, ctor in sorted(ams, key=lambda t: t[0].name):
        chk.consult(f)
        params = [p for p in f.param_names if p not in ROUTING]
        decl_fields = {d.field for d in model.decls_of(ic)}
        init = ic.lookup("__init__")
        ctor_params = set()
        for c in ic.mro():
            ci = c.methods.get("__init__")
            if ci is not None:
                ctor_params |= set(ci.param_names)
        used = {}
        pos = list(ctor.args)
        init_pos = [p for p in (init.param_names[1:] if init else [])]
        pairs = [(init_pos[i] if i < len(init_pos) else f"<pos{i}>", a) for i, a in enumerate(pos)]
        pairs += [(k.arg, k.value) for k in ctor.keywords if k.arg]
        for kname, val in pairs:
            names = [n.id for n in ast.walk(val) if isinstance(n, ast.Name) and n.id in params]
            for p in names:
                used.setdefault(p, []).append(kname)
        for p in params:
            rows += 1
            ks = used.get(p, [])
            if p == "origin_reference":
                ok = ks == ["origin_reference"]
                chk.require(ok, "R05.1", f"forward:{f.name}.{p}", f"{f.name}: origin_reference is forwarded as {ks}",
                            f.where, nontrivial=False)
                continue
            ok = len(ks) == 1
            detail = f"{f.name}: parameter `{p}` is forwarded {len(ks)} times ({ks})"
            if ok:
                k = ks[0]
                same = k == p or (p.endswith("_type") and k.strip("_") == "type")
                target_ok = k in decl_fields or k in ctor_params
                ok = same and target_ok
                detail = f"{f.name}: parameter `{p}` lands in `{k}`" + ("" if target_ok else
                                                                        f", which {ic.name} does not declare")
            chk.require(ok, "R05.1", f"forward:{f.name}.{p}", detail, f.where, nontrivial=False)
        # every keyword names something the class knows
        for kname, val in pairs:
            ok = kname in decl_fields or kname in ctor_params
            chk.require(ok, "R05.1", f"keyword-known:{f.name}.{kname}",
                        f"{f.name} passes `{kname}=` but {ic.name} declares no such attribute", f.where, nontrivial=False)
    chk.floor("forwarded parameter rows", rows, 200)
    chk.info["forwarded_parameters"] = rows


def r05_2_labels(chk):
    ix = chk.ix
    model = Model(ix)
    chk.floor("attribute declarations", len(model.decls), 160)
    for d in model.decls:
        want = d.field.strip("_").upper().replace("_", "-")
        chk.require(d.rp66_label() == want, "R05.2", f"label:{d.key}",
                    f"{d.key} is written under the label {d.rp66_label()!r}; its Python name maps to {want!r}", d.where,
                    nontrivial=False)
    # label transformation itself
    ainit = model.Attribute.lookup("__init__")
    s = norm(ainit.node)
    chk.require("label.strip('_').upper().replace('_', '-')" in s, "R05.2", "label-transformation",
                "Attribute no longer derives the RP66 label as strip('_').upper().replace('_','-')", ainit.where)
    chk.floor("set classes", len(model.set_classes), 22)
    for sc in sorted(model.set_classes, key=lambda c: c.name):
        st = try_const(sc.class_assigns.get("set_type")) if "set_type" in sc.class_assigns else None
        lrt = sc.class_assigns.get("logical_record_type")
        lname = norm(lrt).split(".")[-1] if lrt is not None else None
        want = ref.SET_TYPE_TO_EFLR.get(st)
        chk.require(want is not None and lname == want, "R05.2", f"set-type:{sc.name}",
                    f"{sc.name}: set type {st!r} with logical record type {lname}; RP66 V1 Appendix A says {want}",
                    sc.where, nontrivial=False)
        it = sc.class_assigns.get("item_type")
        item_cls = ix.find_class(norm(it)) if it is not None else None
        back = item_cls.late_assigns.get("parent_eflr_class") if item_cls else None
        chk.require(item_cls is not None and back is not None and norm(back[0]) == sc.name, "R05.2",
                    f"set<->item:{sc.name}", f"{sc.name}.item_type / {norm(it) if it else None}.parent_eflr_class do not "
                    f"point at each other", sc.where, nontrivial=False)
    et = ix.get_class("EFLRType")
    for name, num in ((n, try_const(e)) for n, e in et.class_assigns.items()):
        chk.require(ref.EFLR_TYPES.get(num) == name, "R05.2", f"eflr-type-number:{name}",
                    f"EFLR type {name} = {num}; the standard has {ref.EFLR_TYPES.get(num)}", et.where, nontrivial=False)
    it_ = ix.get_class("IFLRType")
    for name, num in ((n, try_const(e)) for n, e in it_.class_assigns.items()):
        chk.require(ref.IFLR_TYPES.get(num) == name, "R05.2", f"iflr-type-number:{name}",
                    f"IFLR type {name} = {num}", it_.where, nontrivial=False)


def r05_3_routing(chk):
    ix = chk.ix
    item = ix.get_class("EFLRItem")
    sa = item.lookup("set_attributes")
    chk.consult(sa)
    s = norm(sa.node)
    checks = {
        "plain-value-to-.value": "set_value(attr, attr_value)" in s and "_key: str='value'" in s.replace(" = ", "="),
        "parts-only-value-units": "if key not in ('value', 'units'):" in s and "raise ValueError" in s,
        "through-setattr": "setattr(_attr, _key, _value)" in s,
        "unknown-attribute-raises": "raise AttributeError" in s and "isinstance(attr, Attribute)" in s,
        "dict-and-AttrSetup": "isinstance(attr_value, (dict, AttrSetup))" in s,
    }
    for k, ok in checks.items():
        chk.require(ok, "R05.3", f"set_attributes:{k}", f"set_attributes no longer satisfies: {k}", sa.where)
    init = item.lookup("__init__")
    s = norm(init.node)
    chk.require("self.set_attributes(**{k: v for k, v in kwargs.items() if v is not None})" in s, "R05.3",
                "constructor-forwards-all-non-None-kwargs",
                "the item constructor drops keyword values other than None (e.g. 0 or '')", init.where)
    asetup = ix.get_class("AttrSetup")
    items = asetup.lookup("items")
    chk.consult(items)
    tests = [n.test for n in walk_local(items.node) if isinstance(n, ast.If)]
    ok = len(tests) == 1 and isinstance(tests[0], ast.Compare) and isinstance(tests[0].ops[0], ast.IsNot) \
        and isinstance(tests[0].comparators[0], ast.Constant) and tests[0].comparators[0].value is None
    chk.require(ok, "R05.3", "AttrSetup-yields-every-part-that-is-not-None",
                f"AttrSetup.items filters its parts by {[norm(t) for t in tests]}: explicit falsy values (0, 0.0, False, "
                f"'') passed through AttrSetup never reach the attribute", items.where)
    names = [n for n in walk_local(items.node) if isinstance(n, ast.For)]
    ok = names and try_const(names[0].iter) == ("value", "units")
    chk.require(bool(ok), "R05.3", "AttrSetup-parts", "AttrSetup does not yield exactly 'value' and 'units'", items.where)


def r05_4_write_time_additions(chk):
    from . import c14
    tmp = Check("C14", "quick", 0, chk.ix, chk.cg, quiet=True)
    c14.r14_5_write_path_stores(tmp)
    n = 0
    for o in tmp.obs:
        if o.key.startswith("store:") or o.key.startswith("unclassified-store:"):
            o.rule = "R05.4"
            chk.obs.append(o)
            n += 1
    chk.floor("write-time stores classified", n, 8)
    # each documented default is guarded by "not already set"
    ix = chk.ix
    guards = {
        ("OriginItem", "_run_checks_and_set_defaults", "field_name"): "is None",
        ("ChannelItem", "_run_checks_and_set_defaults", "long_name"): "not self.long_name.value",
        ("LogicalFile", "_check_defining_origin_params", "file_id"): "is None",
    }
    for (cn, mn, fld), needle in guards.items():
        f = ix.get_method(cn, mn)
        ok = False
        for n_ in walk_local(f.node):
            if isinstance(n_, ast.If) and fld in norm(n_.test) and needle.split()[-1] in norm(n_.test):
                if any(isinstance(x, ast.Assign) and fld in norm(x.targets[0]) for b in n_.body for x in ast.walk(b)):
                    ok = True
        chk.require(ok, "R05.4", f"default-only-if-unset:{cn}.{fld}",
                    f"{cn}.{mn} assigns the default of {fld} without testing that the user left it unset", f.where)


def r05_5_converters(chk):
    ix = chk.ix
    model = Model(ix)
    int_codes = {"SSHORT", "SNORM", "SLONG", "USHORT", "UNORM", "ULONG", "UVARI"}
    float_codes = {"FSINGL", "FDOUBL", "FSHORT", "FSING1", "FSING2", "ISINGL", "VSINGL", "FDOUB1", "FDOUB2", "CSINGL",
                   "CDOUBL"}
    n = 0
    for d in model.decls:
        names = [c.name for c in d.attr_cls.mro()]
        code = norm(d.kwargs["representation_code"]).split(".")[-1] if "representation_code" in d.kwargs else None
        if "NumericAttribute" in names and code is not None:
            n += 1
            chk.require(code in int_codes | float_codes, "R05.5", f"numeric-code:{d.key}",
                        f"{d.key}: NumericAttribute with non-numeric code {code}", d.where, nontrivial=False)
        if "TextAttribute" in names or "IdentAttribute" in names or "StatusAttribute" in names \
                or "DimensionAttribute" in names:
            chk.require(code is None or code in ("ASCII", "IDENT", "STATUS", "UVARI"), "R05.5", f"fixed-code:{d.key}",
                        f"{d.key}: explicit code {code} on an attribute class with a fixed code", d.where,
                        nontrivial=False)
    chk.floor("numeric attributes with explicit codes", n, 10)
    na = ix.get_class("NumericAttribute")
    cn = na.lookup("_convert_number")
    s = norm(cn.node)
    chk.require("self._int_only or self.representation_code in ReprCodeConverter.int_codes" in s
                and "return self._int_parser(value)" in s and "return self._float_parser(value)" in s, "R05.5",
                "numeric-parser-follows-code", "NumericAttribute no longer parses integers for integer codes and floats "
                "otherwise", cn.where)
    ip = na.lookup("_int_parser")
    s = norm(ip.node)
    chk.require("is_integer()" in s and "raise ValueError" in s, "R05.5", "int-parser-rejects-fractions",
                "a non-integral value assigned to an integer-coded attribute is truncated instead of rejected", ip.where)
    da = ix.get_class("DTimeAttribute")
    s = norm(da.lookup("__init__").node)
    chk.require("if not self._allow_float and (not self._representation_code):" in s
                or "if not self._allow_float and not self._representation_code" in s, "R05.5",
                "dtime-code-fixed-without-float", "a DTimeAttribute without allow_float may lack the DTIME code",
                da.where)
    sa = ix.get_class("StatusAttribute")
    s = norm(sa.lookup("convert_status").node)
    chk.require("if val not in (0, 1):" in s and "raise ValueError" in s, "R05.5", "status-only-0-1",
                "STATUS accepts values other than 0 and 1", sa.where)


def r05_6_emitters(chk):
    from . import c06
    n0 = len(chk.obs)
    c06.r06_4_dtime(chk)
    c06.r06_3_ident_ascii(chk)
    c06.r06_2_uvari(chk)
    c06.r06_1_table(chk, __import__("sa.absint", fromlist=["Interp"]).Interp(chk.ix))
    for o in chk.obs[n0:]:
        o.rule = "R05.6"


def r05_7_setters(chk):
    ix = chk.ix
    model = Model(ix)
    attr = model.Attribute
    us = attr.methods.get("units.setter")
    chk.consult(us)
    stores = [n for n in walk_local(us.node) if isinstance(n, ast.Assign) and any(is_self_attr(t, "_units")
                                                                                for t in n.targets)]
    ok = len(stores) == 1 and isinstance(stores[0].value, ast.Call) and "_unit_checker" in norm(stores[0].value.func)
    chk.require(ok, "R05.7", "units-setter-stores-checked-result",
                "the units setter stores its raw argument instead of the checker's result (a Unit enum member would be "
                "written as 'Unit.XYZ')", us.where)
    vs = attr.methods.get("value.setter")
    stores = [n for n in walk_local(vs.node) if isinstance(n, ast.Assign) and any(is_self_attr(t, "_value")
                                                                                for t in n.targets)]
    ok = len(stores) == 1 and isinstance(stores[0].value, ast.Call) and "convert_value" in norm(stores[0].value.func)
    chk.require(ok, "R05.7", "value-setter-stores-converted-result",
                "the value setter does not store the converter's result", vs.where)
    n_getters = 0
    for c in model.attr_classes:
        for m in c.methods.values():
            if m.kind == "property":
                n_getters += 1
                st = [s for s in stores_in(m) if isinstance(s.base, ast.Name) and s.base.id == "self"]
                chk.require(not st, "R05.7", f"getter-effect-free:{m.short}",
                            f"the property getter {m.short} stores `{st[0].target if st else ''}`: what it returns later "
                            f"depends on what the attribute held when it was first read", m.where, nontrivial=False)
    chk.floor("Attribute property getters", n_getters, 8)
    # the emitters str()-ify only str values: enum members are turned into their value by the converters
    ve = ix.get_class("ValidatorEnum").lookup("make_converter")
    s = norm(ve.node)
    chk.require("if isinstance(v, cls):" in s and "return v.value" in s, "R05.7", "enum-members-stored-as-their-value",
                "enum members accepted by the enum converters are not replaced by their string value", ve.where)
