"""C13 - frame index metadata is truthful for the rows written.  (structural clauses)

R13.1 (semantic store inventory) the statistics are computed from the windowed accessor (`data[<name>]`, which applies [from_idx:to_idx]),
      never from the raw source, and from the frame's first channel.
R13.2 (semantic store inventory: path conditions) user values win: every store to INDEX-MIN / INDEX-MAX / SPACING / DIRECTION (value or units) on the write path
      goes through the "only if None" helper; explicit values - including 0 - reach the attribute (AttrSetup yields every
      part that is not None).
R13.3 (effects, shared with C14 R14.5) derived values must not outlive the write that derived them  [known finding].
R13.4 (semantic store inventory + inlined helper summary) no index type => INDEX-MIN := 1, INDEX-MAX := number of windowed rows (leading dimension), SPACING := 1;
      index type => INDEX-MIN from min(), INDEX-MAX from max() (not crossed); spacing only on the "uniform" result,
      direction only otherwise; the sign mapping is consistent.
R13.5 (inlined helper summary) differences are taken in a type that cannot wrap: integer index data are widened before np.diff.
R13.6 (inlined helper summary) the uniformity test is purely relative (no absolute tolerance that swallows small-step indexes)
      and looks at all differences (not at a slice, a single element or one extreme of them).
R13.7 (sign abstraction of the helper summary) the direction the helper reports is decided for every sign pattern of the
      index differences - the differences enter it through comparisons with 0 only, so the seven non-empty subsets of
      {negative, zero, positive} are all there is: steps >= 0 with a positive one give True, steps <= 0 with a negative
      one give False (plateaus included), steps of both signs give None.  Reported only when the right answer is
      impossible under a pattern, or a wrong one certain.
"""

from __future__ import annotations

import ast

from .. import AnalysisError
from ..cfg import CFG, ENTRY, EXIT
from ..common import norm, try_const
from ..dataflow import ReachingDefs
from ..index import Scope, walk_local
from ..report import Check

LEVEL = "other"
EXPLANATION = ("Def-use and shape rules on the frame set-up: windowed accessor, first channel, min/max not crossed, row "
               "count from the leading dimension, user values never overwritten, widening before differencing, purely "
               "relative tolerance, the reported direction under every sign pattern of the index differences. The 0.001 tolerance arithmetic, NaN handling and numpy's median numerics are not "
               "decided. Carries the known finding that derived values persist between writes.")


def run(chk):
    chk.guard(r13_1_2_4, chk)
    chk.guard(r13_3_stale, chk)
    chk.guard(r13_5_6_spacing, chk)
    chk.guard(r13_7_direction_by_sign_pattern, chk)


def _frame_stores(chk):
    from . import c14
    w = c14.write_path_stores(chk)
    return [s for s in w.stores if s.key.startswith("FrameItem.") and s.key.split(".")[1] in
            ("index_min", "index_max", "spacing", "direction") and s.field in ("value", "units")]


def r13_1_2_4(chk):
    """All clauses are read off the semantic store inventory (sa/stores.py): every store into INDEX-MIN / INDEX-MAX /
    SPACING / DIRECTION made by code reachable from DLISFile.write, with the value and the path condition rewritten into
    the frame's own terms - whichever method or helper performs it."""
    from ..terms import (SELF, NONE, A, K, ANY, Wild, match, contains, subterms, is_call, call_name, call_arg, pp,
                         return_alternatives, alternatives)
    ix = chk.ix
    fr = ix.get_class("FrameItem")
    stores = _frame_stores(chk)
    chk.floor("write-path stores into the frame index attributes", len(stores), 8)
    for s in stores:
        chk.consult(s.func)
    first = ("sub", A(SELF, "channels", "value"), K(0))
    datas = {x for s in stores for x in subterms(s.value) if x[0] == "param" and x != SELF}
    if len(datas) != 1:
        raise AnalysisError(f"frame set-up: expected one data parameter feeding the index statistics, found {datas}")
    data = next(iter(datas))
    acc = ("sub", data, A(first, "name"))

    def is_index_data(t):
        return t == acc or (t[0] == "sub" and t[1] == acc and t[2] == ("slice", NONE, NONE, NONE))
    # R13.1: every data-derived value is computed from data[<first channel>.name] (the windowed accessor), nothing else
    for s in stores:
        if not contains(s.value, data):
            continue
        roots = [x for x in subterms(s.value) if x[0] == "sub" and x[1] == data]
        other = [x for x in subterms(s.value) if x == data]
        ok = bool(roots) and all(r == acc for r in roots) and len(other) == len(roots)
        chk.require(ok, "R13.1", f"statistics-from-windowed-accessor:{s.key}",
                    f"{s.key} is computed from `{pp(s.value)[:80]}`, not only from the windowed accessor "
                    f"data[<first channel of the frame>.name]", s.where)
    from . import c11
    acc_f = ix.get_method("SourceDataWrapper", "__getitem__")
    gi = chk.summary(acc_f)
    win_ = c11._Window(chk, ix.get_class("SourceDataWrapper"))
    rets = [t for _, t, _ in gi.returns]
    chk.require(bool(rets) and all(t[0] == "sub" and win_.is_whole_window(t[2], gi.props) for t in rets), "R13.1",
                "accessor-applies-window",
                "the accessor used for the statistics does not apply the row window", acc_f.where)
    # R13.2: user values win - each store happens only where the target was found unset
    seen = set()
    for s in stores:
        target = ("attr", s.base, s.field)
        unset = [l for l in s.pc if l == ("cmp", "is", target, NONE)]
        if (s.key, bool(unset)) in seen:
            continue
        seen.add((s.key, bool(unset)))
        chk.require(bool(unset), "R13.2", f"only-if-None:{s.key}",
                    f"{s.func.short} stores into {s.key} under {[pp(l)[:50] for l in s.pc]}: a value supplied by the user "
                    f"is overwritten", s.where)
    from . import c05
    n0 = len(chk.obs)
    c05.r05_3_routing(chk)
    keep = [o for o in chk.obs[n0:] if "AttrSetup" in o.key or "non-None" in o.key]
    for o in keep:
        o.rule = "R13.2"
    chk.obs[n0:] = keep
    # R13.4
    no_type = ("cmp", "is", A(SELF, "index_type", "value"), NONE)
    has_type = ("cmp", "is not", A(SELF, "index_type", "value"), NONE)

    def vals(key, lit):
        return [s for s in stores if s.key == key and lit in s.pc]
    a = vals("FrameItem.index_min.value", no_type)
    b = vals("FrameItem.spacing.value", no_type)
    chk.require(bool(a) and bool(b) and all(s.value == K(1) for s in a + b), "R13.4", "no-index-type:min=1,spacing=1",
                f"without index type INDEX-MIN / SPACING default to {[pp(s.value) for s in a]} / "
                f"{[pp(s.value) for s in b]}", fr.where)
    mx = vals("FrameItem.index_max.value", no_type)

    def row_count(t):
        return (t[0] == "sub" and t[2] == K(0) and t[1][0] == "attr" and t[1][2] == "shape" and is_index_data(t[1][1])) \
            or (is_call(t, "len", 1) and t[1] == ("global", "len") and is_index_data(t[2][0]))
    chk.require(bool(mx) and all(row_count(s.value) for s in mx), "R13.4", "no-index-type:max=row-count",
                f"without index type INDEX-MAX is `{[pp(s.value) for s in mx]}`; it must be the number of rows written "
                f"(leading dimension of the windowed data), not e.g. the number of elements", fr.where)

    def stat(t, name):
        return (is_call(t, name, 0) and t[1][0] == "attr" and is_index_data(t[1][1])) or \
            (is_call(t, name, 1) and t[1][0] == "global" and is_index_data(t[2][0])) or \
            (is_call(t, "item", 0) and t[1][0] == "attr" and stat(t[1][1], name))
    mn = vals("FrameItem.index_min.value", has_type)
    mxx = vals("FrameItem.index_max.value", has_type)
    chk.require(bool(mn) and bool(mxx) and all(stat(s.value, "min") for s in mn) and all(stat(s.value, "max") for s in mxx),
                "R13.4", "index-type:min/max-not-crossed",
                f"INDEX-MIN / INDEX-MAX are taken from {[pp(s.value)[:60] for s in mn]} / "
                f"{[pp(s.value)[:60] for s in mxx]}", fr.where)
    sp = vals("FrameItem.spacing.value", has_type)
    dr = vals("FrameItem.direction.value", has_type)
    ok = bool(sp) and bool(dr)
    helper_call = None
    for s in sp:
        b_ = match(("sub", Wild("h", lambda t: t[0] == "call"), K(0)), s.value)
        ok = ok and b_ is not None and ("cmp", "is not", s.value, NONE) in s.pc
        if b_:
            helper_call = b_["h"]
    if helper_call is not None:
        ok = ok and all(is_index_data(x) for x in helper_call[2]) and len(helper_call[2]) == 1
        sense = ("sub", helper_call, K(1))
        want = ("ite", ("cmp", ">", sense, K(0)), K("INCREASING"), K("DECREASING"))
        alt = ("ite", sense, K("INCREASING"), K("DECREASING"))
        for s in dr:
            ok = ok and s.value in (want, alt) and ("cmp", "is", ("sub", helper_call, K(0)), NONE) in s.pc and \
                ("cmp", "is not", sense, NONE) in s.pc
    else:
        ok = False
    chk.require(ok, "R13.4", "spacing-xor-direction", "SPACING is not written exactly when the helper reports a uniform "
                "spacing (its first result, computed from the index data), and DIRECTION ('INCREASING' for a positive "
                "sense, only when a sense was determined) otherwise", fr.where)
    if helper_call is None:
        raise AnalysisError("spacing / direction helper call not found")
    tg = [f for su in [chk.summary(s.func) for s in sp] for c, fs in su.calls.items() if call_name(c) == call_name(helper_call)
          for f in fs]
    if not tg:
        tg = [fr.lookup(call_name(helper_call))]
    comp = tg[0]
    chk.consult(comp)
    cs = chk.terms.inline(comp, 2)
    sense_ok, n_alt = True, 0
    for conds, t in return_alternatives(cs):
        if t[0] != "tuple" or len(t[1]) != 2:
            sense_ok = False
            continue
        for c2, d in alternatives(t[1][1]):
            n_alt += 1
            allc = tuple(conds) + tuple(c2)
            nonneg = any(contains(l, lambda x: x[0] == "cmp" and x[1] in (">=", ">") and x[3] == K(0)) and l[0] != "not"
                         for l in allc)
            nonpos = any(contains(l, lambda x: x[0] == "cmp" and x[1] in ("<=", "<") and x[3] == K(0)) and l[0] != "not"
                         for l in allc)
            if d == K(True):
                sense_ok = sense_ok and nonneg
            elif d == K(False):
                sense_ok = sense_ok and nonpos
            elif d != NONE:
                sense_ok = False
    # (when the sign abstraction of R13.7 reads the tests, it decides the sense exactly; the shape test below is the
    # fall-back for forms it does not read)
    if _direction_worlds(chk)[1]:
        sense_ok = all(d in (K(True), K(False), NONE) for c_, t_ in return_alternatives(cs) if t_[0] == "tuple" and
                       len(t_[1]) == 2 for _c2, d in alternatives(t_[1][1]))
    chk.require(sense_ok and n_alt >= 3, "R13.4", "direction-sense",
                "the direction flag is not True exactly under `all differences >= 0` and False under `all <= 0`",
                comp.where)
    rets = [t for _, t in return_alternatives(cs)]
    chk.require(len(rets) >= 1 and all(t[0] == "tuple" and len(t[1]) == 2 for t in rets), "R13.4",
                "helper-returns-(spacing,direction)", f"helper returns {[pp(t)[:40] for t in rets[:4]]}", comp.where)


def r13_3_stale(chk):
    from . import c14
    tmp = Check("C14", "quick", 0, chk.ix, chk.cg, quiet=True)
    c14.r14_5_write_path_stores(tmp)
    for o in tmp.obs:
        if "FrameItem" in o.key:
            o.rule = "R13.3"
            chk.obs.append(o)


def r13_5_6_spacing(chk):
    from ..terms import (K, NONE, contains, subterms, is_call, call_arg, pp, return_alternatives, alternatives, calls_in)
    ix = chk.ix
    comp = ix.get_method("FrameItem", "_compute_spacing_and_direction")
    chk.consult(comp)
    cs = chk.terms.inline(comp, 2)
    idx = ("param", comp.param_names[-1])
    terms = [t for _, t in return_alternatives(cs)] + [l for c, _ in return_alternatives(cs) for l in c]
    diffs = list(dict.fromkeys(c for t in terms for c in calls_in(t, "diff")))
    subs = [x for t in terms for x in subterms(t) if x[0] == "bin" and x[1] == "-" and
            contains(x[2], idx) and contains(x[3], idx)]
    chk.floor("difference operations on the index data", len(diffs) + len(subs), 1)
    wide = ("np.int64", "np.float64", "float", "'int64'", "'float64'", "np.longdouble", "np.float128")

    def widened(t):
        return is_call(t, "astype") and t[1][0] == "attr" and pp(call_arg(t, 0, "dtype")) in wide

    def integer_test(l):
        return contains(l, lambda x: is_call(x, "issubdtype") and pp(call_arg(x, 1)) in ("np.integer", "numpy.integer"))
    for d in diffs:
        arg = call_arg(d, 0)
        ok = True
        for conds, alt in alternatives(arg):
            ok = ok and (widened(alt) or any(l[0] == "not" and integer_test(l) for l in conds))
        chk.require(ok, "R13.5", f"widened-before-diff:{pp(d)[:30]}",
                    "np.diff keeps the dtype of its input: for unsigned or narrow integer index data the differences of a "
                    "decreasing index wrap around (uint8 [9, 7] -> 254); the data are not widened for every integer type "
                    "before differencing", comp.where)
    for x in subs:
        chk.fail("R13.5", f"widened-before-diff:{pp(x)[:30]}", "differences of the raw index data taken by subtraction "
                 "without widening", comp.where)
    close = list(dict.fromkeys(c for t in terms for c in calls_in(t) if is_call(c, ("allclose", "isclose"))))
    for c in close:
        ok = call_arg(c, kw="atol") in (K(0), K(0.0))
        chk.require(ok, "R13.6", f"tolerance-purely-relative:{pp(c[1])}",
                    f"`{pp(c)[:60]}` adds numpy's default absolute tolerance (1e-8): an index with steps of that order is "
                    f"declared uniform however irregular it is", comp.where)

    def relative_test(l):
        return contains(l, lambda x: x[0] == "cmp" and x[1] in ("<", "<=") and x[3][0] == "const"
                        and isinstance(x[3][1], float) and contains(x[2], lambda y: y[0] == "bin" and y[1] == "/"))
    # the spacing component of every return, with the conditions it is the value under (each component of the pair may
    # be a conditional of its own when it is computed by a helper)
    spacings = [(tuple(c) + tuple(c2), sp) for c, t in return_alternatives(cs) if t[0] == "tuple" and len(t[1]) == 2
                for c2, sp in alternatives(t[1][0])]
    uniform = [c for c, sp in spacings if sp != NONE and any(relative_test(l) and l[0] != "not" for l in c)]
    # ... and it is applied to every difference: the array divided by the median is the (unique) differences themselves,
    # not a selection of them (a slice / single element / reduced value of that array)
    partial, reductions = [], set()
    from ..terms import call_name
    for c, sp in spacings:
        for l in c:
            if not relative_test(l) or l[0] == "not":
                continue
            for x in subterms(l):
                if x[0] == "bin" and x[1] == "/":
                    num = x[2]
                    if any(y[0] == "sub" and contains(y[1], lambda z: is_call(z, ("diff", "unique")))
                           for y in subterms(num)):
                        partial.append(pp(num)[:60])
                    for y in subterms(num):
                        if is_call(y, ("max", "min", "amax", "amin", "mean", "median", "ptp")) and \
                                contains(y, lambda z: is_call(z, ("diff", "unique"))):
                            reductions.add(call_name(y).lstrip("a"))
    # (testing both the largest and the smallest difference is the same as testing all of them)
    if reductions and not {"max", "min"} <= reductions:
        partial.append("only the " + " / ".join(sorted(reductions)) + " of the differences")
    chk.require(not partial, "R13.6", "tolerance-over-all-differences",
                f"the relative tolerance test looks at a part of the index differences only ({sorted(set(partial))}): "
                f"irregular steps elsewhere are reported as a uniform spacing", comp.where)
    chk.require(bool(close) or bool(uniform), "R13.6", "relative-tolerance-test-present",
                "the documented relative tolerance test (squared relative deviation from the median < 0.001) no longer "
                "decides when a non-constant spacing is reported", comp.where)
    zero = [c for c, sp in spacings if sp == NONE and
            any(l[0] == "cmp" and l[1] == "==" and l[3] in (K(0), K(0.0)) for l in c)]
    chk.require(bool(zero) or bool(close), "R13.6", "zero-median-guard", "division by a zero median is not guarded",
                comp.where, nontrivial=False)


# ---------------------------------------------------------------------------------------------- R13.7 sign abstraction
_CMP = {"==": lambda a, b: a == b, "!=": lambda a, b: a != b, "<": lambda a, b: a < b, "<=": lambda a, b: a <= b,
        ">": lambda a, b: a > b, ">=": lambda a, b: a >= b}


class _Arr:
    """The index differences (or their sorted unique values) under a sign pattern W: all that is known of the elements
    is the set of their signs."""
    def __init__(self, signs, ordered):
        self.signs, self.ordered = tuple(sorted(signs)), ordered


class _Bools:
    def __init__(self, values):
        self.values = tuple(values)


def _sign_eval(t, W, idx):
    """Value of term t when the differences of the index have exactly the signs W: True / False / a sign (-1, 0, 1) /
    _Arr / _Bools, or None when it is not determined by the sign pattern (or not understood)."""
    from ..terms import is_call, call_arg, contains, call_name
    if not isinstance(t, tuple) or not t:
        return None
    k = t[0]
    if k == "const":
        return t[1] if isinstance(t[1], bool) else None
    if k == "not":
        v = _sign_eval(t[1], W, idx)
        return (not v) if isinstance(v, bool) else None
    if k in ("and", "or"):
        vs = [_sign_eval(x, W, idx) for x in t[1]]
        vs = [v if isinstance(v, bool) else None for v in vs]
        if k == "and":
            return False if any(v is False for v in vs) else (True if all(v is True for v in vs) else None)
        return True if any(v is True for v in vs) else (False if all(v is False for v in vs) else None)
    if k == "cmp" and t[1] in _CMP:
        a = _sign_eval(t[2], W, idx)
        zero = t[3] in (("const", 0), ("const", 0.0))
        if isinstance(a, _Arr) and zero:
            return _Bools(_CMP[t[1]](s_, 0) for s_ in a.signs)
        if isinstance(a, int) and not isinstance(a, bool) and zero:
            return _CMP[t[1]](a, 0)
        # the number of distinct differences: at least the number of distinct signs
        if is_call(t[2], "len") and t[3] == ("const", 1):
            inner = _sign_eval(call_arg(t[2], 0), W, idx)
            if isinstance(inner, _Arr) and inner.ordered and len(W) > 1:
                return {"==": False, "!=": True, ">": True, "<=": False, ">=": True, "<": False}[t[1]]
        return None
    if k == "sub":
        a = _sign_eval(t[1], W, idx)
        if isinstance(a, _Arr) and a.ordered and t[2] in (("const", 0), ("const", -1)):
            return a.signs[0] if t[2] == ("const", 0) else a.signs[-1]
        return None
    if k == "call":
        name = call_name(t)
        recv = t[1][1] if isinstance(t[1], tuple) and t[1][0] == "attr" else None
        arg0 = recv if recv is not None else (t[2][0] if t[2] else None)
        if name == "diff" and arg0 is not None and contains(arg0, idx) and not (len(t[2]) > (0 if recv is not None else 1)
                                                                                 or t[3]):
            return _Arr(W, False)      # first differences of the index data (however widened / converted before)
        a = _sign_eval(arg0, W, idx) if arg0 is not None else None
        plain = not t[3] and len(t[2]) == (0 if recv is not None else 1)
        if isinstance(a, _Arr) and plain:
            if name in ("unique", "sort", "sorted"):
                return _Arr(a.signs, True)
            if name in ("min", "amin", "nanmin"):
                return a.signs[0]
            if name in ("max", "amax", "nanmax"):
                return a.signs[-1]
            if name in ("asarray", "array", "list", "tuple", "ravel", "flatten", "copy"):
                return a
            if name == "set":
                return _Arr(a.signs, False)
            if name == "sign":
                return a
        if isinstance(a, _Bools) and plain:
            if name == "all":
                return all(a.values)
            if name == "any":
                return any(a.values)
        if isinstance(a, (int, bool)) and plain and name in ("item", "bool", "float", "int"):
            return a
        return None
    return None


def r13_7_direction_by_sign_pattern(chk):
    alts, results, comp = _direction_worlds(chk)
    chk.floor("direction alternatives of the helper", len(alts), 3)
    for key, ok, msg in results:
        chk.require(ok, "R13.7", f"direction:{key}-steps", msg, comp.where)
    chk.info["direction_sign_patterns_decided"] = len(results)


def _direction_worlds(chk):
    from ..terms import K, NONE, pp, return_alternatives, alternatives
    comp = chk.ix.get_method("FrameItem", "_compute_spacing_and_direction")
    chk.consult(comp)
    cs = chk.terms.inline(comp, 2)
    idx = ("param", comp.param_names[-1])
    alts = [(tuple(c) + tuple(c2), d) for c, t in return_alternatives(cs) if t[0] == "tuple" and len(t[1]) == 2
            for c2, d in alternatives(t[1][1])]
    worlds = {(1,): K(True), (0, 1): K(True), (-1,): K(False), (-1, 0): K(False), (-1, 1): NONE, (-1, 0, 1): NONE}
    names = {-1: "negative", 0: "zero", 1: "positive"}
    results = []
    for W, want in worlds.items():
        status = []
        for conds, d in alts:
            vs = [_sign_eval(c, W, idx) for c in conds]
            vs = [v if isinstance(v, bool) else None for v in vs]
            st = False if any(v is False for v in vs) else (True if all(v is True for v in vs) else None)
            status.append((st, d))
        if all(st is None for st, _ in status):
            continue        # the pattern decides nothing here: a form of the test this abstraction does not read
        right_possible = any(st is not False for st, d in status if d == want)
        wrong_certain = [d for st, d in status if st is True and d != want and d in (K(True), K(False), NONE)]
        key = "+".join(names[s_] for s_ in W)
        results.append((key, right_possible and not wrong_certain,
                        f"for an index whose steps are {key} the helper reports "
                        f"{pp(wrong_certain[0]) if wrong_certain else 'anything but ' + pp(want)} as the direction; "
                        f"{pp(want)} is the monotonic sense (None = there is none)"))
    return alts, results, comp
