"""C13 - frame index metadata is truthful for the rows written.  (structural clauses)

R13.1 (def-use) the statistics are computed from the windowed accessor (`data[<name>]`, which applies [from_idx:to_idx]),
      never from the raw source, and from the frame's first channel.
R13.2 (CFG) user values win: every store to INDEX-MIN / INDEX-MAX / SPACING / DIRECTION (value or units) on the write path
      goes through the "only if None" helper; explicit values - including 0 - reach the attribute (AttrSetup yields every
      part that is not None).
R13.3 (effects, shared with C14 R14.5) derived values must not outlive the write that derived them  [known finding].
R13.4 (AST) no index type => INDEX-MIN := 1, INDEX-MAX := number of windowed rows (leading dimension), SPACING := 1;
      index type => INDEX-MIN from min(), INDEX-MAX from max() (not crossed); spacing only on the "uniform" result,
      direction only otherwise; the sign mapping is consistent.
R13.5 (dtype lattice) differences are taken in a type that cannot wrap: integer index data are widened before np.diff.
R13.6 (AST) the uniformity test is purely relative (no absolute tolerance that swallows small-step indexes).
"""

from __future__ import annotations

import ast

from .. import AnalysisError
from ..cfg import CFG, ENTRY, EXIT
from ..common import norm, try_const
from ..dataflow import ReachingDefs
from ..index import Scope, walk_local
from ..report import Check

LEVEL = "other"
EXPLANATION = ("Def-use and shape rules on the frame set-up: windowed accessor, first channel, min/max not crossed, row "
               "count from the leading dimension, user values never overwritten, widening before differencing, purely "
               "relative tolerance. The 0.001 tolerance arithmetic, NaN handling and numpy's median numerics are not "
               "decided. Carries the known finding that derived values persist between writes.")


def run(chk):
    chk.guard(r13_1_2_4, chk)
    chk.guard(r13_3_stale, chk)
    chk.guard(r13_5_6_spacing, chk)


def r13_1_2_4(chk):
    ix = chk.ix
    fr = ix.get_class("FrameItem")
    f = fr.lookup("_setup_frame_params_from_data")
    chk.consult(f)
    rd = ReachingDefs(f)
    calls = [n for n in walk_local(f.node) if isinstance(n, ast.Call) and isinstance(n.func, ast.Name)
             and n.func.id == "assign_if_none"]
    chk.floor("assign_if_none calls", len(calls), 7)
    # R13.1: index_data = data[<first channel>.name][...]
    defs = []
    for n in walk_local(f.node):
        if isinstance(n, ast.Assign) and any(isinstance(t, ast.Name) and t.id == "index_data" for t in n.targets):
            defs.append(n)
    ok = len(defs) == 1 and norm(defs[0].value).startswith("data[index_channel.name]")
    chk.require(ok, "R13.1", "statistics-from-windowed-accessor",
                f"the index statistics are computed from `{[norm(d.value) for d in defs]}`, not from the windowed accessor "
                f"data[<index channel>.name]", f.where)
    ic = [n for n in walk_local(f.node) if isinstance(n, (ast.Assign, ast.AnnAssign))
          and "index_channel" in norm(n.targets[0] if isinstance(n, ast.Assign) else n.target)]
    ok = len(ic) == 1 and norm(ic[0].value) == "self.channels.value[0]"
    chk.require(ok, "R13.1", "index-channel-is-first-channel", "the index channel is not the frame's first channel", f.where)
    acc = ix.get_method("SourceDataWrapper", "__getitem__")
    chk.require("data[self._from_idx:self._to_idx]" in norm(acc.node), "R13.1", "accessor-applies-window",
                "the accessor used for the statistics does not apply the row window", acc.where)
    # R13.2: all stores to the four attributes go through assign_if_none
    helper = f.nested.get("assign_if_none")
    if helper is None:
        raise AnalysisError("assign_if_none helper not found")
    s = norm(helper.node)
    chk.require("if getattr(attr, key) is None and value is not None" in s and "setattr(attr, key, value)" in s, "R13.2",
                "helper-assigns-only-if-None", "the helper overwrites values that are already set", helper.where)
    direct = []
    for n in walk_local(f.node):
        if isinstance(n, ast.Assign):
            for t in n.targets:
                if isinstance(t, ast.Attribute) and t.attr in ("value", "units") and any(
                        w in norm(t.value) for w in ("index_min", "index_max", "spacing", "direction")):
                    direct.append(n)
    chk.require(not direct, "R13.2", "no-direct-stores", f"index metadata is stored directly: {[norm(d) for d in direct]}",
                f.where)
    from . import c05
    n0 = len(chk.obs)
    c05.r05_3_routing(chk)
    keep = [o for o in chk.obs[n0:] if "AttrSetup" in o.key or "non-None" in o.key]
    for o in keep:
        o.rule = "R13.2"
    chk.obs[n0:] = keep
    # R13.4
    by_attr = {}
    for c in calls:
        by_attr.setdefault(norm(c.args[0]), []).append(c)
    g = CFG(f.node)
    noidx = [i for i in g.branch if "index_type" in norm(g.stmt[i].test) and "is None" in norm(g.stmt[i].test)]
    if len(noidx) != 1:
        raise AnalysisError("index-type test not found")
    ifn = g.stmt[noidx[0]]
    then_calls = [c for c in calls if any(x is c for b in ifn.body for x in ast.walk(b))]
    else_calls = [c for c in calls if any(x is c for b in ifn.orelse for x in ast.walk(b))]

    def val_of(cs, attr):
        vs = [norm(c.args[1]) if len(c.args) > 1 else norm([k.value for k in c.keywords if k.arg == "value"][0])
              for c in cs if norm(c.args[0]) == attr and not any(k.arg == "key" for k in c.keywords)]
        return vs
    chk.require(val_of(then_calls, "self.index_min") == ["1"] and val_of(then_calls, "self.spacing") == ["1"], "R13.4",
                "no-index-type:min=1,spacing=1", f"without index type INDEX-MIN / SPACING default to "
                f"{val_of(then_calls, 'self.index_min')} / {val_of(then_calls, 'self.spacing')}", f.where)
    mx = val_of(then_calls, "self.index_max")
    chk.require(mx in (["index_data.shape[0]"], ["len(index_data)"]), "R13.4", "no-index-type:max=row-count",
                f"without index type INDEX-MAX is `{mx}`; it must be the number of rows written (leading dimension), "
                f"not e.g. the number of elements", f.where)
    chk.require(val_of(else_calls, "self.index_min") == ["index_data.min()"]
                and val_of(else_calls, "self.index_max") == ["index_data.max()"], "R13.4", "index-type:min/max-not-crossed",
                f"INDEX-MIN / INDEX-MAX are taken from {val_of(else_calls, 'self.index_min')} / "
                f"{val_of(else_calls, 'self.index_max')}", f.where)
    sp = [i for i in g.branch if norm(g.stmt[i].test) == "spacing is None"]
    ok = len(sp) == 1
    if ok:
        st = g.stmt[sp[0]]
        dir_calls = [c for c in calls if norm(c.args[0]) == "self.direction"]
        spc_calls = [c for c in else_calls if norm(c.args[0]) == "self.spacing" and not any(k.arg == "key"
                                                                                        for k in c.keywords)]
        ok = all(any(x is c for b in st.body for x in ast.walk(b)) for c in dir_calls) and bool(dir_calls) \
            and all(any(x is c for b in st.orelse for x in ast.walk(b)) for c in spc_calls) and bool(spc_calls)
        ok = ok and norm(dir_calls[0].args[1]) == "'INCREASING' if direction > 0 else 'DECREASING'"
        ok = ok and norm(spc_calls[0].args[1]) == "spacing"
    chk.require(ok, "R13.4", "spacing-xor-direction", "SPACING is not written exactly when the spacing is uniform and "
                "DIRECTION (INCREASING for a positive sense) otherwise", f.where)
    comp = fr.lookup("_compute_spacing_and_direction")
    s = norm(comp.node)
    chk.require("elif (diff_unique >= 0).all(): direction = True" in s.replace("\n", " ")
                or "direction = True" in s and "(diff_unique >= 0).all()" in s, "R13.4", "direction-sense",
                "the direction flag is not True for non-negative differences", comp.where)
    call = [n for n in walk_local(f.node) if isinstance(n, ast.Call) and "_compute_spacing_and_direction" in norm(n.func)]
    ok = len(call) == 1 and norm(call[0].args[0]) == "index_data"
    tgt = [n for n in walk_local(f.node) if isinstance(n, ast.Assign) and n.value is (call[0] if call else None)]
    ok = ok and len(tgt) == 1 and norm(tgt[0].targets[0]) == "(spacing, direction)"
    chk.require(ok, "R13.4", "helper-results-not-crossed", "the (spacing, direction) results of the helper are crossed or "
                "computed from other data", f.where)
    rets = [norm(n.value) for n in walk_local(comp.node) if isinstance(n, ast.Return)]
    chk.require(all(r.endswith(", direction)") or r.endswith(", direction") for r in rets) and len(rets) >= 3, "R13.4",
                "helper-returns-(spacing,direction)", f"helper returns {rets}", comp.where)


def r13_3_stale(chk):
    from . import c14
    tmp = Check("C14", "quick", 0, chk.ix, chk.cg, quiet=True)
    c14.r14_5_write_path_stores(tmp)
    for o in tmp.obs:
        if "FrameItem" in o.key:
            o.rule = "R13.3"
            chk.obs.append(o)


def r13_5_6_spacing(chk):
    ix = chk.ix
    comp = ix.get_method("FrameItem", "_compute_spacing_and_direction")
    chk.consult(comp)
    rd = ReachingDefs(comp)
    diffs = [n for n in walk_local(comp.node) if isinstance(n, ast.Call) and norm(n.func) in ("np.diff", "numpy.diff")]
    subs = [n for n in walk_local(comp.node) if isinstance(n, ast.BinOp) and isinstance(n.op, ast.Sub)
            and "index_data" in norm(n)]
    chk.floor("difference operations on the index data", len(diffs) + len(subs), 1)
    for d in diffs:
        at = rd.stmt_containing(d)
        arg = d.args[0]
        flows = rd.expand(arg, at)
        widened = any(".astype(np.int64)" in fl or ".astype(np.float64)" in fl or ".astype(float)" in fl
                      or "astype('int64')" in fl or "astype('float64')" in fl for fl in flows)
        # the widening must be applied whenever the data are of integer type
        guard_ok = False
        for n in walk_local(comp.node):
            if isinstance(n, ast.If) and "np.issubdtype(index_data.dtype" in norm(n.test) and \
                    ("np.integer" in norm(n.test)) and any("astype" in norm(b) for b in n.body):
                guard_ok = True
        uncond = any(isinstance(n, ast.Assign) and "astype" in norm(n.value) and "index_data" in norm(n.targets[0])
                     for n in comp.node.body)
        chk.require(widened and (guard_ok or uncond), "R13.5", f"widened-before-diff:{norm(d)[:30]}",
                    "np.diff keeps the dtype of its input: for unsigned or narrow integer index data the differences of a "
                    "decreasing index wrap around (uint8 [9, 7] -> 254); the data are not widened for every integer type "
                    "before differencing", f"{comp.module.relpath}:{d.lineno}")
    close = [n for n in walk_local(comp.node) if isinstance(n, ast.Call) and norm(n.func).split(".")[-1] in
             ("allclose", "isclose")]
    for c in close:
        atol = [k for k in c.keywords if k.arg == "atol"]
        ok = bool(atol) and try_const(atol[0].value) in (0, 0.0)
        chk.require(ok, "R13.6", f"tolerance-purely-relative:{norm(c.func)}",
                    f"`{norm(c)[:60]}` adds numpy's default absolute tolerance (1e-8): an index with steps of that order is "
                    f"declared uniform however irregular it is", f"{comp.module.relpath}:{c.lineno}")
    s = norm(comp.node)
    chk.require(bool(close) or "(1 - diff_unique / median_diff) ** 2" in s and "< 0.001" in s, "R13.6",
                "relative-tolerance-test-present", "the documented relative tolerance test (squared relative deviation "
                "< 0.001) is gone", comp.where)
    chk.require("if median_diff == 0" in s, "R13.6", "zero-median-guard", "division by a zero median is not guarded",
                comp.where, nontrivial=False)
