"""C17 - high-compatibility mode enforces its restrictions and never leaks.

R17.1 save / set / restore-on-every-exit of the mode flag in the context manager (CFG, exceptional edges included);
      decorator form enters the same context manager; a class-based manager that keeps the saved value on the instance
      must be constructed per entry (directly in a `with`): an instance that is stored, returned or used as a decorator
      is shared by overlapping entries.
R17.2 single writer of the flag.            R17.3 every read of the flag is a live read inside a function body.
R17.4 every function reading the flag has the shape "flag set => raise" (or is the file-set-number site);
      raise_or_warn call sites and soft enum converters are enumerated and sit on the build / write path.
R17.5 names, set identifier and header id go through the validator; the pattern is exactly [A-Z0-9_-]+ with fullmatch.
R17.6 the write-time checks dominate record generation.
R17.7 (value flow) the enum converter lets a given text through unchanged on the strength of the enum's *values* only: no
      condition under which it returns the given text tests that text against the member names (a member name such as
      'BOREHOLE_DEPTH' is not one of the standard's strings and would be written verbatim, in the mode too).
"""

from __future__ import annotations

import ast

from .. import AnalysisError
from ..cfg import CFG, ENTRY, EXIT, RAISE
from ..common import Model, norm, kw, call_name, try_const, is_self_attr
from ..index import Scope, walk_local, walk_expr

LEVEL = "other"
EXPLANATION = ("Decides, on the control-flow graph and the flag's def-use sites, the structural clauses of C17: the flag "
               "is saved, set and restored on every normal and exceptional exit; it has one writer; every reader is a "
               "live read with a 'flag => raise' shape; validators cover names/identifiers; write-time checks dominate "
               "record generation; the enum converter lets a text through on the strength of the member values only. Not decided: that every accepted specification satisfies all restrictions at once "
               "(a runtime quantity) - only that each restriction has an enforcing site on a path every build/write "
               "must take.")

FLAG = "high_compat_mode"


def eval3(test, assume):
    """Three-valued evaluation of a boolean expression; assume(node) -> True/False/None for atoms."""
    a = assume(test)
    if a is not None:
        return a
    if isinstance(test, ast.UnaryOp) and isinstance(test.op, ast.Not):
        v = eval3(test.operand, assume)
        return None if v is None else (not v)
    if isinstance(test, ast.BoolOp):
        vals = [eval3(v, assume) for v in test.values]
        if isinstance(test.op, ast.And):
            if any(v is False for v in vals):
                return False
            return True if all(v is True for v in vals) else None
        if any(v is True for v in vals):
            return True
        return False if all(v is False for v in vals) else None
    if isinstance(test, ast.Constant):
        return bool(test.value)
    return None


def is_flag_load(n) -> bool:
    return isinstance(n, ast.Attribute) and n.attr == FLAG and isinstance(n.ctx, ast.Load)


def flag_reads(func):
    return [n for n in walk_local(func.node) if is_flag_load(n)]


def run(chk):
    ix, cg = chk.ix, chk.cg
    model = Model(ix)

    # ------------------------------------------------------------------ locate flag stores and loads package-wide
    stores, loads, bad_loads = [], [], []
    for mod in ix.modules.values():
        func_ranges = []
        for n in ast.walk(mod.tree):
            if isinstance(n, ast.Attribute) and n.attr == FLAG:
                if isinstance(n.ctx, ast.Store):
                    stores.append((mod, n))
                elif isinstance(n.ctx, ast.Load):
                    loads.append((mod, n))
            if isinstance(n, ast.Call) and isinstance(n.func, ast.Name) and n.func.id == "setattr" \
                    and len(n.args) >= 2 and try_const(n.args[1]) == FLAG:
                stores.append((mod, n))
    # owner function of a node
    def owner(mod, node):
        best = None
        for f in ix.functions.values():
            if f.module is mod and isinstance(f.node, (ast.FunctionDef, ast.Lambda)):
                if f.node.lineno <= node.lineno <= getattr(f.node, "end_lineno", f.node.lineno):
                    if best is None or f.node.lineno >= best.node.lineno:
                        best = f
        return best

    def in_defaults(f, node):
        a = f.node.args
        for d in list(a.defaults) + [d for d in a.kw_defaults if d is not None]:
            if any(x is node for x in ast.walk(d)):
                return True
        for dec in getattr(f.node, "decorator_list", []):
            if any(x is node for x in ast.walk(dec)):
                return True
        return False

    # ------------------------------------------------------------------ R17.1 context manager
    cms = [f for f in ix.functions.values()
           if any(d.split(".")[-1] == "contextmanager" for d in f.decorators)
           and any(isinstance(n, ast.Attribute) and n.attr == FLAG and isinstance(n.ctx, ast.Store)
                   for n in walk_local(f.node))]
    cm_classes = [c for c in ix.classes.values() if c.methods.get("__enter__") is not None
                  and c.methods.get("__exit__") is not None
                  and any(isinstance(n, ast.Attribute) and n.attr == FLAG and isinstance(n.ctx, ast.Store)
                          for n in walk_local(c.methods["__enter__"].node))]
    if len(cms) + len(cm_classes) != 1:
        raise AnalysisError(f"expected exactly one context manager storing the mode flag, found "
                            f"{len(cms)} generator-based and {len(cm_classes)} class-based")
    if cm_classes:
        cm = None
        writers_ok = _class_based_cm(chk, ix, cm_classes[0])
        cm_funcs = {cm_classes[0].methods["__enter__"], cm_classes[0].methods["__exit__"]}
    else:
        cm = cms[0]
        cm_funcs = {cm}
        _generator_cm(chk, ix, cm)

    # ------------------------------------------------------------------ R17.2 single writer
    chk.floor("stores to the mode flag", len(stores), 2)
    other_writers = set()
    for mod, n in stores:
        f = owner(mod, n)
        if f is None:
            chk.fail("R17.2", f"store:{mod.name}:{norm(n)}", "the mode flag is written at module level",
                     f"{mod.relpath}:{n.lineno}")
        elif f in cm_funcs:
            chk.ok("R17.2", f"store:{f.short}:{norm(n)}", "inside the context manager", f"{mod.relpath}:{n.lineno}",
                   nontrivial=False)
        else:
            other_writers.add(f)
    if "decorator_forms" in chk.info:
        chk.info["decorator_forms"] += len(other_writers)
    for f in sorted(other_writers, key=lambda x: x.qualname):
        # another function switching the mode: it must follow the same save / set / restore-on-every-exit discipline
        n0 = len(chk.obs)
        _generator_cm(chk, ix, f)
        for o in chk.obs[n0:]:
            o.rule = "R17.2"
            o.key = f"{f.short}:{o.key}"
            if o.status == "violated":
                o.detail = f"{f.short} switches the mode flag itself: " + o.detail
    # the config object itself is created once and never rebound
    rebinds = []
    for mod in ix.modules.values():
        for n in ast.walk(mod.tree):
            if isinstance(n, (ast.Assign, ast.AugAssign, ast.AnnAssign)):
                tg = n.targets if isinstance(n, ast.Assign) else [n.target]
                for t in tg:
                    if isinstance(t, ast.Name) and t.id == "global_config":
                        rebinds.append((mod, n))
                    if isinstance(t, ast.Attribute) and t.attr == "global_config":
                        rebinds.append((mod, n))
            if isinstance(n, ast.Global) and "global_config" in n.names:
                rebinds.append((mod, n))
    chk.require(len(rebinds) == 1 and rebinds[0][0].name.endswith("configuration"), "R17.2", "config-object-bound-once",
                f"the configuration object is (re)bound at {[(m.relpath, x.lineno) for m, x in rebinds]}",
                rebinds[0][0].relpath if rebinds else "")

    # ------------------------------------------------------------------ R17.3 live reads
    readers = {}
    for mod, n in loads:
        f = owner(mod, n)
        ok = f is not None and not in_defaults(f, n)
        chk.require(ok, "R17.3", f"read:{f.short if f else mod.name}:{n.lineno - (f.node.lineno if f else 0)}",
                    "the mode flag is read at import / definition time (module level, default argument or "
                    "decorator), so later changes of the mode are not seen", f"{mod.relpath}:{n.lineno}",
                    nontrivial=False)
        if ok:
            readers.setdefault(f, []).append(n)
    for cf in list(cm_funcs) + list(other_writers):
        readers.pop(cf, None)

    # ------------------------------------------------------------------ R17.4 shape of every reader
    # restriction sites by role: each must still consult the live flag
    roles = {
        "name validator": ix.get_function("validate_string"),
        "raise_or_warn helper": ix.get_function("raise_or_warn"),
    }
    from ..common import enum_converter
    roles["soft enum converter"] = enum_converter(ix, chk.terms)[0]
    origin_methods = [m for m in ix.get_class("OriginItem").methods.values()]
    origin_readers = [m for m in origin_methods if m in readers]

    def consults(f):
        # the function itself, or a helper of its own class / module that it calls
        if f in readers:
            return True
        return any(g in readers for g in cg.reachable([f]) if g is not f and (
            (f.cls is not None and g.cls is f.cls) or (f.cls is None and g.cls is None and g.module is f.module)))
    for role, f in roles.items():
        chk.require(consults(f), "R17.4", f"consults-flag:{role}",
                    f"{f.short} no longer reads the live mode flag: its restriction cannot be enforced in the mode",
                    f.where)
    chk.require(bool(origin_readers), "R17.4", "consults-flag:file set number",
                "OriginItem no longer consults the mode flag when choosing the default file set number",
                ix.get_class("OriginItem").where)
    chk.info["flag_readers"] = sorted(f.short for f in readers)

    raise_or_warn = roles["raise_or_warn helper"]
    origin_cls = ix.get_class("OriginItem")
    for f, reads in sorted(readers.items(), key=lambda kv: kv[0].qualname):
        chk.consult(f)
        g = CFG(f.node)
        shape = None
        detail = ""
        tshape = _term_shape(chk, f, origin_cls)
        if tshape is not None:
            chk.ok("R17.4", f"reader:{f.short}", f"shape={tshape}", f"{f.module.relpath}:{reads[0].lineno}")
            continue
        for ifn, (te, fe) in g.branch.items():
            test = g.stmt[ifn].test
            if not any(is_flag_load(x) for x in ast.walk(test)):
                continue
            v_on = eval3(test, lambda a: True if is_flag_load(a) else None)
            v_off = eval3(test, lambda a: False if is_flag_load(a) else None)
            if v_on is not None and v_on == v_off:
                continue
            if v_on is not None:
                on_branch, other = (te, fe) if v_on else (fe, te)
            elif v_off is not None:
                on_branch, other = (fe, te) if v_off else (te, fe)
            else:
                continue
            reach = g.reachable(on_branch, exceptional=False)
            reach_other = g.reachable(other, exceptional=False)
            raises = [n for n in reach if g.kind[n] == "raise" and n not in reach_other]
            if raises:
                shape = "raise"
                warn_nodes = [n for n in reach if n not in reach_other and g.stmt.get(n) is not None
                              and not isinstance(g.stmt[n], (ast.If, ast.For, ast.While, ast.Try, ast.With))
                              and _is_warning(g.stmt[n])]
                if warn_nodes:
                    shape = None
                    detail = "flag-set branch warns instead of raising"
                break
        if shape is None:
            # file-set-number site: flag-set branch assigns FILE-SET-NUMBER from the origin count, not from random
            shape, detail2 = _fileset_shape(f, g, chk)
            detail = detail or detail2
        where = f"{f.module.relpath}:{reads[0].lineno}"
        if shape is None and not detail:
            if f in roles.values() or f in origin_readers:
                detail = "no raise is conditional on the flag being set"
            else:
                chk.deferred.append(AnalysisError(f"{f.short} reads the mode flag in a shape the checker cannot "
                                                  f"classify ({where})"))
                continue
        chk.require(shape is not None, "R17.4", f"reader:{f.short}",
                    f"mode flag reader lost its enforcement: {detail}", where,
                    detail_ok=f"shape={shape}")
    # raise_or_warn call sites are on the write path
    writef = ix.get_method("DLISFile", "write")
    reach = cg.reachable([writef])
    sites = cg.callers_of(raise_or_warn)
    chk.floor("raise_or_warn call sites", len(sites), 3)
    for s in sites:
        chk.require(s.caller in reach, "R17.4", f"raise_or_warn@{s.caller.short}:{norm(s.node.args[0])[:40] if s.node.args else ''}",
                    "restriction check is not reachable from DLISFile.write", f"{s.caller.module.relpath}:{s.lineno}")
    # soft converters
    soft_sites = []
    for f in ix.functions.values():
        for n in walk_local(f.node):
            if isinstance(n, ast.Call) and call_name(n) == "make_converter" and try_const(kw(n, "soft")) is True:
                soft_sites.append((f, n))
    chk.floor("soft enum converters", len(soft_sites), 5)
    wanted = {"ChannelItem.units": "units", "FrameItem.index_type": "index type", "EquipmentItem._type":
              "equipment type", "EquipmentItem.location": "equipment location"}
    for key, what in wanted.items():
        ds = [d for d in model.decls if d.key == key]
        if not ds:
            raise AnalysisError(f"attribute declaration {key} not found")
        conv = ds[0].kwargs.get("converter")
        ok = isinstance(conv, ast.Call) and call_name(conv) == "make_converter"
        chk.require(ok, "R17.4", f"enum-converter:{key}", f"{what} is no longer validated against its enumeration",
                    ds[0].where)
    # generic units of every attribute: the setter must call the checker and let its exception propagate
    uset = ix.get_class("Attribute").methods.get("units.setter")
    if uset is None:
        raise AnalysisError("Attribute.units setter not found")
    chk.consult(uset)
    calls_checker = any(isinstance(n, ast.Call) and isinstance(n.func, ast.Attribute) and n.func.attr == "_unit_checker"
                        for n in walk_local(uset.node))
    swallowed = any(isinstance(n, ast.Try) for n in walk_local(uset.node))
    chk.require(calls_checker and not swallowed, "R17.4", "units-setter-validates",
                "units assigned to an attribute are not validated (or the validation error is swallowed)", uset.where)

    # ------------------------------------------------------------------ R17.5 validators and the pattern
    vs = ix.get_function("validate_string")
    chk.consult(vs)
    targets = {"EFLRItem.__init__": "name", "StorageUnitLabel.__init__": "set_identifier",
               "FileHeaderItem.__init__": "header_id"}
    for q, field in targets.items():
        cn, mn = q.split(".")
        f = ix.get_method(cn, mn)
        chk.consult(f)
        stores_f = [n for n in walk_local(f.node) if isinstance(n, ast.Assign)
                    and any(is_self_attr(t, field) for t in n.targets)]
        ok = bool(stores_f) and all(isinstance(s.value, ast.Call) and vs in ix.resolve_call(s.value, Scope(ix, f))[0]
                                    for s in stores_f)
        chk.require(ok, "R17.5", f"validated:{q}.{field}",
                    f"{field} is stored without going through the name validator", f.where)
    # pattern
    import re._parser as rp  # stdlib regex *parser* applied to a literal; the repository code is not executed
    pat_expr = vs.module.assigns.get("HC_STRING_PATTERN")
    uses = [n for n in walk_local(vs.node) if isinstance(n, ast.Call) and isinstance(n.func, ast.Attribute)
            and n.func.attr in ("fullmatch", "match", "search") and "PATTERN" in norm(n.func.value)]
    if pat_expr is None or not uses:
        raise AnalysisError("name pattern or its use not found in validate_string")
    lit = try_const(pat_expr.args[0]) if isinstance(pat_expr, ast.Call) and pat_expr.args else None
    ok = False
    detail = f"pattern literal {lit!r}"
    if isinstance(lit, str):
        try:
            tree = rp.parse(lit)
            ok = _is_allowed_class_plus(tree)
        except Exception as exc:  # noqa: BLE001
            detail += f" unparsable: {exc}"
    chk.require(ok, "R17.5", "pattern-class", f"high-compatibility name pattern is not exactly [A-Z0-9_-]+ ({detail})",
                f"{vs.module.relpath}:{pat_expr.lineno}")
    chk.require(all(u.func.attr == "fullmatch" for u in uses), "R17.5", "pattern-anchored",
                "name pattern is applied with match/search instead of fullmatch (suffix/prefix unchecked)", vs.where)
    # validate_string: flag off => accepted; flag on and no match => raise   (shape checked in R17.4)

    # ------------------------------------------------------------------ R17.6 write-time checks dominate generation
    lf = ix.get_class("LogicalFile")
    mk = lf.lookup("_make_multi_frame_data")
    if mk is None:
        raise AnalysisError("LogicalFile._make_multi_frame_data not found")
    chk.consult(mk)
    g = CFG(mk.node)
    sc = Scope(ix, mk)
    cd = lf.lookup("_check_data")
    mfd = ix.get_class("MultiFrameData")
    check_nodes = g.nodes_where(lambda s: _calls(ix, sc, s, cd))
    ctor_nodes = g.nodes_where(lambda s: _constructs(ix, sc, s, mfd))
    chk.require(bool(check_nodes) and bool(ctor_nodes) and all(g.dominated_by(c, check_nodes) for c in ctor_nodes),
                "R17.6", "check_data-dominates-frame-data",
                "signed-integer data check does not precede construction of the frame data generator on every path",
                mk.where)
    from ..terms import SELF, A, K, NONE, is_call, contains, subterms, pp, raise_conditions
    gen = ix.get_method("DLISFile", "generate_logical_records")
    cands = [writef] + [f for f in ix.functions.values() if f.parent is writef] + \
        [f for f in cg.reachable([writef]) if f.module is writef.module and f.cls is writef.cls]
    ok, found = False, False
    for tf in dict.fromkeys(cands):
        # (helpers of the same class are looked through: the loop over the logical files may sit in one)
        su = chk.terms.inline(tf, 2, stop=lambda g_, tf=tf: g_.cls is not tf.cls or g_ is gen or g_.name == "__init__")
        gi = [i for i, e in enumerate(su.effects) if any(
            isinstance(t, tuple) and any(is_call(x, "generate_logical_records") for x in subterms(t))
            for t in (e.base, e.key, e.value))]
        gi += [len(su.effects)] if any(is_call(x, "generate_logical_records") for _, t, _ in su.returns
                                       for x in subterms(t)) else []
        if not gi or tf is gen:
            continue
        # (a generation bound to a local first appears inside the effect that consumes it - which is later still)
        ci = [i for i, e in enumerate(su.effects) if e.kind == "call" and is_call(e.value, "check_objects")
              and not e.pc and len(e.loops()) == 1 and e.loops()[0][0] == "for"
              and e.loops()[0][2] in (A(SELF, "logical_files"), A(("free", "self"), "logical_files"))
              and e.value[1][1] == ("elem", e.loops()[0][2], e.loops()[0][1])]
        found = True
        ok = bool(ci) and min(ci) < min(gi)
        chk.consult(tf)
        break
    if not found:
        raise AnalysisError("the function that calls generate_logical_records on the write path was not found")
    chk.require(ok, "R17.6", "check_objects-dominates-generation",
                "the object checks (channel-frame assignment, ...) of every logical file do not unconditionally precede "
                "record generation in write()", writef.where)
    # the spacing restriction: in the (inlined) frame set-up an indexed frame with non-uniform spacing raises in the
    # mode, and nothing else (such as a spacing value already present) lets that path off
    fsetup = ix.get_method("FrameItem", "setup_from_data")
    # (pure helpers - static methods / module functions that only compute, never refuse - stay opaque calls)
    def pure_helper(g):
        if not (g.kind == "staticmethod" or g.cls is None):
            return False
        su_ = chk.terms.summary(g)
        return not su_.raises and not any(e.kind == "raise" for e in su_.effects)
    fs = chk.terms.inline(fsetup, 4, stop=pure_helper)
    flag = A(("global", "global_config"), FLAG)
    hits = []
    for pc, exc in raise_conditions(fs):
        if flag in pc:
            nonuni = [l for l in pc if l[0] == "cmp" and l[1] == "is" and l[3] == NONE and l[2][0] == "sub"
                      and l[2][1][0] == "call" and l[2][2] == K(0)]
            if nonuni:
                hits.append((pc, nonuni[0]))
    chk.require(bool(hits), "R17.4", "consults-flag:frame index set-up",
                "the frame set-up no longer raises, in the mode, for an index whose spacing is not uniform", fsetup.where)
    for pc, nonuni in hits:
        extra = []
        for l in pc:
            if l in (flag, nonuni):
                continue
            if contains(l, A(SELF, "index_type", "value")) or (contains(l, A(SELF, "channels", "value"))
                                                                and l[0] != "cmp"):
                continue
            if contains(l, lambda x: x[0] == "attr" and x[2] == "ndim"):
                continue
            extra.append(l)
        chk.require(not extra, "R17.6", "spacing-check-not-bypassable",
                    f"the uniform-spacing restriction is enforced only under {[pp(l)[:60] for l in extra]}: a path through "
                    f"the frame set-up of an indexed frame skips it (e.g. when a spacing value is already present)",
                    fsetup.where)
    if "decorator_forms" in chk.info:
        chk.floor("decorator forms entering the context manager", chk.info["decorator_forms"], 1)
    cof = lf.lookup("check_objects")
    ccf = lf.lookup("_check_channels_assigned_to_frames")
    from ..terms import unconditionally_calls
    chk.require(ccf is not None and unconditionally_calls(chk.terms, cof, ccf), "R17.6",
                "check_objects-calls-assignment-check",
                "check_objects no longer runs the channel-frame assignment check", cof.where)
    r17_7_accepts_values_only(chk)


_NAME_TABLES = ("__members__", "_member_names_", "_member_map_")


def _names_collection(t, cls_t) -> bool:
    """Is t a collection of the enum's member *names*: cls.__members__ / _member_names_ / _member_map_ (or their keys,
    or a list / set / tuple of them), or a comprehension over the members that yields `.name`?"""
    from ..terms import subterms
    if not isinstance(t, tuple):
        return False
    if t[0] == "attr" and t[1] == cls_t and t[2] in _NAME_TABLES:
        return True
    if t[0] == "call" and isinstance(t[1], tuple) and t[1][0] == "attr" and t[1][2] == "keys":
        return _names_collection(t[1][1], cls_t)
    if t[0] == "call" and isinstance(t[1], tuple) and t[1][0] == "global" and \
            t[1][1].split(".")[-1] in ("list", "set", "tuple", "frozenset", "sorted") and len(t[2]) == 1:
        return _names_collection(t[2][0], cls_t)
    if t[0] == "comp" and len(t) > 3:
        el = t[2]      # ("comp", kind, element, generators)
        return isinstance(el, tuple) and el[0] == "attr" and el[2] == "name" and \
            any(x == cls_t for x in subterms(t))
    return False


def r17_7_accepts_values_only(chk):
    from ..common import enum_converter
    from ..terms import return_alternatives, pp
    conv, v, cls_t = enum_converter(chk.ix, chk.terms)
    chk.consult(conv)
    cs = chk.terms.inline(conv, 2, stop=lambda g: g.cls is None or g.cls.name != "ValidatorEnum")
    alts = [(c, t) for c, t in return_alternatives(cs) if t == v]
    chk.floor("paths on which the enum converter returns the given text", len(alts), 1)
    bad = []

    def walk(c, pos):
        if not isinstance(c, tuple):
            return
        if c[0] == "not":
            walk(c[1], not pos)
        elif c[0] in ("and", "or"):
            for x in c[1]:
                walk(x, pos)
        elif c[0] == "cmp" and c[1] in ("in", "not in") and c[2] == v and (c[1] == "in") == pos and \
                _names_collection(c[3], cls_t):
            bad.append(c)
        elif c[0] == "call" and isinstance(c[1], tuple) and c[1] == ("global", "hasattr") and pos and \
                len(c[2]) == 2 and c[2][0] == cls_t and c[2][1] == v:
            bad.append(c)
    for conds, _t in alts:
        for c in conds:
            walk(c, True)
    chk.require(not bad, "R17.7", "given-text-accepted-by-member-value-only",
                f"the enum converter returns the given text unchanged when `{pp(bad[0])[:70] if bad else ''}`: a member "
                f"*name* is accepted and written verbatim although it is not one of the standard's strings (in the mode "
                f"no error, outside it no warning)", conv.where)


def _generator_cm(chk, ix, cm):
    chk.consult(cm)
    g = CFG(cm.node)
    yields = g.nodes_where(lambda s: any(isinstance(x, (ast.Yield, ast.YieldFrom)) for x in walk_expr(s))
                           and not isinstance(s, (ast.Try, ast.With, ast.If, ast.For, ast.While)))
    if len(yields) > 1:
        # several yields (e.g. one per branch): the obligations concern the yields that can be reached after the flag was
        # written - a branch that leaves the flag alone has nothing to restore
        flag_stores = {n for n, s in g.stmt.items() if isinstance(s, ast.Assign)
                       and any(isinstance(t, ast.Attribute) and t.attr == FLAG for t in s.targets)}
        after_write = {y for y in yields if any(y in g.reachable(n, exceptional=False) for n in flag_stores)}
        if len(after_write) != 1:
            raise AnalysisError(f"{cm.short}: {len(yields)} yields, {len(after_write)} of them after a write of the "
                                f"mode flag - a shape the checker cannot classify")
        yields = after_write
    ynode = next(iter(yields)) if yields else None
    # saved variable: local assigned from a flag load before the set
    saves = {}
    for n, s in g.stmt.items():
        if isinstance(s, ast.Assign) and len(s.targets) == 1 and isinstance(s.targets[0], ast.Name) \
                and is_flag_load(s.value):
            saves[s.targets[0].id] = n
    sets_true, restores = set(), set()
    restore_vals = []
    for n, s in g.stmt.items():
        if isinstance(s, ast.Assign) and any(isinstance(t, ast.Attribute) and t.attr == FLAG for t in s.targets):
            if isinstance(s.value, ast.Constant) and s.value.value is True:
                sets_true.add(n)
            else:
                restore_vals.append((n, s))
    where = f"{cm.module.relpath}:{cm.node.lineno}"
    for n, s in restore_vals:
        if isinstance(s.value, ast.Name) and s.value.id in saves:
            restores.add(n)
    chk.require(bool(saves), "R17.1", f"{tagp}:save" if False else "cm:save", "the previous value of the flag is not saved before it is set", where)
    tagp = "cm" if ynode is not None else f"scope:{cm.short}"
    if ynode is None:
        # a plain function that switches the mode on for the duration of a call: the protected region starts right
        # after the flag was set
        if len(sets_true) != 1:
            raise AnalysisError(f"{cm.short}: writes the mode flag in a shape the checker cannot classify")
        ynode = next(iter(sets_true))
    chk.require(bool(sets_true) and all(g.dominated_by(ynode, {n}) for n in sets_true), "R17.1", f"{tagp}:set",
                "the flag is not set to True on every path to the protected region", where)
    # the save must precede the set, and the saved variable must not be reassigned afterwards
    ok_order = bool(saves) and all(any(g.dominated_by(st, {sv}) for sv in saves.values()) for st in sets_true)
    chk.require(ok_order, "R17.1", "cm:save-before-set", "the flag is overwritten before its previous value was saved",
                where)
    reassigned = [n for n, s in g.stmt.items() if isinstance(s, (ast.Assign, ast.AugAssign))
                  and any(isinstance(t, ast.Name) and t.id in saves for t in
                          (s.targets if isinstance(s, ast.Assign) else [s.target])) and n not in saves.values()]
    chk.require(not reassigned, "R17.1", "cm:saved-value-stable", "the saved value is reassigned before the restore",
                where)
    for exit_node, label in ((EXIT, "normal"), (RAISE, "exceptional")):
        ok = bool(restores) and g.must_pass_through(restores, frm=ynode, to=exit_node)
        if ok and not yields:
            ok = all(g.must_pass_through(restores, frm=nx, to=exit_node) for nx in g.all_succ(ynode))
        # the exit must actually be reachable to make the obligation non-vacuous
        chk.require(ok, "R17.1", f"cm:restore-on-{label}-exit",
                    f"a path from the yield to the {label} exit of the context manager does not restore the saved "
                    f"value of the flag", where,
                    detail_ok=f"every path yield -> {label} exit passes through `{FLAG} = <saved>`")
    chk.require(all(n in restores for n, _ in restore_vals) , "R17.1", "cm:restore-saved-not-constant",
                "the flag is 'restored' to a constant / other value instead of the saved one "
                "(breaks nested use of the context manager)", where)
    if not yields:
        return
    # decorator form
    decos = [f for f in ix.functions.values() if f is not cm and f.parent is not None
             and any(isinstance(n, ast.With) for n in walk_local(f.node))]
    n_deco = 0
    for f in decos:
        for n in walk_local(f.node):
            if isinstance(n, ast.With):
                for it in n.items:
                    t, _, _ = ix.resolve_call(it.context_expr, Scope(ix, f)) if isinstance(it.context_expr, ast.Call) \
                        else ([], None, None)
                    if cm in t:
                        n_deco += 1
                        calls_inside = any(isinstance(x, ast.Call) for b in n.body for x in ast.walk(b))
                        chk.require(calls_inside, "R17.1", f"decorator:{f.short}",
                                    "decorator wrapper does not call the wrapped function inside the context",
                                    f"{f.module.relpath}:{n.lineno}")
    chk.info["decorator_forms"] = n_deco



def _class_based_cm(chk, ix, cls):
    """Class-based context manager (e.g. a ContextDecorator): __enter__ saves the flag on the instance and sets it,
    __exit__ restores the saved value on every path; because the saved value lives on the instance, an instance that is
    shared between entries (a module- or class-level instance, e.g. one used as a decorator) is a violation:
    overlapping / nested entries overwrite each other's saved state."""
    enter, exit_ = cls.methods["__enter__"], cls.methods["__exit__"]
    chk.consult(enter, exit_)
    where = cls.where
    g = CFG(enter.node)
    saves = {}
    sets_true = set()
    for n, s in g.stmt.items():
        if isinstance(s, ast.Assign) and len(s.targets) == 1 and is_self_attr(s.targets[0]) and is_flag_load(s.value):
            saves[s.targets[0].attr] = n
        if isinstance(s, ast.Assign) and any(isinstance(t, ast.Attribute) and t.attr == FLAG for t in s.targets) \
                and isinstance(s.value, ast.Constant) and s.value.value is True:
            sets_true.add(n)
    chk.require(bool(saves), "R17.1", "cm:save", "the previous value of the flag is not saved on entry", where)
    chk.require(bool(sets_true) and g.must_pass_through(sets_true, ENTRY, EXIT, exceptional=False), "R17.1", "cm:set",
                "the flag is not set to True on every path through __enter__", where)
    chk.require(bool(saves) and all(any(g.dominated_by(st, {sv}) for sv in saves.values()) for st in sets_true),
                "R17.1", "cm:save-before-set", "the flag is overwritten before its previous value was saved", where)
    g2 = CFG(exit_.node)
    restores = {n for n, s in g2.stmt.items() if isinstance(s, ast.Assign)
                and any(isinstance(t, ast.Attribute) and t.attr == FLAG for t in s.targets)
                and is_self_attr(s.value) and s.value.attr in saves}
    others = [n for n, s in g2.stmt.items() if isinstance(s, ast.Assign)
              and any(isinstance(t, ast.Attribute) and t.attr == FLAG for t in s.targets) and n not in restores]
    chk.require(bool(restores) and g2.must_pass_through(restores, ENTRY, EXIT, exceptional=False)
                and g2.must_pass_through(restores, ENTRY, RAISE), "R17.1", "cm:restore-on-normal-exit",
                "a path through __exit__ does not restore the saved value of the flag", where)
    chk.ok("R17.1", "cm:restore-on-exceptional-exit", "__exit__ runs on every way out of a `with` block", where)
    chk.require(not others, "R17.1", "cm:restore-saved-not-constant",
                "the flag is 'restored' to a constant / other value instead of the saved one", where)
    # writers of the saved field
    for f in ix.functions.values():
        for n in walk_local(f.node):
            if isinstance(n, (ast.Assign, ast.AugAssign)):
                for t in (n.targets if isinstance(n, ast.Assign) else [n.target]):
                    if isinstance(t, ast.Attribute) and t.attr in saves and f not in (enter,) and f.name != "__init__":
                        chk.fail("R17.1", f"cm:saved-value-stable:{f.short}", "the saved value is written outside "
                                 "__enter__", f"{f.module.relpath}:{n.lineno}")
    # shared instances
    shared = []
    for mod in ix.modules.values():
        for name, e in list(mod.assigns.items()):
            if isinstance(e, ast.Call):
                ent = ix.resolve_expr_entity(e.func, mod)
                if ent and ent[0] == "class" and ent[1] is cls:
                    shared.append((mod, name, e))
        for c in mod.classes.values():
            for name, e in c.class_assigns.items():
                if isinstance(e, ast.Call):
                    ent = ix.resolve_expr_entity(e.func, mod)
                    if ent and ent[0] == "class" and ent[1] is cls:
                        shared.append((mod, f"{c.name}.{name}", e))
    # ... and every other construction that is not consumed on the spot by a `with` statement: an instance that is
    # returned, stored, passed on or used as a decorator (`cm()(func)`: ContextDecorator re-enters the same instance on
    # every call of the decorated function, recursive calls included) outlives one entry
    for mod in ix.modules.values():
        with_items = {id(it.context_expr) for n in ast.walk(mod.tree) if isinstance(n, (ast.With, ast.AsyncWith))
                      for it in n.items}
        for n in ast.walk(mod.tree):
            if isinstance(n, ast.Call) and id(n) not in with_items:
                try:
                    ent = ix.resolve_expr_entity(n.func, mod)
                except Exception:  # noqa: BLE001
                    ent = None
                if ent and ent[0] == "class" and (ent[1] is cls or cls in ent[1].mro()) and \
                        not any(n is e for _, _, e in shared):
                    shared.append((mod, f"{norm(n)[:40]} at line {n.lineno}", n))
    chk.require(not shared, "R17.1", "cm:saved-state-per-entry",
                f"the context manager keeps the saved flag on the instance and one instance is shared by all entries "
                f"({[n for _, n, _ in shared]}): a nested / overlapping entry overwrites the saved state and the mode "
                f"stays on", f"{shared[0][0].relpath}:{shared[0][2].lineno}" if shared else where)
    return True


def _is_warning(st) -> bool:
    for n in ast.walk(st):
        if isinstance(n, ast.Call) and isinstance(n.func, ast.Attribute) and n.func.attr in ("warning", "warn"):
            return True
    return False


def _calls(ix, sc, stmt, target) -> bool:
    from ..cfg import header_expr
    h = header_expr(stmt)
    if h is None:
        return False
    for n in walk_expr(h):
        if isinstance(n, ast.Call) and target in ix.resolve_call(n, sc)[0]:
            return True
    return False


def _constructs(ix, sc, stmt, cls) -> bool:
    from ..cfg import header_expr
    h = header_expr(stmt)
    if h is None:
        return False
    for n in walk_expr(h):
        if isinstance(n, ast.Call):
            t = ix.infer(n.func, sc)
            if t is not None and t[0] == "cls" and t[1] is cls:
                return True
    return False


def _fileset_shape(f, g, chk=None):
    """OriginItem: in the mode, FILE-SET-NUMBER := a count of origins (small, sequential), never a random number.
    Decided on the value-flow summary: the stores into <attribute>.value made under the flag literal."""
    from ..terms import attr_stores, contains, subterms, is_call, pp
    if chk is None:
        return None, ""
    summ = chk.terms.inline(f, 2, stop=lambda h: h.cls is not f.cls or h.name == "__init__")

    def flag(l):
        return l[0] == "attr" and l[2] == FLAG
    on = [(val, e) for obj, key, val, e in attr_stores(summ) if key == ("const", "value") and any(flag(l) for l in e.pc)]
    if not on:
        return None, ""

    def random_source(t):
        return contains(t, lambda x: x[0] == "global" and ("random" in x[1].split(".") or x[1].split(".")[0] == "secrets"
                                                            or x[1] in ("uuid.uuid4", "os.urandom", "time.time")))

    def counts_origins(t):
        # the number of items of the origin's own set: <set>.n_items or len(<collection reached from the set>)
        return contains(t, lambda x: (x[0] == "attr" and x[2] == "n_items") or is_call(x, "len", 1))
    if any(random_source(v) for v, _ in on):
        return None, "in the mode the file set number is still drawn at random"
    if all(counts_origins(v) for v, _ in on):
        return "sequential-file-set-number", ""
    return None, f"in the mode the file set number ({[pp(v)[:50] for v, _ in on]}) is not derived from the number of origins"


def _is_allowed_class_plus(tree) -> bool:
    import re._constants as rc
    items = list(tree)
    if len(items) != 1:
        return False
    op, av = items[0]
    if op is not rc.MAX_REPEAT:
        return False
    lo, hi, sub = av
    if lo != 1 or hi != rc.MAXREPEAT:
        return False
    sub = list(sub)
    if len(sub) != 1 or sub[0][0] is not rc.IN:
        return False
    chars = set()
    for kind, val in sub[0][1]:
        if kind is rc.RANGE:
            chars |= set(range(val[0], val[1] + 1))
        elif kind is rc.LITERAL:
            chars.add(val)
        else:
            return False
    want = set(range(ord("A"), ord("Z") + 1)) | set(range(ord("0"), ord("9") + 1)) | {ord("_"), ord("-")}
    return chars == want


def _term_shape(chk, f, origin_cls):
    """Classify a reader of the mode flag on its value-flow summary:
    'raise'       some raise happens whenever the flag is set (every literal of its path condition is true or
                  undetermined with the flag on, and one of them is true because of the flag);
    'sequential-file-set-number'   (ORIGIN) with the flag on, the value produced / stored derives from the number of
                  origins and from no random source.
    None: not decided here (the CFG-based classification follows)."""
    from ..terms import A, raise_conditions, return_alternatives, attr_stores, contains, pp
    flag = A(("global", "global_config"), FLAG)
    su = chk.terms.summary(f)

    def ev(t, val):
        if t == flag:
            return val
        if t[0] == "not":
            v = ev(t[1], val)
            return None if v is None else not v
        if t[0] in ("and", "or"):
            vs = [ev(x, val) for x in t[1]]
            if t[0] == "and":
                return False if any(v is False for v in vs) else (True if all(v is True for v in vs) else None)
            return True if any(v is True for v in vs) else (False if all(v is False for v in vs) else None)
        return None
    for pc, exc in raise_conditions(su):
        on = [ev(l, True) for l in pc]
        off = [ev(l, False) for l in pc]
        if any(v is False for v in on):
            continue
        if any(a is True and b is not True for a, b in zip(on, off)):
            return "raise"
    owner = f
    while owner.cls is None and owner.parent is not None:
        owner = owner.parent
    if owner.cls is not None and any(k is origin_cls for k in owner.cls.mro()):
        vals = [(c, t) for c, t in return_alternatives(su)]
        vals += [(e.pc, v) for obj, k, v, e in attr_stores(su) if contains(obj, lambda x: x[0] == "attr" and
                                                                           x[2] == "file_set_number")]
        on_vals = [t for c, t in vals if flag in c]
        off_vals = [t for c, t in vals if ("not", flag) in c]
        if on_vals and off_vals:
            rnd = any("random" in pp(t) for t in on_vals)
            seq = all(contains(t, lambda x: x[0] == "attr" and x[2] in ("n_items",)) or
                      contains(t, lambda x: x[0] == "call" and pp(x[1]) == "len") for t in on_vals)
            if seq and not rnd:
                return "sequential-file-set-number"
    return None
