"""C07 - object identity is unique and every reference resolves in its logical file.

R07.1 (effects + AST) copy numbers: computed once, in the constructor, as the number of already registered items of the
      *same name* (the filter compares names only); the set's item list is append-only; `_copy_number` has no writer
      after construction.
R07.2 (shared with C14 R14.2) the memoised identity bytes are invalidated by every writer of name / origin / copy number.
R07.3 (tables + CFG) every reference-typed attribute (EFLRAttribute, EFLROrTextAttribute, Attribute with OBNAME/OBJREF
      code) is membership-checked on the write path: a generic walk over all attributes of all items of the logical
      file's own registry raises for a referenced EFLRItem that is not registered in that registry; the no-format
      records' objects are checked too; the walk dominates record generation.
R07.4 (siblings) origin of every object: each add_* forwards `origin_reference or <defining origin of this file>`;
      add_origin numbers new origins against this logical file's origins; back-filling touches own objects only.
R07.5 (AST) each IFLR body starts with the OBNAME of the frame / no-format object it was constructed with.
R07.6 = C09 R09.1 (definitions precede the indirectly formatted records).
"""

from __future__ import annotations

import ast

from .. import AnalysisError
from ..cfg import CFG, ENTRY, EXIT, header_expr
from ..common import Model, norm, is_self_attr, kw
from ..effects import stores_in
from ..index import Scope, walk_local, walk_expr
from ..report import Check

LEVEL = "other"
EXPLANATION = ("Structural clauses that are necessary for unique identities and resolvable references: the copy number "
               "rule, append-only item lists, memo invalidation, a generic same-logical-file membership check covering "
               "all reference attributes (enumerated from the declaration table) on the write path, uniform origin "
               "forwarding at the 21 add_* sites, and the leading OBNAME of indirectly formatted records. Not decided: "
               "that a reader resolves the references (reader side).")


def run(chk):
    chk.guard(r07_1_copy_numbers, chk)
    chk.guard(r07_2_memo, chk)
    chk.guard(r07_3_references, chk)
    chk.guard(r07_4_origins, chk)
    chk.guard(r07_5_iflr_reference, chk)
    chk.guard(r07_6_order, chk)


def r07_1_copy_numbers(chk):
    ix = chk.ix
    item = ix.get_class("EFLRItem")
    eset = ix.get_class("EFLRSet")
    ccn = item.lookup("_compute_copy_number")
    init = item.lookup("__init__")
    if ccn is None:
        raise AnalysisError("EFLRItem._compute_copy_number not found")
    chk.consult(ccn, init)
    # the predicate selecting the objects that count
    preds = [n for n in walk_local(ccn.node) if isinstance(n, ast.Lambda)]
    comps = [n for n in walk_local(ccn.node) if isinstance(n, (ast.ListComp, ast.GeneratorExp))]
    tests = [p.body for p in preds] + [i for c in comps for g in c.generators for i in g.ifs]
    ok = len(tests) == 1
    if ok:
        t = tests[0]
        ok = isinstance(t, ast.Compare) and len(t.ops) == 1 and isinstance(t.ops[0], ast.Eq) \
            and isinstance(t.left, ast.Attribute) and t.left.attr == "name" \
            and isinstance(t.comparators[0], ast.Attribute) and t.comparators[0].attr == "name"
    chk.require(ok, "R07.1", "copy-number-counts-same-named-objects",
                f"the copy number does not count exactly the registered objects of the same name "
                f"(predicate: {[norm(t) for t in tests]}): objects that later coincide in (type, origin, name) can share "
                f"a copy number", ccn.where)
    src = norm(ccn.node)
    chk.require("get_all_eflr_items" in src or "_eflr_item_list" in src, "R07.1", "copy-number-from-the-set's-item-list",
                "the copy number is not derived from the set's list of registered items", ccn.where)
    writers = []
    for f in ix.functions.values():
        for s in stores_in(f):
            if s.attr == "_copy_number":
                writers.append((f, s))
    chk.require(all(f is init for f, s in writers) and len(writers) == 1, "R07.1", "copy-number-written-once",
                f"_copy_number is written in {[f.short for f, s in writers]}", item.where)
    lw = []
    for f in ix.functions.values():
        for s in stores_in(f):
            if s.attr == "_eflr_item_list":
                lw.append((f, s))
    bad = [(f, s) for f, s in lw if not ((f.cls is eset and f.name == "__init__" and s.kind == "assign") or
                                         (f.cls is eset and f.name == "register_item" and s.kind == "mutator:append"))]
    chk.require(not bad and len(lw) >= 2, "R07.1", "item-list-append-only",
                f"the set's item list is modified by {[(f.short, s.kind) for f, s in bad]}", eset.where)
    ga = eset.lookup("get_all_eflr_items")
    chk.require(ga is not None and "[:]" in norm(ga.node) or "list(" in norm(ga.node), "R07.1", "item-list-not-leaked",
                "get_all_eflr_items hands out the internal list itself", ga.where if ga else eset.where,
                nontrivial=False)


def r07_2_memo(chk):
    from . import c14
    tmp = Check("C14", "quick", 0, chk.ix, chk.cg, quiet=True)
    c14.r14_2_obname(tmp)
    for o in tmp.obs:
        o.rule = "R07.2"
        chk.obs.append(o)
    chk.consulted_functions |= tmp.consulted_functions
    # records that open with a reference must read it when they are written (no private copy of identity bytes)
    from ..effects import memo_sites
    for m in memo_sites(chk.ix):
        if m.func.cls is not None and any(c.name in ("FrameData", "NoFormatFrameData", "MultiFrameData")
                                           for c in m.func.cls.mro()):
            chk.fail("R07.2", f"memo:{m.key}", f"{m.func.short} memoises bytes that contain an object's identity", m.where)


def r07_3_references(chk):
    ix, cg = chk.ix, chk.cg
    model = Model(ix)
    refs = []
    for d in model.decls:
        names = {c.name for c in d.attr_cls.mro()}
        code = norm(d.kwargs["representation_code"]).split(".")[-1] if "representation_code" in d.kwargs else None
        if "EFLRAttribute" in names or code in ("OBNAME", "OBJREF"):
            refs.append(d)
    chk.info["reference_attributes"] = [d.key for d in refs]
    chk.floor("reference-typed attribute declarations", len(refs), 30)
    lf = model.LogicalFile
    co = lf.lookup("check_objects")
    chk.consult(co)
    # the generic walk: a function reachable from check_objects with the shape described above
    walkers = []
    for f in cg.reachable([co]):
        if f.cls is not lf:
            continue
        src = norm(f.node)
        loops_own = "self._eflr_sets" in src and "physical_file" not in src
        attrs_walk = ".attributes.values()" in src or ".attributes.items()" in src
        tests = [n for n in walk_local(f.node) if isinstance(n, ast.If) and "isinstance" in norm(n.test)
                 and "EFLRItem" in norm(n.test) and "not in" in norm(n.test)
                 and any(isinstance(x, ast.Raise) for b in n.body for x in ast.walk(b))]
        if loops_own and attrs_walk and tests:
            walkers.append((f, tests))
    chk.require(bool(walkers), "R07.3", "generic-membership-check-exists",
                f"no check on the write path verifies that referenced objects belong to the same logical file "
                f"({len(refs)} reference attributes unchecked)", co.where)
    for f, tests in walkers:
        chk.consult(f)
        # not restricted to some attribute classes / names: the only conditions are isinstance(EFLRItem) and membership
        t = tests[0].test
        conj = t.values if isinstance(t, ast.BoolOp) and isinstance(t.op, ast.And) else [t]
        extra = [norm(c) for c in conj if "isinstance" not in norm(c) and "not in" not in norm(c)]
        chk.require(not extra and len(conj) == 2, "R07.3", f"check-covers-all-reference-attributes:{f.short}",
                    f"the membership check is restricted by {extra}: some of the {len(refs)} reference attributes are "
                    f"not covered", f.where, detail_ok=f"covers all {len(refs)} reference-typed declarations")
        # list-valued references are unpacked
        src = norm(f.node)
        chk.require("isinstance(attr.value, (list, tuple))" in src or "flatten_list" in src, "R07.3",
                    f"multi-valued-references-covered:{f.short}", "list-valued reference attributes are not unpacked "
                    "before the membership test", f.where)
        # the set of own items is complete: built from every set of the own registry
        chk.require("get_all_eflr_items()" in src, "R07.3", f"own-items-complete:{f.short}",
                    "the set of own objects is not built from all items of all sets of the logical file", f.where)
        # no-format records
        nf_ok = "_no_format_frame_data" in src and "no_format_object" in src
        chk.require(nf_ok, "R07.3", f"no-format-objects-covered:{f.short}",
                    "the NO-FORMAT objects referenced by no-format records are not checked for belonging to the "
                    "logical file", f.where)
        # every normal path through the walker runs the loops (no early return)
        g = CFG(f.node)
        loops = [n for n in g.loop]
        rets = [n for n in g.nodes() if g.kind[n] == "return"]
        chk.require(not rets, "R07.3", f"check-not-bypassable:{f.short}", "the membership check can return early",
                    f.where)
    # frame channels: the existing dedicated check
    ccf = lf.lookup("_check_channels_assigned_to_frames")
    chk.require(ccf is not None and ccf in cg.callees(co), "R07.3", "frame-channels-checked",
                "frame channels are no longer checked for being registered in the logical file", co.where)
    # check_objects on the write path before generation: C17 R17.6 has the dominance proof; here: reachable from write
    write = ix.get_method("DLISFile", "write")
    chk.require(co in cg.reachable([write]), "R07.3", "check-on-write-path", "check_objects is not reached from write",
                write.where)
    for f, tests in walkers:
        chk.require(f in cg.callees(co), "R07.3", f"walker-called-unconditionally:{f.short}",
                    "the membership check is not called from check_objects", co.where)
        g = CFG(co.node)
        sc = Scope(ix, co)
        cn = g.nodes_where(lambda s: any(isinstance(c, ast.Call) and f in ix.resolve_call(c, sc)[0]
                                         for c in walk_expr(header_expr(s) or ast.Pass())))
        chk.require(bool(cn) and g.must_pass_through(cn, ENTRY, EXIT, exceptional=False), "R07.3",
                    f"walker-on-every-path:{f.short}", "check_objects can return without running the membership check",
                    co.where)
    # EFLRAttribute converter: only items of the admissible class are accepted
    ea = ix.get_class("EFLRAttribute")
    conv = ea.lookup("_convert_value")
    chk.consult(conv)
    src = norm(conv.node)
    chk.require("isinstance(v, object_class)" in src and "raise TypeError" in src, "R07.3",
                "reference-values-type-checked", "EFLRAttribute accepts values that are not items of the admissible class",
                conv.where)


def r07_4_origins(chk):
    ix = chk.ix
    model = Model(ix)
    ams = model.add_methods()
    chk.floor("add_* methods", len(ams), 21)
    for f, ic, ctor in sorted(ams, key=lambda t: t[0].name):
        o = kw(ctor, "origin_reference")
        if f.name == "add_origin":
            ok = o is not None and norm(o) in ("origin_reference or new_origin_ref", "new_origin_ref")
            chk.require(ok, "R07.4", "origin-forwarding:add_origin",
                        f"add_origin passes origin_reference={norm(o) if o else None}", f.where)
            continue
        ok = o is not None and norm(o) == "origin_reference or self.default_origin_reference"
        chk.require(ok, "R07.4", f"origin-forwarding:{f.name}",
                    f"{f.name} passes origin_reference={norm(o) if o is not None else None}; expected the explicit value "
                    f"or the logical file's defining origin", f.where, nontrivial=False)
    lf = model.LogicalFile
    dor = lf.lookup("default_origin_reference")
    s = norm(dor.node)
    chk.require("self.defining_origin" in s and "origin_reference" in s, "R07.4", "default-origin-is-defining-origin",
                "the default origin reference is not the defining origin's", dor.where)
    add = lf.lookup("add_origin")
    s = norm(add.node)
    chk.require("self._eflr_sets.get_all_items_for_set_type(eflr_types.OriginSet)" in s and
                "self.next_available_origin_ref(origin_reference, origins)" in s, "R07.4",
                "origin-numbering-against-own-origins", "new origin references are not chosen against the origins of "
                "this logical file", add.where)
    nar = lf.lookup("next_available_origin_ref")
    chk.consult(nar)
    s = norm(nar.node)
    chk.require("while next_available_origin_ref in origins_refs" in s and "raise RuntimeError" in s, "R07.4",
                "origin-reference-unique", "an origin reference already used in the logical file can be handed out again",
                nar.where)
    # back-fill: only through the own registry (R18.2 covers the shared one); only items without origin
    loops = [n for n in walk_local(add.node) if isinstance(n, ast.For) and "_eflr_sets" in norm(n.iter)]
    ok = bool(loops) and all(norm(n.iter).startswith("self._eflr_sets") for n in loops)
    chk.require(ok, "R07.4", "backfill-own-objects-only",
                f"add_origin back-fills origin references through {[norm(n.iter) for n in loops]}", add.where)
    assigns = [n for n in walk_local(add.node) if isinstance(n, ast.Assign)
               and any(isinstance(t, ast.Attribute) and t.attr == "origin_reference" for t in n.targets)]
    guarded = [a for a in assigns if "file_header_item" in norm(a) or _under_none_test(add.node, a)]
    chk.require(len(guarded) == len(assigns) and bool(assigns), "R07.4", "backfill-only-unset-origins",
                "add_origin overwrites origin references that were already set", add.where)


def _under_none_test(root, stmt) -> bool:
    for n in ast.walk(root):
        if isinstance(n, ast.If) and "origin_reference is None" in norm(n.test) and any(x is stmt for b in n.body
                                                                                        for x in ast.walk(b)):
            return True
    return False


def r07_5_iflr_reference(chk):
    ix = chk.ix
    for cname, field, arg in (("FrameData", "_frame", "frame"), ("NoFormatFrameData", "no_format_object",
                                                                "no_format_object")):
        c = ix.get_class(cname)
        body = c.lookup("_make_body_bytes")
        init = c.lookup("__init__")
        chk.consult(body, init)
        stores = [n for n in walk_local(init.node) if isinstance(n, ast.Assign) and any(is_self_attr(t, field)
                                                                                         for t in n.targets)]
        ok = len(stores) == 1 and isinstance(stores[0].value, ast.Name) and stores[0].value.id == arg
        chk.require(ok, "R07.5", f"reference-object-stored-verbatim:{cname}",
                    f"{cname} does not keep the object it was constructed with", init.where)
        # first operand of the body expression
        first = None
        for n in walk_local(body.node):
            if isinstance(n, (ast.Assign, ast.Return)) and n.value is not None:
                e = n.value
                while isinstance(e, ast.BinOp) and isinstance(e.op, ast.Add):
                    e = e.left
                if isinstance(e, ast.Attribute) and e.attr == "obname":
                    first = e
                    break
        ok = first is not None and norm(first.value) == f"self.{field}"
        chk.require(ok, "R07.5", f"body-starts-with-obname:{cname}",
                    f"the {cname} record body does not start with the OBNAME of its {arg}", body.where)
    mfd = ix.get_class("MultiFrameData")
    nx = mfd.lookup("__next__")
    s = norm(nx.node).replace(" ", "")
    chk.require("frame=self._frame" in s, "R07.5", "frame-data-refers-to-its-frame",
                "frame data records are not created with the frame they belong to", nx.where)


def r07_6_order(chk):
    from . import c09
    tmp = Check("C09", "quick", 0, chk.ix, chk.cg, quiet=True)
    c09.r09_1_order(tmp)
    for o in tmp.obs:
        o.rule = "R07.6"
        chk.obs.append(o)
