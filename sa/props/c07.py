"""C07 - object identity is unique and every reference resolves in its logical file.

R07.1 (effects + AST) copy numbers: computed once, in the constructor, as the number of already registered items of the
      *same name* (the filter compares names only); the set's item list is append-only; `_copy_number` has no writer
      after construction.
R07.2 (shared with C14 R14.2) the memoised identity bytes are invalidated by every writer of name / origin / copy number.
R07.3 (tables + inlined value-flow summary of check_objects) every reference-typed attribute (EFLRAttribute, EFLROrTextAttribute, Attribute with OBNAME/OBJREF
      code) is membership-checked on the write path: a generic walk over all attributes of all items of the logical
      file's own registry raises for a referenced EFLRItem that is not registered in that registry; the no-format
      records' objects are checked too; the walk dominates record generation.
R07.4 (siblings, inlined value-flow summaries) origin of every object: each add_* forwards `origin_reference or <defining origin of this file>`;
      add_origin numbers new origins against this logical file's origins; back-filling touches own objects only.
R07.5 (AST) each IFLR body starts with the OBNAME of the frame / no-format object it was constructed with.
R07.6 = C09 R09.1 (definitions precede the indirectly formatted records).
R07.7 = C06 R06.3 for IDENT: the name written is exactly the string the copy numbers were computed from.
R07.8 (shared, = C02 R02.1/2/4/5 + C10 R10.1-3) the transport below the records: segments partition each body in order with
      correct bracketing and padding, the output buffer and the byte writer hand on exactly those bytes.
"""

from __future__ import annotations

import ast

from .. import AnalysisError
from ..cfg import CFG, ENTRY, EXIT, header_expr
from ..common import item_list_field, Model, norm, is_self_attr, kw
from ..effects import stores_in
from ..index import Scope, walk_local, walk_expr
from ..report import Check

LEVEL = "other"
EXPLANATION = ("Structural clauses that are necessary for unique identities and resolvable references: the copy number "
               "rule, append-only item lists, memo invalidation, a generic same-logical-file membership check covering "
               "all reference attributes (enumerated from the declaration table) on the write path, uniform origin "
               "forwarding at the 21 add_* sites, and the leading OBNAME of indirectly formatted records. Not decided: "
               "that a reader resolves the references (reader side).")


def run(chk):
    chk.guard(r07_1_copy_numbers, chk)
    chk.guard(r07_2_memo, chk)
    chk.guard(r07_3_references, chk)
    chk.guard(r07_4_origins, chk)
    chk.guard(r07_5_iflr_reference, chk)
    chk.guard(r07_6_order, chk)
    chk.guard(r07_7_name_written_is_name_compared, chk)
    from ._layout import transport_integrity
    chk.guard(transport_integrity, chk, "R07.8")


def r07_7_name_written_is_name_compared(chk):
    """Copy numbers are computed by comparing names as the user gave them; the identity is unique in the file only if
    the IDENT written is that very string - its length byte followed by exactly its characters, nothing stripped, folded
    or cut (= C06 R06.3)."""
    from . import c06
    n0 = len(chk.obs)
    c06.r06_3_ident_ascii(chk)
    keep = [o for o in chk.obs[n0:] if o.key.startswith(("ident", "strict-ascii:ident"))]
    for o in keep:
        o.rule = "R07.7"
    chk.obs[n0:] = keep
    chk.floor("IDENT emitter obligations", len(keep), 3)


def copy_number_counts_registered_items(chk, ccn) -> bool:
    """Is every collection the copy number is counted over the item list of the object's own set (read directly or
    through the set's accessor, helpers and properties looked through)?  Shared with C20 R20.1."""
    from ..terms import SELF, contains, subterms, is_call, return_alternatives
    fld = item_list_field(chk.ix)
    cs = chk.terms.inline(ccn, 3)
    iters = []
    for _, t in return_alternatives(cs):
        for x in subterms(t):
            if is_call(x, "filter", 2):
                iters.append(x[2][1])
            elif x[0] == "comp" and len(x[3]) >= 1:
                iters.append(x[3][0][1])
            elif x[0] == "fold":
                iters.append(x[5])
    return bool(iters) and all(contains(it, lambda t: t[0] == "attr" and t[2] == fld and contains(t[1], SELF))
                               for it in iters)


def r07_1_copy_numbers(chk):
    ix = chk.ix
    item = ix.get_class("EFLRItem")
    eset = ix.get_class("EFLRSet")
    ccn = item.lookup("_compute_copy_number")
    init = item.lookup("__init__")
    if ccn is None:
        raise AnalysisError("EFLRItem._compute_copy_number not found")
    chk.consult(ccn, init)
    # the predicate selecting the objects that count (value-flow normal form: temporaries such as `name = self.name`
    # are looked through)
    from ..terms import SELF, A, subterms, is_call, pp, return_alternatives
    cs = chk.summary(ccn)
    preds, iters = [], []
    for _, t in return_alternatives(cs):
        for x in subterms(t):
            if is_call(x, "filter", 2) and x[2][0][0] == "lambda":
                preds.append((x[2][0][2], ("bound", None, x[2][0][1][0])))
                iters.append(x[2][1])
            if x[0] == "comp" and len(x[3]) == 1 and x[3][0][2]:
                el = [y for y in subterms(x[3][0][2][0]) if y[0] == "elem" and y[1] == x[3][0][1]]
                for c in x[3][0][2]:
                    preds.append((c, el[0] if el else None))
                iters.append(x[3][0][1])
    ok = len(preds) == 1
    if ok:
        c, var = preds[0]

        def other_name(t):
            return t[0] == "attr" and t[2] == "name" and (t[1] == var or (var and var[0] == "bound" and
                                                                        t[1][0] == "bound" and t[1][2] == var[2]))
        ok = c[0] == "cmp" and c[1] == "==" and ((other_name(c[2]) and c[3] == A(SELF, "name")) or
                                                 (other_name(c[3]) and c[2] == A(SELF, "name")))
    chk.require(ok, "R07.1", "copy-number-counts-same-named-objects",
                f"the copy number does not count exactly the registered objects of the same name "
                f"(predicate: {[pp(p_[0]) for p_ in preds]}): objects that later coincide in (type, origin, name) can share "
                f"a copy number", ccn.where)
    chk.require(copy_number_counts_registered_items(chk, ccn), "R07.1", "copy-number-from-the-set's-item-list",
                "the copy number is not derived from the set's list of registered items", ccn.where)
    writers = []
    for f in ix.functions.values():
        for s in stores_in(f):
            if s.attr == "_copy_number":
                writers.append((f, s))
    chk.require(all(f is init for f, s in writers) and len(writers) == 1, "R07.1", "copy-number-written-once",
                f"_copy_number is written in {[f.short for f, s in writers]}", item.where)
    lw = []
    for f in ix.functions.values():
        for s in stores_in(f):
            if s.attr == item_list_field(ix):
                lw.append((f, s))
    bad = [(f, s) for f, s in lw if not ((f.cls is eset and f.name == "__init__" and s.kind == "assign") or
                                         (f.cls is eset and f.name == "register_item" and s.kind == "mutator:append"))]
    chk.require(not bad and len(lw) >= 2, "R07.1", "item-list-append-only",
                f"the set's item list is modified by {[(f.short, s.kind) for f, s in bad]}", eset.where)
    ga = eset.lookup("get_all_eflr_items")
    from ..terms import return_alternatives as _ra2, is_call as _ic2
    fld = A(SELF, item_list_field(ix))
    outs = [t for _, t in _ra2(chk.summary(ga))] if ga is not None else []
    copies = bool(outs) and all((t[0] == "sub" and t[1] == fld and t[2][0] == "slice") or
                                (_ic2(t, ("list", "tuple"), 1) and t[2][0] == fld) or (_ic2(t, "copy", 0) and t[1][1] == fld)
                                for t in outs)
    chk.require(copies, "R07.1", "item-list-not-leaked",
                "get_all_eflr_items hands out the internal list itself", ga.where if ga else eset.where,
                nontrivial=False)


def r07_2_memo(chk):
    from . import c14
    tmp = Check("C14", "quick", 0, chk.ix, chk.cg, quiet=True)
    c14.r14_2_obname(tmp)
    for o in tmp.obs:
        o.rule = "R07.2"
        chk.obs.append(o)
    chk.consulted_functions |= tmp.consulted_functions
    # records that open with a reference must read it when they are written (no private copy of identity bytes)
    from ..effects import memo_sites
    for m in memo_sites(chk.ix):
        if m.func.cls is not None and any(c.name in ("FrameData", "NoFormatFrameData", "MultiFrameData")
                                           for c in m.func.cls.mro()):
            chk.fail("R07.2", f"memo:{m.key}", f"{m.func.short} memoises bytes that contain an object's identity", m.where)


def r07_3_references(chk):
    ix, cg = chk.ix, chk.cg
    model = Model(ix)
    refs = []
    for d in model.decls:
        names = {c.name for c in d.attr_cls.mro()}
        code = norm(d.kwargs["representation_code"]).split(".")[-1] if "representation_code" in d.kwargs else None
        if "EFLRAttribute" in names or code in ("OBNAME", "OBJREF"):
            refs.append(d)
    chk.info["reference_attributes"] = [d.key for d in refs]
    chk.floor("reference-typed attribute declarations", len(refs), 30)
    lf = model.LogicalFile
    co = lf.lookup("check_objects")
    chk.consult(co)
    # the generic walk, found semantically in the inlined summary of check_objects: a raise that is conditional on
    # `<referenced object> not in <objects of this logical file>` inside loops over the attributes of the own objects -
    # whichever helpers (functions, closures, comprehensions) the walk is made of
    from ..terms import (SELF, A, K, NONE, contains, subterms, is_call, call_name, pp, rebuild, find)
    cs = chk.terms.inline(co, 5)

    def conds_of(e):
        out = list(e.pc)
        for lp in e.loops():
            if isinstance(lp[2], tuple):
                for x in subterms(lp[2]):
                    if x[0] == "comp":
                        for _, _, cc in x[3]:
                            out.extend(cc)
        flat = []
        for c in out:
            flat.extend(c[1] if c[0] == "and" else [c])
        return flat

    def chain(e):
        return [lp[2] for lp in e.loops() if isinstance(lp[2], tuple)]
    walkers, nf_checks = [], []
    for e in cs.effects:
        if e.kind != "raise":
            continue
        conds = conds_of(e)
        mem = [l for l in conds if l[0] == "cmp" and l[1] == "not in"]
        if not mem:
            continue
        m = mem[0]
        terms = chain(e) + [m[2]]
        # (values drawn from a package generator - also inside a generator expression - come from what it iterates)
        from ..terms import generator_sources as _gsrc
        terms = terms + [t2 for t in list(terms) for t2 in _gsrc(chk.terms, cs, t)]
        if any(contains(t, lambda x: x[0] == "attr" and x[2] == "attributes") for t in terms):
            walkers.append((e, m, conds))
        elif any(contains(t, lambda x: x[0] == "attr" and x[2] == "no_format_object") for t in terms):
            nf_checks.append((e, m, conds))
    chk.require(bool(walkers), "R07.3", "generic-membership-check-exists",
                f"no check on the write path verifies that referenced objects belong to the same logical file "
                f"({len(refs)} reference attributes unchecked)", co.where)

    from ..terms import generator_sources

    def own_complete(own):
        srcs = [own] + generator_sources(chk.terms, cs, own)
        for lit in (("list", ()), ("set", ()), ("call", ("global", "list"), (), ()), ("call", ("global", "set"), (), ())):
            if contains(own, lit):
                for e2 in cs.effects:
                    if e2.kind == "call" and e2.value[1][0] == "attr" and e2.value[1][1] == lit and \
                            e2.value[1][2] in ("append", "extend", "add", "update"):
                        srcs.extend(e2.value[2])
                        srcs.extend(lp[2] for lp in e2.loops() if isinstance(lp[2], tuple))
        has_sets = any(contains(t, A(SELF, "_eflr_sets")) for t in srcs)
        has_items = any(contains(t, lambda x: is_call(x, "get_all_eflr_items") or (x[0] == "attr" and
                                                                                 x[2] == item_list_field(chk.ix))) for t in srcs)
        filtered = any(x[0] == "comp" and any(cc for _, _, cc in x[3]) for t in srcs for x in subterms(t))
        foreign = any(contains(t, lambda x: x[0] == "attr" and x[2] == "physical_file") for t in srcs)
        return has_sets and has_items and not filtered and not foreign
    from ..terms import generator_sources as _gsrc2
    for e, m, conds in walkers:
        chk.consult(e.func)
        name = e.func.short
        # (what a package generator in the chain yields comes from what it iterates, under its own conditions)
        srcs_ = chain(e) + [t2 for t in chain(e) for t2 in _gsrc2(chk.terms, cs, t)]
        terms = srcs_ + [m[2]]
        conds = conds + [c2 for t in srcs_ for x in subterms(t) if x[0] == "comp" for _, _, cc in x[3] for c2 in cc
                         if c2 not in conds]

        def over_attributes(it):
            return (it[0] == "attr" and it[2] == "attributes") or \
                (is_call(it, ("values", "items")) and it[1][1][0] == "attr" and it[1][1][2] == "attributes")
        attr_elems = [x for t in terms for x in subterms(t) if x[0] == "elem" and over_attributes(x[1])]
        attr_el = attr_elems[0] if attr_elems else None
        # not restricted to some attribute classes / names: apart from the membership test the conditions only look at
        # the *value* (is it an object, is it a list)
        extra = []
        for c in conds:
            if c is m or c == m:
                continue
            if attr_el is not None:
                masked = rebuild(c, lambda x: ("const", "<value>") if x == ("attr", attr_el, "value") else x)
                if contains(masked, attr_el):
                    extra.append(c)
                    continue
            inst = find(c, lambda x: is_call(x, "isinstance", 2) and x[1] == ("global", "isinstance"))
            for i in inst:
                classes = {pp(k) for k in (i[2][1][1] if i[2][1][0] == "tuple" else (i[2][1],))}
                if not classes <= {"EFLRItem", "list", "tuple"}:
                    extra.append(c)
        chk.require(not extra, "R07.3", f"check-covers-all-reference-attributes:{name}",
                    f"the membership check is restricted by {[pp(c)[:60] for c in extra]}: some of the {len(refs)} "
                    f"reference attributes are not covered", e.where,
                    detail_ok=f"covers all {len(refs)} reference-typed declarations")
        multi = any(contains(t, lambda x: is_call(x, "flatten_list") or (is_call(x, "isinstance", 2) and
                    x[2][1][0] == "tuple" and {pp(k) for k in x[2][1][1]} >= {"list", "tuple"})) for t in terms + conds)
        chk.require(multi, "R07.3", f"multi-valued-references-covered:{name}", "list-valued reference attributes are not "
                    "unpacked before the membership test", e.where)
        chk.require(own_complete(m[3]), "R07.3", f"own-items-complete:{name}",
                    f"the set of own objects `{pp(m[3])[:80]}` is not built from all items of all sets of the logical "
                    f"file's own registry", e.where)
        own_iter = any(contains(t, A(SELF, "_eflr_sets")) or own_complete(t) for t in srcs_)
        chk.require(own_iter, "R07.3", f"walk-over-own-objects:{name}",
                    "the walk does not iterate over the objects of the logical file's own registry", e.where)
        chk.require(any(own_complete(n[1][3]) for n in nf_checks), "R07.3", f"no-format-objects-covered:{name}",
                    "the NO-FORMAT objects referenced by no-format records are not checked for belonging to the "
                    "logical file", e.where)
        # every normal path through the function holding the check runs the loops (no early return)
        g = CFG(e.func.node)
        rets = [n for n in g.nodes() if g.kind[n] == "return"]
        chk.require(not rets or e.func.parent is not None or e.func.cls is None, "R07.3",
                    f"check-not-bypassable:{name}", "the membership check can return early", e.func.where)
    # frame channels: the existing dedicated check
    ccf = lf.lookup("_check_channels_assigned_to_frames")
    from ..terms import unconditionally_calls
    chk.require(ccf is not None and unconditionally_calls(chk.terms, co, ccf), "R07.3", "frame-channels-checked",
                "frame channels are no longer checked for being registered in the logical file", co.where)
    # check_objects on the write path before generation: C17 R17.6 has the dominance proof; here: reachable from write
    write = ix.get_method("DLISFile", "write")
    chk.require(co in cg.reachable([write]), "R07.3", "check-on-write-path", "check_objects is not reached from write",
                write.where)
    for e, m, conds in walkers:
        # reached unconditionally from check_objects: nothing but loop-element conditions guards the raise
        glob = [c for c in e.pc if not contains(c, lambda x: x[0] in ("elem", "bound"))]
        chk.require(not glob, "R07.3", f"walker-on-every-path:{e.func.short}",
                    f"the membership check runs only under {[pp(c)[:60] for c in glob]}: check_objects can return "
                    f"without running it", co.where)
    # EFLRAttribute converter: only items of the admissible class are accepted
    ea = ix.get_class("EFLRAttribute")
    conv = ea.lookup("_convert_value")
    chk.consult(conv)
    from ..terms import raise_conditions as _rc, return_alternatives as _ra
    csum = chk.summary(conv)
    v = ("param", conv.param_names[-1])
    guarded = [pc for pc, _ in _rc(csum) if any(l[0] == "not" and is_call(l[1], "isinstance", 2) and l[1][2][0] == v
                                                for l in pc)]
    returned = [t for _, t in _ra(csum)]
    chk.require(bool(guarded) and all(t == v for t in returned), "R07.3", "reference-values-type-checked",
                "EFLRAttribute accepts values that are not items of the admissible class (or alters them)", conv.where)


def r07_4_origins(chk):
    """Origins, on the value-flow normal form: what every add_* hands to the item constructor as origin reference, how
    add_origin numbers a new origin and which objects it back-fills - read off the inlined summaries, so that helper
    methods / properties (self.origins, _adopt_origin_reference, ...) are looked through."""
    from ..terms import (ctor_calls, bound_arg, SELF, A, K, NONE, contains, subterms, is_call, call_name, call_arg, pp, alternatives,
                         return_alternatives, raise_conditions, attr_stores, mk_bool)
    ix = chk.ix
    model = Model(ix)
    ams = model.add_methods()
    chk.floor("add_* methods", len(ams), 21)
    oref = ("param", "origin_reference")
    default = A(SELF, "default_origin_reference")
    want = (mk_bool("or", [oref, default]), ("ite", oref, oref, default),
            ("ite", ("cmp", "is", oref, NONE), default, oref))
    new_ref_call = None
    for f, ic, ctor in sorted(ams, key=lambda t: t[0].name):
        su = chk.summary(f)
        if not ctor_calls(su, ic):
            # the item is built in a helper of the logical file: look through it
            su = chk.terms.inline(f, 2, stop=lambda g: g.cls is not f.cls or g.name == "__init__" or g.kind == "property")
        ctor_terms = [c for c in ctor_calls(su, ic) if bound_arg(chk.terms, su, c, "origin_reference") is not None]
        o = bound_arg(chk.terms, su, ctor_terms[0], "origin_reference") if ctor_terms else None
        if f.name == "add_origin":
            cands = [o] if o is not None else []
            if o is not None and o[0] == "or":
                cands = list(o[1])
            nr = [c for c in cands if is_call(c, "next_available_origin_ref")]
            ok = bool(nr) and all(c == oref or c in nr for c in cands)
            new_ref_call = nr[0] if nr else None
            chk.require(ok, "R07.4", "origin-forwarding:add_origin",
                        f"add_origin passes origin_reference={pp(o) if o else None}", f.where)
            continue
        chk.require(o in want, "R07.4", f"origin-forwarding:{f.name}",
                    f"{f.name} passes origin_reference={pp(o) if o is not None else None}; expected the explicit value "
                    f"or the logical file's defining origin", f.where, nontrivial=False)
    lf = model.LogicalFile
    dor = chk.terms.inline(lf.lookup("default_origin_reference"), 3)
    chk.consult(lf.lookup("default_origin_reference"))

    def own_origins(t):
        return contains(t, A(SELF, "_eflr_sets")) and contains(t, lambda x: x[0] == "global" and x[1].endswith("OriginSet")) \
            and not contains(t, lambda x: x[0] == "attr" and x[2] == "physical_file")
    vals = [t for _, t in return_alternatives(dor)]
    refs = [t for t in vals if t != NONE]
    def first_own_origin(x):
        alts = [a for _, a in alternatives(x) if a != NONE]
        from ..terms import first_of
        return bool(alts) and all(first_of(a) is not None and own_origins(first_of(a)) for a in alts)
    ok = bool(refs) and all(t[0] == "attr" and t[2] == "origin_reference" and first_own_origin(t[1]) for t in refs)
    chk.require(ok, "R07.4", "default-origin-is-defining-origin",
                f"the default origin reference is `{[pp(t)[:70] for t in refs]}`, not the origin reference of the first "
                f"ORIGIN object of this logical file's own registry", dor.func.where)
    add = lf.lookup("add_origin")
    asu = chk.terms.inline(add, 3, stop=lambda g: g.name == "next_available_origin_ref")
    ok = False
    for c in asu.all_calls("next_available_origin_ref"):
        args = list(c[2]) + [v for _, v in c[3]]
        ok = ok or (len(args) == 2 and args[0] == oref and own_origins(args[1]))
    chk.require(ok, "R07.4", "origin-numbering-against-own-origins", "new origin references are not chosen against the "
                "origins of this logical file", add.where)
    nar = lf.lookup("next_available_origin_ref")
    ns = chk.summary(nar)
    origins_p = ("param", nar.param_names[-1])

    def is_refs(t):
        return t[0] == "comp" and len(t[3]) == 1 and t[3][0][1] == origins_p and not t[3][0][2] and \
            t[2][0] == "attr" and t[2][2] == "origin_reference"
    taken = [pc for pc, _ in raise_conditions(ns) if any(l[0] == "cmp" and l[1] == "in" and l[2] == oref and is_refs(l[3])
                                                          for l in pc)]
    ok = bool(taken)
    for conds, t in return_alternatives(ns):
        if t == oref:
            ok = ok and any(l[0] == "cmp" and l[1] == "not in" and l[2] == oref and is_refs(l[3]) for l in conds)
        elif t[0] == "fold":
            cond = t[5]
            ok = ok and cond is not None and cond[0] == "cmp" and cond[1] == "in" and cond[2] == ("mu", t[1], t[2]) \
                and is_refs(cond[3])
        elif is_call(t, "next") and t[2] and t[2][0][0] == "comp" and len(t[2]) == 1:
            # next(r for r in count(k) if r not in <references in use>): the first candidate that is free
            comp = t[2][0]
            gens = comp[3]
            ok = ok and len(gens) == 1 and is_call(gens[0][1], "count") and len(gens[0][2]) == 1 and \
                gens[0][2][0][0] == "cmp" and gens[0][2][0][1] == "not in" and gens[0][2][0][2] == comp[2] and \
                is_refs(gens[0][2][0][3])
        else:
            ok = False
    chk.require(ok, "R07.4", "origin-reference-unique", "an origin reference already used in the logical file can be "
                "handed out again (a requested one must be refused when taken, a generated one advanced while taken)",
                nar.where)
    # back-fill: only through the own registry (R18.2 covers the shared one); only items without origin
    fills = [(obj, v, e) for obj, k, v, e in attr_stores(asu) if k == K("origin_reference")]
    chk.floor("origin back-fill stores in add_origin", len(fills), 2)
    item_fills = [(obj, v, e) for obj, v, e in fills if obj[0] == "elem"]
    other_fills = [(obj, v, e) for obj, v, e in fills if obj[0] != "elem"]
    ok = bool(item_fills)
    for obj, v, e in item_fills:
        its = [lp[2] for lp in e.loops() if isinstance(lp[2], tuple)]
        ok = ok and any(contains(t, A(SELF, "_eflr_sets")) for t in its) and \
            not any(contains(t, lambda x: x[0] == "attr" and x[2] == "physical_file") for t in its + [obj])
    chk.require(ok, "R07.4", "backfill-own-objects-only",
                f"add_origin back-fills origin references through "
                f"{[pp(lp[2])[:50] for _, _, e in item_fills for lp in e.loops()][:3]}, not (only) through this logical "
                f"file's own registry", add.where)
    ok = all(("cmp", "is", A(obj, "origin_reference"), NONE) in e.pc for obj, v, e in item_fills) and \
        all(obj == A(SELF, "file_header_item") for obj, v, e in other_fills)
    chk.require(ok and bool(item_fills), "R07.4", "backfill-only-unset-origins",
                "add_origin overwrites origin references that were already set", add.where)
    first_only = all(any(contains(l, lambda x: x[0] == "cmp" and x[1] == "==" and x[3] == K(1)) for l in e.pc)
                     for obj, v, e in fills)
    chk.require(first_only, "R07.4", "backfill-only-for-the-defining-origin",
                "origin references are back-filled when an origin other than the first one is added", add.where,
                nontrivial=False)


def r07_5_iflr_reference(chk):
    from ..terms import SELF, A, alternatives, is_call, call_arg, pp, return_alternatives
    from ._layout import row_body, _parts
    ix = chk.ix
    for cname, field, arg in (("FrameData", "_frame", "frame"), ("NoFormatFrameData", "no_format_object",
                                                                "no_format_object")):
        c = ix.get_class(cname)
        body = c.lookup("_make_body_bytes")
        init = c.lookup("__init__")
        chk.consult(body, init)
        si = chk.summary(init)
        sts = [e for e in si.stores(field) if e.base == SELF]
        ok = len(sts) == 1 and sts[0].value == ("param", arg) and not sts[0].loops()
        chk.require(ok, "R07.5", f"reference-object-stored-verbatim:{cname}",
                    f"{cname} does not keep the object it was constructed with", init.where)
        want = A(SELF, field, "obname")
        if cname == "FrameData":
            firsts = [row_body(chk).head[:1]]
        else:
            bs = chk.terms.inline(body, 2)
            firsts = []
            for _, t in return_alternatives(bs):
                if is_call(t, "join", 1) and t[2][0][0] in ("list", "tuple"):
                    firsts.append(list(t[2][0][1][:1]))
                else:
                    firsts.append(_parts(t)[:1])
        ok = bool(firsts) and all(f_ == [want] for f_ in firsts)
        chk.require(ok, "R07.5", f"body-starts-with-obname:{cname}",
                    f"the {cname} record body starts with {[pp(x)[:40] for f_ in firsts for x in f_]}, not with the OBNAME "
                    f"of its {arg}", body.where)
    mfd = ix.get_class("MultiFrameData")
    made = []
    for m in mfd.methods.values():
        for cterm in chk.summary(m).all_calls("FrameData"):
            made.append((m, cterm))
    ok = bool(made) and all(call_arg(c_, 0, "frame") == A(SELF, "_frame") for _, c_ in made)
    chk.require(ok, "R07.5", "frame-data-refers-to-its-frame",
                "frame data records are not created with the frame they belong to", mfd.where)


def r07_6_order(chk):
    from . import c09
    tmp = Check("C09", "quick", 0, chk.ix, chk.cg, quiet=True)
    c09.r09_1_order(tmp)
    for o in tmp.obs:
        o.rule = "R07.6"
        chk.obs.append(o)
