"""C06 - primitive values are encoded exactly as their representation code prescribes.

R06.1 (tables) fixed-width codes: big-endian struct formats of the reference size and signedness; the value reaches
      `pack` unmodified (no masking / clamping between the dispatch and the packer) so that out-of-range values raise.
R06.2 (BytesAI) UVARI for all integers v: v < 0 raises; 0..127 -> 1 byte v; 128..16383 -> 2 bytes 0x8000+v;
      16384..2^30-1 -> 4 bytes 0xC0000000+v; v >= 2^30 raises.
R06.3 (BytesAI + call sites) IDENT-typed fields: one-byte length + that many strict-ASCII bytes, > 255 raises; ASCII:
      UVARI length + bytes; the IDENT emitter is used at every IDENT-typed site (labels, units, set type/name, object
      names, OBJREF type, IDENT values).
R06.4 (BytesAI, month enumerated) DTIME: UTC conversion, Y-1900 | TZ(2)<<4+month | day | hour | minute | second as
      USHORT, milliseconds <= 999 as UNORM; 8 bytes; years outside 1900..2155 raise.
R06.5 (BytesAI) OBNAME = UVARI(origin) | USHORT(copy) | IDENT(name), raising when the origin is unset;
      OBJREF = IDENT(set type of the referenced object's parent) | OBNAME.
R06.6 (tables) every code a declaration / default / inference table can yield has a dispatch entry or a struct format.
R06.7 (effects) none of the encoders is memoised on value equality.
"""

from __future__ import annotations

import ast
import struct

from .. import AnalysisError
from ..absint import (Interp, State, SeqV, IntV, BoolV, ObjV, OpaqueV, StubV, NoneV, NONE, TupleV, EnumV, Out)
from ..linarith import LinExpr, le, lt, ge, gt, eq, entails, infeasible_cached
from ..common import module_dict_expr, dispatch_table_name, Model, norm, try_const, kw, call_name
from ..index import Scope, walk_local
from ..segmodel import SegmentModel
from .. import rp66_ref as ref

LEVEL = "proof"
EXPLANATION = ("Struct formats are compared with the RP66 V1 Appendix B table; UVARI, IDENT, ASCII, OBNAME, OBJREF and "
               "DTIME emitters are interpreted abstractly for the whole value domain (symbolic value / length, month "
               "enumerated 1..12) and every path is checked against the standard's layout, raising paths against the "
               "unrepresentable range; dispatch totality and emitter call sites are enumerated exhaustively. Trusted: "
               "`struct` produces IEEE / two's complement big-endian bytes for the given format.")
TRUSTED = ["struct.pack semantics (sizes, ranges, big-endian '>' formats)", "sa/absint.py, sa/linarith.py",
           "RP66 V1 Appendix B (sa/rp66_ref.py)"]


def W(st, extra=()):
    return SegmentModel.witness(st.cons, extra)


def run(chk):
    chk.trusted = TRUSTED
    ix = chk.ix
    it = Interp(ix)
    chk.guard(r06_1_table, chk, it)
    chk.guard(r06_2_uvari, chk)
    chk.guard(r06_3_ident_ascii, chk)
    chk.guard(r06_4_dtime, chk)
    chk.guard(r06_5_obname, chk)
    chk.guard(r06_6_totality, chk, it)
    chk.guard(r06_7_no_memo, chk)


# ---------------------------------------------------------------------------------------------------- R06.1
def r06_1_table(chk, it):
    ix = chk.ix
    rc = ix.get_class("RepresentationCode")
    chk.floor("representation codes in the enum", len(it.repr_code_values), 20)
    for name, val in sorted(it.repr_code_values.items(), key=lambda kv: kv[1]):
        r = ref.REPR_CODES.get(val)
        chk.require(r is not None and r[0] == name, "R06.1", f"code-number:{name}={val}",
                    f"representation code {name}={val} is not the standard's ({r})", rc.where, nontrivial=False)
        fmt = it.struct_formats.get(name)
        if name in ref.STRUCT_FORMATS:
            chk.require(fmt == ref.STRUCT_FORMATS[name], "R06.1", f"struct-format:{name}",
                        f"{name} is packed with {fmt!r}; the standard's encoding is {ref.STRUCT_FORMATS[name]!r} "
                        f"(big-endian, size {r[1] if r else '?'})", rc.where)
        elif fmt is not None and r is not None and r[1] is not None:
            chk.require(fmt.startswith(">") and struct.calcsize(fmt) == r[1], "R06.1", f"struct-size:{name}",
                        f"{name} format {fmt!r} is not big-endian of size {r[1]}", rc.where, nontrivial=False)
    # the value reaches the packer unmodified (decided on the value-flow normal form: helpers and temporaries are
    # looked through, so only what is finally packed counts)
    from ..terms import SELF, A, alternatives, pp
    conv = rc.lookup("convert")
    cs = chk.summary(conv)
    val = ("param", conv.param_names[1])
    packs = []
    for _, t, _ in cs.returns:
        for _, alt in alternatives(chk.terms.expand_calls(t, cs, depth=2)):
            packs.append(alt)
    ok = bool(packs) and all(a == ("call", ("attr", A(SELF, "converter"), "pack"), (val,), ()) for a in packs)
    chk.require(ok and not cs.stores(), "R06.1", "value-reaches-pack-unmodified:convert",
                f"RepresentationCode.convert returns `{'; '.join(pp(a)[:80] for a in packs[:2])}`: the value is altered "
                f"before packing (masking / clamping hides range errors) or not packed by the member's own Struct",
                conv.where)
    ws = ix.get_function("write_struct")
    wsum = chk.summary(ws)
    pval = ("param", ws.param_names[1])
    outs = [alt for _, t, _ in wsum.returns for _, alt in alternatives(t)]
    ok = len(outs) >= 2 and all(a[0] == "call" and a[2] == (pval,) and not a[3] for a in outs)
    chk.require(ok, "R06.1", "value-reaches-pack-unmodified:write_struct",
                f"write_struct returns `{'; '.join(pp(a)[:80] for a in outs[:3])}`: the value is altered before it is "
                f"handed to the encoder", ws.where)


# ---------------------------------------------------------------------------------------------------- R06.2
def r06_2_uvari(chk):
    ix = chk.ix
    f = ix.get_function("write_struct_uvari")
    chk.consult(f)
    it = Interp(ix)
    st = State()
    v = LinExpr.sym("v")
    outs = it.call_function(f, [IntV(v)], {}, st, f.node)
    covered = {i: [] for i in range(len(ref.UVARI))}
    for k, o in enumerate(outs):
        if o.kind == "val":
            res = o.value
            if not (isinstance(res, SeqV) and len(res.pieces) == 1 and res.pieces[0][0].startswith("pack:")):
                chk.fail("R06.2", f"shape:path{k}", f"UVARI result is not a single packed integer: {res!r}", f.where)
                continue
            fmt = res.pieces[0][0][5:]
            arg = res.pieces[0][2][0]
            size = struct.calcsize(fmt)
            row = [r for r in ref.UVARI if r[2] == size]
            if not row:
                chk.fail("R06.2", f"size:path{k}", f"UVARI emits {size} bytes", f.where, witness=W(o.st))
                continue
            lo, hi, _, off = row[0]
            idx = ref.UVARI.index(row[0])
            covered[idx].append(o)
            chk.require(entails(o.st.cons, ge(v, lo)) and entails(o.st.cons, le(v, hi)), "R06.2",
                        f"range-of-{size}-byte-form:path{k}",
                        f"a value outside {lo}..{hi} is written in the {size}-byte form", f.where,
                        witness=W(o.st, [lt(v, lo)]) | W(o.st, [gt(v, hi)]))
            chk.require(isinstance(arg, LinExpr) and arg == v + off and fmt in (">B", ">H", ">I"), "R06.2",
                        f"marker-bits-of-{size}-byte-form:path{k}",
                        f"the {size}-byte form packs {arg!r} with {fmt}; expected v + {off:#x} big-endian unsigned",
                        f.where)
        elif o.kind == "raise":
            # a raise is right exactly for v < 0 or v >= 2^30
            feasible_valid = not infeasible_cached(list(o.st.cons) + [ge(v, 0), le(v, 2 ** 30 - 1)])
            chk.require(not feasible_valid, "R06.2", f"raises-only-outside-0..2^30-1:{o.exc}:path{k}",
                        f"UVARI raises {o.exc} for a representable value", f.where,
                        witness=W(o.st, [ge(v, 0), le(v, 2 ** 30 - 1)]))
    # totality: every v in each range is accepted on some path, every v outside raises on some path
    for idx, (lo, hi, size, off) in enumerate(ref.UVARI):
        paths = covered[idx]
        # the union of the path conditions must cover [lo, hi]: check the endpoints and that no gap constraint exists
        ok = bool(paths)
        for probe in (lo, hi, (lo + hi) // 2):
            ok = ok and any(not infeasible_cached(list(o.st.cons) + [eq(v, probe)]) for o in paths)
        chk.require(ok, "R06.2", f"every-value-of-{lo}..{hi}-accepted-in-{size}-bytes",
                    f"some value of {lo}..{hi} is not written in the {size}-byte form", f.where)
    for probe, what in ((-1, "negative"), (2 ** 30, "2^30")):
        r = [o for o in outs if o.kind == "raise" and not infeasible_cached(list(o.st.cons) + [eq(v, probe)])]
        acc = [o for o in outs if o.kind == "val" and not infeasible_cached(list(o.st.cons) + [eq(v, probe)])]
        chk.require(bool(r) and not acc, "R06.2", f"rejects-{what}", f"UVARI accepts {probe} instead of raising",
                    f.where, witness={"v": probe})
    for q in it.consulted:
        chk.consulted_functions.add(q)


# ---------------------------------------------------------------------------------------------------- R06.3
def r06_3_ident_ascii(chk):
    ix, cg = chk.ix, chk.cg
    ident = ix.find_function("write_struct_ident")
    ascii_ = ix.get_function("write_struct_ascii")
    uvari = ix.get_function("write_struct_uvari")
    chk.require(ident is not None, "R06.3", "ident-emitter-exists",
                "there is no dedicated IDENT emitter: IDENT-typed fields share the ASCII emitter (UVARI length prefix, "
                "no 255 bound)", ascii_.where)
    L = LinExpr.sym("n_chars")
    if ident is not None:
        chk.consult(ident)
        it = Interp(ix)
        st = State()
        st.add(ge(L, 0))
        outs = it.call_function(ident, [SeqV("str", L, [("param", L, "text")])], {}, st, ident.node)
        for k, o in enumerate(outs):
            if o.kind == "val":
                v = o.value
                shape = isinstance(v, SeqV) and len(v.pieces) == 2 and v.pieces[0][0] == "pack:>B" \
                    and v.pieces[0][2][0] == L and v.pieces[1][0] == "param"
                chk.require(shape and entails(o.st.cons, le(L, 255)) and entails(o.st.cons, eq(v.length, L + 1)),
                            "R06.3", f"ident=USHORT(n)+n-bytes:path{k}",
                            "IDENT is not a one-byte length followed by exactly that many bytes", ident.where,
                            witness=W(o.st))
            elif o.kind == "raise" and o.exc != "UnicodeEncodeError":
                chk.require(infeasible_cached(list(o.st.cons) + [le(L, 255)]), "R06.3", f"ident-raises-only->255:path{k}",
                            f"IDENT emitter raises {o.exc} for a string of at most 255 characters", ident.where,
                            witness=W(o.st, [le(L, 255)]))
        long_ok = [o for o in outs if o.kind == "val" and not infeasible_cached(list(o.st.cons) + [eq(L, 256)])]
        chk.require(not long_ok, "R06.3", "ident-256-rejected", "a 256-character IDENT is accepted", ident.where,
                    witness={"n_chars": 256})
        _strict_ascii(chk, outs, "ident", ident)
        for q in it.consulted:
            chk.consulted_functions.add(q)
    # ASCII
    chk.consult(ascii_)
    it = Interp(ix)
    st = State()
    st.add(ge(L, 0))
    marker = {}

    def uvari_summary(interp, args, kwargs, s, node):
        marker["arg"] = args[0]
        n = s.new_sym("uvari_len")
        s.add(ge(n, 1))
        s.add(le(n, 4))
        return interp.val(s, SeqV("bytes", n, [("uvari", n, args[0].e if isinstance(args[0], IntV) else None)]))
    it.summaries[uvari.qualname] = uvari_summary
    outs = it.call_function(ascii_, [SeqV("str", L, [("param", L, "text")])], {}, st, ascii_.node)
    for k, o in enumerate(outs):
        if o.kind == "val":
            v = o.value
            shape = isinstance(v, SeqV) and len(v.pieces) == 2 and v.pieces[0][0] == "uvari" and v.pieces[0][2] == L \
                and v.pieces[1][0] == "param"
            chk.require(shape, "R06.3", f"ascii=UVARI(n)+n-bytes:path{k}",
                        "ASCII is not UVARI(length) followed by the characters", ascii_.where)
    _strict_ascii(chk, outs, "ascii", ascii_)
    # emission sites: which emitter serves which IDENT-typed field.  Decided over the summaries of *all* functions of the
    # package: a field counts as emitted wherever a byte-producing call receives a term that reads it, so the rule
    # does not depend on which method (or extracted helper) does the emitting.
    from ..terms import SELF, A, K, subterms, call_name, call_arg, contains, pp
    fields = {
        "label": lambda t: t[0] == "attr" and t[2] in ("_label", "label") and t[1] == SELF,
        "units": lambda t: t[0] == "attr" and t[2] in ("_units", "units") and t[1] == SELF,
        "set type": lambda t: t[0] == "attr" and t[2] == "set_type",
        "set name": lambda t: t[0] == "attr" and t[2] == "set_name" and t[1] == SELF,
        "object name": lambda t: t == A(("param", "value"), "name"),
        "header labels": lambda t: t in (K("SEQUENCE-NUMBER"), K("ID")),
    }
    emitters = {k: {} for k in fields}
    for f in ix.functions.values():
        if not isinstance(f.node, (ast.FunctionDef, ast.AsyncFunctionDef)):
            continue
        # (the fixed FILE-HEADER labels are literals at the call site: look through helpers they are passed to)
        fs = chk.terms.inline(f, 2, stop=lambda g, f=f: g.module is not f.module or g.name == "__init__") \
            if f.cls is not None and f.cls.name == "FileHeaderSet" else chk.terms.summary(f)
        for c in fs.all_calls():
            nm = call_name(c)
            if nm in ("write_struct_ident", "write_struct_ascii", "get_ascii_bytes"):
                arg, kind = call_arg(c, 0), nm
            elif nm == "write_struct" and len(c[2]) == 2:
                arg = c[2][1]
                kind = "write_struct(" + pp(c[2][0]).split(".")[-1] + ")"
            elif nm == "encode" and c[1][0] == "attr":
                arg, kind = c[1][1], "str.encode"
            else:
                continue
            if arg is None:
                continue
            for name, pred in fields.items():
                if name == "header labels" and not (f.cls is not None and f.cls.name == "FileHeaderSet"):
                    continue
                if name == "set type" and f.cls is not None and f.cls.name not in ("EFLRSet",) and \
                        nm != "write_struct_ident" and f.name != "write_struct_objref":
                    pass
                if contains(arg, pred):
                    emitters[name].setdefault(kind, []).append(f)
    n_sites = 0
    for name, found in emitters.items():
        bad = {k: v for k, v in found.items() if k not in ("write_struct_ident", "write_struct(IDENT)")}
        n_sites += sum(len(v) for v in found.values())
        for fl in found.values():
            chk.consult(*fl)
        where = next(iter(found.values()))[0].where if found else ident.where if ident else ""
        chk.require(bool(found) and not bad, "R06.3", f"ident-field:{name}",
                    f"{name} (an IDENT-typed field) is emitted through "
                    f"{sorted(bad) if bad else 'no IDENT emitter'}"
                    f"{' in ' + ', '.join(f.short for v in bad.values() for f in v) if bad else ''}", where)
    chk.floor("IDENT emission sites", n_sites, 7)
    # dispatch entries
    sw = ix.get_function("write_struct")
    d = module_dict_expr(ix, sw.module, dispatch_table_name(ix))
    if not isinstance(d, ast.Dict):
        raise AnalysisError("dispatch table of write_struct is not a dict literal / registry")
    table = {norm(k).split(".")[-1]: norm(v) for k, v in zip(d.keys, d.values)}
    chk.info["dispatch"] = table
    chk.require(table.get("IDENT") == (ident.name if ident else None), "R06.3", "dispatch:IDENT",
                f"IDENT values are dispatched to {table.get('IDENT')}", sw.where)
    chk.require(table.get("ASCII") == ascii_.name, "R06.3", "dispatch:ASCII",
                f"ASCII values are dispatched to {table.get('ASCII')}", sw.where)


def _strict_ascii(chk, outs, tag, f):
    enc = [e for o in outs for e in o.st.events if e[0] == "encode"]
    bad = [e for o in outs for e in o.st.events if e[0] == "encode-errors-arg"]
    chk.require(bool(enc) and all(e[2] == "ascii" for e in enc) and not bad, "R06.3", f"strict-ascii:{tag}",
                f"{f.short} does not encode with the strict ASCII codec (non-ASCII text must raise)", f.where)


# ---------------------------------------------------------------------------------------------------- R06.4
def r06_4_dtime(chk):
    ix = chk.ix
    f = ix.get_function("write_struct_dtime")
    chk.consult(f)
    n_ok = 0
    for month in range(1, 13):
        it = Interp(ix)
        st = State()
        syms = {n: LinExpr.sym(n) for n in ("year", "day", "hour", "minute", "second", "microsecond")}
        for n, (lo, hi) in {"year": (1, 9999), "day": (1, 31), "hour": (0, 23), "minute": (0, 59), "second": (0, 59),
                            "microsecond": (0, 999999)}.items():
            st.add(ge(syms[n], lo))
            st.add(le(syms[n], hi))
        utc_calls = []

        def astimezone(interp, args, kwargs, s, node, utc_calls=utc_calls):
            utc_calls.append(norm(node))
            return interp.val(s, utc)
        attrs = {n: IntV(e) for n, e in syms.items()}
        attrs["month"] = IntV(month)
        utc = StubV("datetime-utc", attrs=attrs, methods={})
        lattrs = {}
        for n_, (lo_, hi_) in {"year": (1, 9999), "day": (1, 31), "hour": (0, 23), "minute": (0, 59),
                               "second": (0, 59), "microsecond": (0, 999999)}.items():
            ls = LinExpr.sym("local_" + n_)
            st.add(ge(ls, lo_))
            st.add(le(ls, hi_))
            lattrs[n_] = IntV(ls)
        # (the local date-time lies in another month than its UTC form, as it can around midnight on the last day: a
        #  field read from the unconverted object then shows in the bytes)
        lattrs["month"] = IntV(month % 12 + 1)
        local = StubV("datetime", attrs=lattrs, methods={"astimezone": astimezone})
        outs = it.call_function(f, [local], {}, st, f.node)
        chk.require(bool(utc_calls) and all("utc" in c.lower() for c in utc_calls), "R06.4",
                    f"converted-to-UTC:month{month}", "the date-time fields are not taken after conversion to UTC",
                    f.where, nontrivial=(month == 1))
        for k, o in enumerate(outs):
            if o.kind == "val":
                v = o.value
                ps = v.pieces if isinstance(v, SeqV) else []
                fmts = [p[0] for p in ps]
                good = fmts == ["pack:>B"] * 6 + ["pack:>H"] and entails(o.st.cons, eq(v.length, 8))
                if good:
                    a = [p[2][0] for p in ps]
                    good = a[0] == syms["year"] - 1900 and a[1] == LinExpr.c(2 * 16 + month) and a[2] == syms["day"] \
                        and a[3] == syms["hour"] and a[4] == syms["minute"] and a[5] == syms["second"]
                    ms = a[6]
                    good = good and entails(o.st.cons, le(ms, 999)) and entails(o.st.cons, ge(ms, 0)) \
                        and entails(o.st.cons, le(2 * 1000 * ms, 2 * syms["microsecond"] + 1000)) \
                        and (entails(o.st.cons, ge(2 * 1000 * ms, 2 * syms["microsecond"] - 1000)) or
                             entails(o.st.cons, eq(ms, 999)))
                    good = good and entails(o.st.cons, ge(syms["year"], 1900)) and entails(o.st.cons, le(syms["year"], 2155))
                n_ok += good
                chk.require(good, "R06.4", f"layout:month{month}:path{k}",
                            "DTIME is not Y-1900 | (2<<4)+month | day | hour | minute | second (USHORT each) | "
                            "milliseconds<=999 rounded from the microseconds (UNORM), 8 bytes, for years 1900..2155",
                            f.where, witness=W(o.st), nontrivial=(month == 1))
            elif o.kind == "raise":
                ok = infeasible_cached(list(o.st.cons) + [ge(syms["year"], 1900), le(syms["year"], 2155)])
                chk.require(ok, "R06.4", f"raises-only-outside-1900..2155:month{month}:path{k}",
                            f"DTIME raises {o.exc} for a representable date-time", f.where,
                            witness=W(o.st, [ge(syms["year"], 1900), le(syms["year"], 2155)]),
                            nontrivial=(month == 1))
        for q in it.consulted:
            chk.consulted_functions.add(q)
    chk.floor("DTIME layouts verified (12 months)", n_ok, 12)


# ---------------------------------------------------------------------------------------------------- R06.5
def r06_5_obname(chk):
    ix = chk.ix
    ob = ix.get_function("write_struct_obname")
    oref = ix.get_function("write_struct_objref")
    chk.consult(ob, oref)
    item_cls = ix.get_class("EFLRItem")
    set_cls = ix.get_class("EFLRSet")
    for origin_kind in ("int", "none"):
        it = Interp(ix)
        st = State()
        org, cp, L, Lt = (LinExpr.sym(n) for n in ("origin", "copy", "len_name", "len_type"))
        st.add(ge(L, 0))
        st.add(ge(Lt, 0))
        parent = st.new_obj(set_cls, tag="parent-set", fields={"set_type": SeqV("str", Lt, [("param", Lt, "set_type")])})
        item = st.new_obj(item_cls, tag="item", fields={
            "_origin_reference": IntV(org) if origin_kind == "int" else NONE, "_copy_number": IntV(cp),
            "name": SeqV("str", L, [("param", L, "name")]), "_parent": parent})
        outs = it.call_function(ob, [item], {}, st, ob.node)
        normal = [o for o in outs if o.kind == "val"]
        if origin_kind == "none":
            chk.require(not normal and any(o.kind == "raise" for o in outs), "R06.5", "obname-without-origin-raises",
                        "an object without origin reference gets an OBNAME", ob.where)
            continue
        chk.require(bool(normal), "R06.5", "obname-normal-path", "OBNAME emitter always raises", ob.where)
        for k, o in enumerate(normal):
            ps = o.value.pieces if isinstance(o.value, SeqV) else []
            # UVARI(origin) is 1 packed int (pack:>B|>H|>I of origin + offset) ; USHORT(copy) ; IDENT(name)
            good = len(ps) == 4 and ps[0][0] in ("pack:>B", "pack:>H", "pack:>I") \
                and isinstance(ps[0][2][0], LinExpr) and (ps[0][2][0] - org).is_const() \
                and ps[1][0] == "pack:>B" and ps[1][2][0] == cp \
                and ps[2][0] == "pack:>B" and ps[2][2][0] == L and ps[3][0] == "param" and ps[3][2] == "name"
            chk.require(good, "R06.5", f"obname=UVARI(origin)|USHORT(copy)|IDENT(name):path{k}",
                        f"OBNAME pieces are {[(p[0], p[2] if p[0] == 'param' else '') for p in ps]}", ob.where,
                        nontrivial=(k == 0))
        # OBJREF
        it2 = Interp(ix)
        outs2 = []
        for o in normal[:1]:
            s2 = o.st.clone()
            s2.events = []
            outs2 = it2.call_function(oref, [item], {}, s2, oref.node)
        n2 = [o for o in outs2 if o.kind == "val"]
        chk.require(bool(n2), "R06.5", "objref-normal-path", "OBJREF emitter always raises", oref.where)
        for k, o in enumerate(n2):
            ps = o.value.pieces if isinstance(o.value, SeqV) else []
            good = len(ps) == 6 and ps[0][0] == "pack:>B" and ps[0][2][0] == Lt and ps[1][0] == "param" \
                and ps[1][2] == "set_type" and ps[5][0] == "param" and ps[5][2] == "name"
            chk.require(good, "R06.5", f"objref=IDENT(parent set type)|OBNAME:path{k}",
                        f"OBJREF pieces are {[(p[0], p[2] if p[0] == 'param' else '') for p in ps]}", oref.where,
                        nontrivial=(k == 0))
        for q in set(it.consulted) | set(it2.consulted):
            chk.consulted_functions.add(q)


# ---------------------------------------------------------------------------------------------------- R06.6
def r06_6_totality(chk, it):
    ix = chk.ix
    model = Model(ix)
    sw = ix.get_function("write_struct")
    d = module_dict_expr(ix, sw.module, dispatch_table_name(ix))
    if not isinstance(d, ast.Dict):
        raise AnalysisError("dispatch table of write_struct is not a dict literal / registry")
    dispatch = {norm(k).split(".")[-1] for k in d.keys}
    producible = {}
    for dcl in model.decls:
        rcx = dcl.kwargs.get("representation_code")
        if rcx is not None:
            producible.setdefault(norm(rcx).split(".")[-1], []).append(dcl.key)
    for c in model.attr_classes:
        for attr in ("_default_repr_code", "_valid_repr_codes"):
            e = c.class_assigns.get(attr)
            if e is None:
                continue
            for n in ast.walk(e):
                if isinstance(n, ast.Attribute) and isinstance(n.value, ast.Name) and n.value.id in ("RepC",
                                                                                                    "RepresentationCode"):
                    if n.attr in it.repr_code_values:
                        producible.setdefault(n.attr, []).append(f"{c.name}.{attr}")
    conv = ix.get_class("ReprCodeConverter")
    for tbl in ("numpy_dtypes_to_repr_codes", "generic_types"):
        e = conv.class_assigns.get(tbl)
        if isinstance(e, ast.Dict):
            for v in e.values:
                producible.setdefault(norm(v).split(".")[-1], []).append(tbl)
    # numeric_codes etc. are derived by value ranges: every code <= 18 may be chosen explicitly for a NumericAttribute
    chk.floor("producible representation codes", len(producible), 10)
    for code, where_from in sorted(producible.items()):
        if code not in it.repr_code_values:
            continue
        has = code in dispatch or it.struct_formats.get(code) is not None
        chk.require(has, "R06.6", f"encoder-for:{code}",
                    f"code {code} can be produced by {where_from[:3]} but has neither a dispatch entry nor a struct "
                    f"format", sw.where, nontrivial=False)


# ---------------------------------------------------------------------------------------------------- R06.7
def r06_7_no_memo(chk):
    ix = chk.ix
    names = ("write_struct", "write_struct_ascii", "write_struct_ident", "write_struct_uvari", "write_struct_dtime",
             "write_struct_obname", "write_struct_objref", "write_struct_status")
    funcs = [ix.find_function(n) for n in names]
    funcs = [f for f in funcs if f is not None] + [ix.get_method("RepresentationCode", "convert")]
    # helpers they call inside the package are covered as well
    seen = set(funcs)
    for f in list(funcs):
        for g in chk.cg.callees(f):
            if g not in seen and g.module.name.startswith("dliswriter.utils.internal"):
                seen.add(g)
                funcs.append(g)
    for f in funcs:
        memo = [d for d in f.decorators if any(w in d for w in ("lru_cache", "cache", "memoize", "cached"))]
        chk.require(not memo, "R06.7", f"not-memoised:{f.short}",
                    f"{f.short} is memoised ({memo}): keys that compare equal (0.0/-0.0; 1/1.0/True; an item before and "
                    f"after renaming) would share one encoding", f.where, nontrivial=False)
