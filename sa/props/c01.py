"""C01 - physical layout: storage unit label, visible records and segments are well-formed.

Decided for ALL body lengths S >= 0 and ALL record lengths accepted by the writer's validator at once, by BytesAI
(relational abstract interpretation: linear constraints + Fourier-Motzkin with integer tightening + parity splits),
plus structural rules (who may write the file, ordering of the label and the record loop, tiling of the loop).

R01.1 the label is exactly 80 bytes, fields in order and width 4+5+6+5+60, strict ASCII, on every non-raising path.
R01.2 one producer of the file: every open() for writing is the byte writer's; the label is written first, unframed.
R01.3 the record length declared in the label is the one the writer enforces.   R01.4 accepted lengths = even 20..16384.
R01.5 per segment, at every yield of the segmenter: even declared size >= 16 equal to the emitted length, header =
      UNORM(size) | attribute byte | type byte, pad flag <=> pad bytes each holding the pad count, reserved bits clear.
R01.6 the attribute byte as a function of the constructor's flags, by interpreting the class whatever container it keeps
      them in: 0x80 iff EFLR, 0x40 iff not first, 0x20 iff not last; modifying methods change bit 0 only.
R01.7 every visible record = UNORM(length) | FF 01 | one segment; length even, 20..declared maximum; the record loop
      tiles the file (R01.8).
R01.9 (= C10 R10.1-R10.3) the output buffer and the byte writer put exactly those bytes, in order, into a file that is
      replaced by the first write and appended to afterwards.
"""

from __future__ import annotations

import ast

from .. import AnalysisError
from ..absint import Interp, State, SeqV, IntV, TupleV, ObjV, OpaqueV, BufV, NONE, sym_bool
from ..linarith import LinExpr, le, lt, ge, gt, eq, entails, infeasible_cached
from ..segmodel import SegmentModel
from ..cfg import CFG, ENTRY, EXIT
from ..common import norm, try_const, const_eval, NotConst, is_self_attr, kw
from ..index import Scope, walk_local, walk_expr

LEVEL = "proof"
EXPLANATION = ("Every obligation (label = 80 bytes in field order; accepted record lengths = even 20..16384; per "
               "segment: even declared size >= 16 equal to the emitted length, header fields, pad flag <=> pad bytes "
               "whose value is the pad count, attribute bits; visible record header and length <= declared maximum; "
               "tiling of the record loop; single file writer, label first) is discharged for all body lengths and "
               "all accepted record lengths by the abstract interpreter's own decision procedure or by exhaustive "
               "structural enumeration. A refuted obligation is reported with a concrete witness (S, vrl).")

TRUSTED = ["Python semantics of the modelled subset (ints, bytes, slicing, min/max, %, struct.pack ranges/sizes)",
           "sa/linarith.py (Fourier-Motzkin + integer tightening) and sa/absint.py transfer functions",
           "RP66 V1 section 2.3 (SUL field widths, visible record header, segment header, attribute bit weights)"]


def _even(cons, e):
    j = LinExpr.sym("__parity_j")
    return infeasible_cached(list(cons) + [eq(e, 2 * j + 1)])


def run(chk, model: SegmentModel = None, rules=None):
    ix, cg = chk.ix, chk.cg
    from ..segmodel import shared_model
    m = model or shared_model(ix, cg)
    chk.trusted = TRUSTED
    for f in (m.segmenter, m.vr_builder, m.writer_init, m.record_loop[0]):
        chk.consult(f)
    for q in m.it.consulted:
        chk.consulted_functions.add(q)
    chk.info["loop"] = m.loop_reports
    chk.info["capacity_expression"] = m.capacity_src
    chk.info["segment_paths"] = {"yield_states": len(m.yields), "exact": sum(1 for y in m.yields if y["exact"]),
                                 "raise_paths": len(m.raises)}
    want = (lambda r: rules is None or r in rules)

    # (each rule group is guarded: an analysis failure in one of them is reported only if no other group found a violation)
    if want("R01.1"):
        chk.guard(r01_1_sul, chk, m)
    if want("R01.2"):
        chk.guard(r01_2_file_ownership, chk, m)
    if want("R01.3"):
        chk.guard(r01_3_declared_is_enforced, chk, m)
    if want("R01.4"):
        chk.guard(r01_4_accepted_lengths, chk, m)
    if want("R01.6"):
        chk.guard(r01_6_attribute_byte, chk, m)
    if m.error is None:
        if want("R01.5"):
            chk.guard(r01_5_segments, chk, m)
        if want("R01.7"):
            chk.guard(r01_7_visible_record, chk, m)
        if want("R01.8"):
            chk.guard(r01_8_tiling, chk, m)
    if want("R01.9"):
        chk.guard(r01_9_buffer_and_file, chk)
    if m.error is not None and not chk.violations():
        raise m.error


def r01_9_buffer_and_file(chk):
    """Between the record loop and the file: the output buffer hands on exactly the bytes it was given, in order, for
    every fill level and record size (= C10 R10.1 / R10.2), and the byte writer replaces a pre-existing file and then
    only appends (= C10 R10.3) - so what is on disk is the label followed by the visible records and nothing else."""
    from . import c10
    from ..report import Check
    tmp = Check("C10", "quick", 0, chk.ix, chk.cg, quiet=True)
    tmp.guard(c10.r10_1_buffer, tmp)
    tmp.guard(c10.r10_3_byte_writer, tmp)
    for o in tmp.obs:
        o.rule = "R01.9"
        chk.obs.append(o)
    chk.consulted_functions |= tmp.consulted_functions
    chk.deferred.extend(tmp.deferred)


# ---------------------------------------------------------------------------------------------------- R01.1
def r01_1_sul(chk, m):
    ix = chk.ix
    sul = ix.get_class("StorageUnitLabel")
    rep = sul.lookup("represent_as_bytes")
    chk.consult(rep)
    it = Interp(ix)
    st = State()
    seq = LinExpr.sym("sequence_number")
    mrl = LinExpr.sym("max_record_length")
    lid = LinExpr.sym("len_set_identifier")
    st.add(ge(lid, 0))
    obj = st.new_obj(sul, tag="sul")
    init = sul.lookup("__init__")
    chk.consult(init)
    inits = [o for o in it.call_function(init, [obj], {
        "sequence_number": IntV(seq), "max_record_length": IntV(mrl),
        "set_identifier": SeqV("str", lid, [("param", lid, "set_identifier")])}, st, init.node) if o.kind == "val"]
    if not inits:
        raise AnalysisError("StorageUnitLabel.__init__ has no normal path")
    outs = []
    for o0 in inits:
        outs += it.call_function(rep, [obj], {}, o0.st, rep.node)
    normal = [o for o in outs if o.kind == "val"]
    # the label bytes must be recomputed from the live fields on every request (no memo on the label object)
    stores = [e for o in outs for e in o.st.events if e[0] == "store-field" and e[2] == "sul"
              and e[1].startswith(rep.module.relpath) and rep.node.lineno <= int(e[1].rsplit(":", 1)[1])
              <= rep.node.end_lineno]
    chk.require(not stores, "R01.1", "sul-bytes-not-memoised",
                f"represent_as_bytes stores to the label object ({sorted({e[3] for e in stores})}): the label written "
                f"may not reflect its current fields", rep.where)
    if not normal:
        raise AnalysisError("StorageUnitLabel.represent_as_bytes has no normal path")
    widths = [4, 5, 6, 5, 60]
    expect = [("str-of", "sequence_number"), ("const", "V1.00"), ("const", "RECORD"),
              ("str-of", "max_record_length"), ("param", "set_identifier")]
    for q in it.consulted:
        chk.consulted_functions.add(q)
    for k, o in enumerate(normal):
        res = o.value
        # the bytes held by the wrapper object: its one bytes-valued field (whatever it is called)
        bts = None
        if isinstance(res, ObjV):
            cand = [v for v in o.st.fields(res).values() if isinstance(v, SeqV) and v.kind == "bytes" and
                    not (v.const is not None and len(v.const) == 0)]
            bts = cand[0] if len(cand) == 1 else o.st.fields(res).get("_bts")
        where = rep.where
        if not isinstance(bts, SeqV):
            raise AnalysisError("SUL bytes not found in the LogicalRecordBytes wrapper")
        chk.require(entails(o.st.cons, eq(bts.length, 80)), "R01.1", f"sul-length-80:path{k}",
                    f"storage unit label is not 80 bytes on a non-raising path (length {bts.length!r})", where,
                    witness=SegmentModel.witness(o.st.cons, []),
                    detail_ok="len == 80 for every non-raising combination of field lengths")
        # group pieces by cumulative width
        groups, cur, acc, gi = [], [], LinExpr.c(0), 0
        okg = True
        for p in bts.pieces:
            cur.append(p)
            acc = acc + p[1]
            if gi < 5 and entails(o.st.cons, eq(acc, sum(widths[:gi + 1]))):
                groups.append(cur)
                cur = []
                gi += 1
        okg = len(groups) == 5 and not cur
        chk.require(okg, "R01.1", f"sul-field-widths:path{k}",
                    "label pieces do not align with the field widths 4+5+6+5+60", where)
        if okg:
            for gi, (grp, (kind, what)) in enumerate(zip(groups, expect)):
                vals = [p for p in grp if not (p[0] == "repeat")]
                good = len(vals) == 1 and vals[0][0] == kind and (
                    (kind == "const" and vals[0][2] == what) or (kind == "str-of" and vals[0][2] == what)
                    or (kind == "param" and vals[0][2] == what))
                pads = [p for p in grp if p[0] == "repeat"]
                pad_ok = all(_is_space_padding(p) for p in pads)
                chk.require(good and pad_ok, "R01.1", f"sul-field{gi + 1}:{what}:path{k}",
                            f"label field {gi + 1} does not carry {what} (found {[ (p[0], p[2]) for p in vals]})",
                            where, nontrivial=(k == 0))
    # encoding is strict ASCII
    enc = [e for o in outs for e in o.st.events if e[0] == "encode"]
    chk.require(bool(enc) and all(e[2] == "ascii" for e in enc)
                and not any(e[0] == "encode-errors-arg" for o in outs for e in o.st.events),
                "R01.1", "sul-ascii-strict", "label fields are not encoded with the strict ASCII codec", rep.where)


def _is_space_padding(p) -> bool:
    n, inner = p[2]
    return len(inner) == 1 and inner[0][0] == "const" and inner[0][2] == " "


# ---------------------------------------------------------------------------------------------------- R01.2
def r01_2_file_ownership(chk, m):
    ix, cg = chk.ix, chk.cg
    # every open(...) for writing in the package
    opens = []
    for f in ix.functions.values():
        for n in walk_local(f.node):
            if isinstance(n, ast.Call) and isinstance(n.func, ast.Name) and n.func.id == "open":
                mode = None
                if len(n.args) > 1:
                    mode = n.args[1]
                elif kw(n, "mode") is not None:
                    mode = kw(n, "mode")
                opens.append((f, n, mode))
            if isinstance(n, ast.Call) and isinstance(n.func, ast.Attribute) and n.func.attr in ("open", "write_bytes",
                                                                                               "write_text") \
                    and "Path" in norm(n.func.value):
                opens.append((f, n, None))
    byte_writer = m.writer_init  # placeholder to find the class holding the file name
    bw_cls = ix.get_class("ByteWriter")
    wb = bw_cls.lookup("write_bytes")
    if wb is None:
        raise AnalysisError("ByteWriter.write_bytes not found")
    chk.consult(wb)
    chk.floor("open() calls in the package", len(opens), 1)
    for f, n, mode in opens:
        chk.require(f is wb, "R01.2", f"open-in:{f.short}", "a function other than the byte writer opens a file "
                    "for writing", f"{f.module.relpath}:{n.lineno}", nontrivial=False)
    callers = cg.callers_of(wb)
    allowed = {"write_storage_unit_label", "pass_bytes_to_writer"}
    chk.floor("callers of the byte writer", len(callers), 2)
    for s in callers:
        chk.require(s.caller.name in allowed, "R01.2", f"write_bytes-caller:{s.caller.short}",
                    "bytes reach the file outside the label writer and the output buffer's flush",
                    f"{s.caller.module.relpath}:{s.lineno}", nontrivial=False)
    # label first: in write(), the label call dominates the record call; records refuse without the label
    writef = m.write
    wsul = m.writer_cls.lookup("write_storage_unit_label")
    wlr = m.entry
    done = False
    for f in dict.fromkeys([writef] + list(writef.nested.values()) + [m.writer_ctor_call[0]]):
        g = CFG(f.node)
        sc = Scope(ix, f)
        a = g.nodes_where(lambda s: _calls(ix, sc, s, wsul))
        b = g.nodes_where(lambda s: _calls(ix, sc, s, wlr))
        if a and b:
            done = True
            chk.require(all(g.dominated_by(x, a) for x in b) and len(a) == 1, "R01.2", "label-before-records",
                        "the storage unit label is not written exactly once before the records on every path",
                        f.where)
    if not done:
        raise AnalysisError("label / record writer calls not found in DLISFile.write")
    # typestate guard in the record writer (inlined summary: the guard may sit in a helper): a raise under
    # `not <label written>` before anything is handed to the output buffer
    from ..terms import SELF, A, contains
    ws = chk.terms.inline(wlr, 2, stop=lambda g_: g_.name == "__init__")
    flags = [e.key for f_ in m.writer_cls.methods.values() for e in chk.terms.summary(f_).stores()
             if e.kind == "store_attr" and e.base == SELF and e.value == ("const", True) and f_ is wsul]
    guard_ok = False
    for i, e in enumerate(ws.effects):
        if e.kind == "raise" and any(l == ("not", A(SELF, fl)) for l in e.pc for fl in flags) and len(e.pc) == 1 \
                and not e.ctx:
            before = [x for x in ws.effects[:i] if x.kind in ("store_attr", "store_sub") or
                      (x.kind == "call" and contains(x.value, lambda y: y[0] == "attr" and y[2] in ("add_bytes",
                                                                                                  "write_bytes")))]
            guard_ok = not before
    chk.require(guard_ok, "R01.2", "records-refuse-without-label",
                "the record writer no longer refuses to run before the label was written", wlr.where)
    # the label goes to the file unframed: write_storage_unit_label passes represent_as_bytes().bts straight on
    from ..terms import is_call as _is_call, call_recv as _call_recv
    ssum = chk.terms.inline(wsul, 1, stop=lambda g_: g_.cls is not wsul.cls)
    label_p = ("param", wsul.param_names[1]) if len(wsul.param_names) > 1 else None
    made = ("call", ("attr", label_p, "represent_as_bytes"), (), ())
    handed = [c[2][0] for c, tg in ssum.calls.items() if wb in tg and c in ssum.precise and c[2]]
    # what is handed to the byte writer is the label's own bytes object, or a field of it - nothing built around it
    ok = bool(handed) and all(a == made or (a[0] == "attr" and a[1] == made) for a in handed)
    chk.require(ok, "R01.2", "label-unframed", "the label bytes are wrapped / altered before being written", wsul.where)


def _calls(ix, sc, stmt, target) -> bool:
    from ..cfg import header_expr
    h = header_expr(stmt)
    if h is None:
        return False
    for n in walk_expr(h):
        if isinstance(n, ast.Call) and target in ix.resolve_call(n, sc)[0]:
            return True
    return False


# ---------------------------------------------------------------------------------------------------- R01.3
def r01_3_declared_is_enforced(chk, m):
    from ..terms import is_call, call_arg, call_name, pp
    f, ctor = m.writer_ctor_call
    ds = chk.summary(f)
    wsul = m.writer_cls.lookup("write_storage_unit_label")
    from ..terms import ctor_calls, bound_arg
    ctors = [c for c in ctor_calls(ds, m.writer_cls) if bound_arg(chk.terms, ds, c, "visible_record_length") is not None]
    labels = [call_arg(c, 0) for c in ds.all_calls(wsul.name)]
    vrl_arg = bound_arg(chk.terms, ds, ctors[0], "visible_record_length") if ctors else None
    ok = bool(labels) and vrl_arg is not None and vrl_arg[0] == "attr" and vrl_arg[2] == "max_record_length" \
        and all(a == vrl_arg[1] for a in labels)
    chk.require(ok, "R01.3", "label-length-is-writer-length",
                f"the record length enforced by the writer (`{pp(vrl_arg) if vrl_arg else '?'}`) is not the "
                f"max_record_length of the label that is written (`{[pp(a) for a in labels if a]}`)",
                f"{f.module.relpath}:{ctor.lineno}")
    # the label's own field is stored unmodified from the constructor argument, and bounded by 16384
    sul = chk.ix.get_class("StorageUnitLabel")
    init = sul.lookup("__init__")
    stores = [n for n in walk_local(init.node) if isinstance(n, ast.Assign)
              and any(is_self_attr(t, "max_record_length") for t in n.targets)]
    chk.require(len(stores) == 1 and isinstance(stores[0].value, ast.Name), "R01.3", "label-field-stored-verbatim",
                "max_record_length is transformed before being stored in the label", init.where)


# ---------------------------------------------------------------------------------------------------- R01.4
def r01_4_accepted_lengths(chk, m):
    acc = m.accepted_constraints()
    where = m.writer_init.where
    for k, o in enumerate(m.validator_normal):
        cons = o.st.cons
        good = entails(cons, ge(m.vrl, 20)) and entails(cons, le(m.vrl, 16384)) and _even(cons, m.vrl)
        chk.require(good, "R01.4", f"accepted-only-even-20..16384:path{k}",
                    "the writer accepts a record length outside {even 20..16384}", where,
                    witness=_wit_outside(cons, m.vrl))
    for k, o in enumerate(m.validator_raise):
        bad = not infeasible_cached(list(o.st.cons) + acc)
        chk.require(not bad, "R01.4", f"rejects-nothing-valid:{norm_where(o)}",
                    "the writer rejects a record length that is even and within 20..16384", o.where[0],
                    witness=SegmentModel.witness(list(o.st.cons) + acc) if bad else None)
    # the label's own bound must not be laxer than the writer's
    sul = chk.ix.get_class("StorageUnitLabel")
    lim = sul.lookup_class_attr("max_record_length_limit")
    v = try_const(lim[0]) if lim else None
    chk.require(isinstance(v, int) and v <= 16384, "R01.4", "label-limit<=16384",
                f"the label accepts record lengths up to {v}", sul.where)


def norm_where(o):
    return o.where[1][:60] if o.where else "?"


def _wit_outside(cons, vrl):
    b = LinExpr.sym("__odd")
    return SegmentModel.witness(cons, [lt(vrl, 20)]) | SegmentModel.witness(cons, [gt(vrl, 16384)]) \
        | SegmentModel.witness(cons, [eq(vrl, 2 * b + 1)])


# ---------------------------------------------------------------------------------------------------- R01.5
def segment_parts(y):
    """(size LinExpr, header pieces, slice piece, pad pieces, SeqV) of a yielded segment or None."""
    v = y["value"]
    if not (isinstance(v, TupleV) and len(v.items) == 2 and isinstance(v.items[0], SeqV)
            and isinstance(v.items[1], IntV)):
        return None
    seq, size = v.items[0], v.items[1].e
    pcs = seq.pieces
    sl = [i for i, p in enumerate(pcs) if p[0] in ("slice", "clamped-slice")]
    if len(sl) != 1:
        return None
    i = sl[0]
    return size, pcs[:i], pcs[i], pcs[i + 1:], seq


def r01_5_segments(chk, m):
    chk.floor("segment yield states", len(m.yields), 4)
    n_exact = 0
    failed_exact: set = set()
    pending: dict = {}
    order = sorted(range(len(m.yields)), key=lambda i: (not m.yields[i]["exact"], i))
    for k in order:
        y = m.yields[k]
        cons = y["cons"]
        tag = ("exact" if y["exact"] else "any-iteration") + f":{k}"
        parts = segment_parts(y)
        where = y["where"]
        if parts is None:
            raise AnalysisError(f"segment at {where}: yielded value is not (bytes with one body slice, size)")
        size, head, sl, pad, seq = parts
        n_exact += y["exact"]

        def ob(name, cond, msg, extra, y=y, cons=cons, tag=tag, where=where):
            if cond:
                chk.ok("R01.5", f"{name}:{tag}", "", where)
            elif y["exact"]:
                failed_exact.add(name)
                chk.fail("R01.5", f"{name}:{tag}", msg, where, witness=SegmentModel.witness(cons, extra))
            elif name not in failed_exact:
                # not confirmed on an exact path (first iterations): the invariants may be too weak
                pending.setdefault(name, msg)
        j = LinExpr.sym("__odd")
        ob("a-size-even", _even(cons, size), "declared segment size can be odd", [eq(size, 2 * j + 1)])
        ob("b-size>=16", entails(cons, ge(size, 16)), "declared segment size can be below 16", [lt(size, 16)])
        ob("c-size==len", entails(cons, eq(size, seq.length)), "declared size differs from the emitted length",
           [lt(size, seq.length)] if not infeasible_cached(list(cons) + [lt(size, seq.length)])
           else [gt(size, seq.length)])
        ob("f-size+4<=vrl", entails(cons, le(size + 4, m.vrl)),
           "segment plus visible record header can exceed the declared record length", [gt(size + 4, m.vrl)])
        # header: UNORM(size) | attribute byte | type byte
        hdr_ok = len(head) == 3 and head[0][0] == "pack:>H" and head[1][0] == "pack:>B" \
            and head[2][0] == "param" and head[2][2] == "lrtype"
        if hdr_ok:
            hdr_ok = isinstance(head[0][2][0], LinExpr) and entails(cons, eq(head[0][2][0], size))
        ob("e-header", hdr_ok, "segment header is not UNORM(size) | attribute byte | record type byte", [])
        if not hdr_ok:
            continue
        # padding: flag <=> bytes, value = count, count = size - 4 - body
        attr = head[1][2][0] if len(head) > 1 and head[1][0] == "pack:>B" else None
        body_len = sl[1]
        pad_len = LinExpr.c(0)
        pad_val_ok = True
        for p in pad:
            pad_len = pad_len + p[1]
            if p[0] != "repeat":
                pad_val_ok = False
                continue
            n, inner = p[2]
            # every pad byte packs the pad count
            pad_val_ok = pad_val_ok and len(inner) == 1 and inner[0][0] == "pack:>B" \
                and isinstance(inner[0][2][0], LinExpr) and entails(cons, eq(inner[0][2][0], size - 4 - body_len))
        flag = None
        if isinstance(attr, LinExpr) and attr.is_const():
            flag = int(attr.const) & 1
        if flag is None:
            raise AnalysisError(f"segment attribute byte is not a constant on path {tag}")
        pad_present = entails(cons, ge(pad_len, 1))
        pad_absent = entails(cons, eq(pad_len, 0))
        ob("d-pad-flag<=>pad-bytes", (flag == 1 and pad_present and pad_val_ok) or (flag == 0 and pad_absent),
           f"padding flag {flag} disagrees with the pad bytes appended (count {pad_len!r}) or a pad byte does not "
           f"hold the pad count", [])
        ob("d-pad-count==size-4-body", entails(cons, eq(pad_len, size - 4 - body_len)),
           "pad count is not (declared size - header - body)", [])
        ob("d-pad-count<=255", entails(cons, le(pad_len, 255)), "pad count does not fit its byte", [gt(pad_len, 255)])
        # reserved bits (encryption, encryption packet, checksum, trailing length) are zero
        ob("g-no-encryption-checksum-trailing", (int(attr.const) & 0b00011110) == 0,
           f"attribute byte {int(attr.const):#04x} sets an encryption / checksum / trailing-length bit", [])
    for name, msg in pending.items():
        if name not in failed_exact and not chk.violations():
            raise AnalysisError(f"obligation {name} is not discharged at an arbitrary loop iteration and has no exact "
                                f"witness within the unrolled prefix: {msg}")
    chk.floor("exact segment paths", n_exact, 3)


# ---------------------------------------------------------------------------------------------------- R01.6
def r01_6_attribute_byte(chk, m):
    """The attribute byte as a function of the constructor's three flags, decided by interpreting the class (whatever
    container it keeps the flags in): 0x80 iff EFLR, 0x40 iff not first, 0x20 iff not last, the five low bits clear;
    the methods that change an existing object (today: the padding setter) change bit 0 only; nobody outside the class
    writes its fields."""
    ix = chk.ix
    sa = ix.get_class("SegmentAttributes")
    init, to_struct = sa.lookup("__init__"), sa.lookup("to_struct")
    chk.consult(init, to_struct)
    from ..absint import sym_bool
    it = Interp(ix)

    def byte_of(o):
        v = o.value
        if not (isinstance(v, SeqV) and len(v.pieces) == 1 and v.pieces[0][0] == "pack:>B"
                and isinstance(v.pieces[0][2][0], LinExpr) and v.pieces[0][2][0].is_const()):
            return None
        return int(v.pieces[0][2][0].const)

    def expected_high(st):
        bits = 0
        for name, weight, when_set in (("is_eflr", 0x80, True), ("is_first", 0x40, False), ("is_last", 0x20, False)):
            b = LinExpr.sym(name)
            if entails(st.cons, ge(b, 1)):
                bits |= weight if when_set else 0
            elif entails(st.cons, le(b, 0)):
                bits |= 0 if when_set else weight
            else:
                return None
        return bits

    st = State()
    flags = [sym_bool(st, n) for n in ("is_eflr", "is_first", "is_last")]
    names = init.param_names[1:4]
    if names != ["is_eflr", "is_first", "is_last"]:
        raise AnalysisError(f"SegmentAttributes.__init__ takes {names}, not (is_eflr, is_first, is_last)")
    made = [o for o in it.construct(sa, flags, {}, st, init.node) if o.kind == "val"]
    n_paths = 0
    modifiers = [f for k, f in sa.methods.items() if f not in (init, to_struct) and f.kind in ("setter", "method")
                 and len(f.param_names) == 2]
    for o in made:
        for o2 in it.call_function(to_struct, [o.value], {}, o.st.clone(), to_struct.node):
            if o2.kind != "val":
                chk.fail("R01.6", f"to_struct-raises:{o2.exc}", "the attribute byte cannot be made", to_struct.where)
                continue
            got, want = byte_of(o2), expected_high(o2.st)
            if got is None or want is None:
                raise AnalysisError("attribute byte is not a constant per combination of the three flags")
            n_paths += 1
            chk.require(got == want, "R01.6", f"flag-positions:{want:#04x}",
                        f"attribute byte is {got:#04x} where (EFLR, predecessor, successor) require {want:#04x} and "
                        f"the other bits must be clear", to_struct.where, nontrivial=(n_paths <= 8))
        for mth in modifiers:
            s2 = o.st.clone()
            arg = sym_bool(s2, "new_flag")
            for o3 in it.call_function(mth, [o.value, arg], {}, s2, mth.node):
                if o3.kind != "val":
                    continue
                for o4 in it.call_function(to_struct, [o.value], {}, o3.st, to_struct.node):
                    got, want = (byte_of(o4), expected_high(o4.st)) if o4.kind == "val" else (None, None)
                    if got is None or want is None:
                        raise AnalysisError(f"attribute byte after {mth.short} is not a constant")
                    chk.require((got & 0xFE) == want, "R01.6", f"flag-writer:{mth.short}:{want:#04x}",
                                f"{mth.short} changes more than the padding bit: byte {got:#04x}, flags require "
                                f"{want:#04x} (+1 with padding)", mth.where, nontrivial=False)
    chk.floor("flag combinations interpreted", n_paths, 8)
    chk.floor("methods modifying a segment attribute object", len(modifiers), 1)
    fields = {e.key for e in chk.summary(init).effects if e.kind == "store_attr"}
    for f in ix.functions.values():
        if f.cls is not None and (f.cls is sa or sa in f.cls.mro()):
            continue
        sc = Scope(ix, f)
        for n in walk_local(f.node):
            tg = n.targets if isinstance(n, ast.Assign) else ([n.target] if isinstance(n, ast.AugAssign) else [])
            for t in tg:
                a = t.value if isinstance(t, ast.Subscript) else t
                if isinstance(a, ast.Attribute) and a.attr in fields and ix.infer(a.value, sc) == ("inst", sa):
                    chk.fail("R01.6", f"flag-writer-outside-the-class:{f.short}",
                             "a segment attribute field is written from outside the class",
                             f"{f.module.relpath}:{n.lineno}")
    # semantic cross-check on every segment path: bits 7..5 agree with the record kind and the slice position
    for k, y in enumerate(m.yields):
        parts = segment_parts(y)
        if parts is None:
            continue
        size, head, sl, pad, seq = parts
        if len(head) < 2 or head[1][0] != "pack:>B" or not isinstance(head[1][2][0], LinExpr) \
                or not head[1][2][0].is_const():
            continue  # header shape is R01.5e's business
        attr = head[1][2][0]
        a = int(attr.const)
        cons = y["cons"]
        b = LinExpr.sym("is_eflr")
        e_ok = entails(cons, ge(b, 1)) if a & 0x80 else entails(cons, le(b, 0))
        chk.require(e_ok, "R01.6", f"eflr-bit:{k}", "EFLR bit of the attribute byte disagrees with the record kind",
                    y["where"], nontrivial=(k < 4))


# ---------------------------------------------------------------------------------------------------- R01.7
def r01_7_visible_record(chk, m):
    """Obligations on every visible record the record loop hands to the output buffer (the loop is interpreted as it
    is written, with the segmenter inlined), for all S and all accepted vrl."""
    f = m.vr_builder
    # (the two version bytes are checked where they are emitted - obligation vr-version-FF01 below - wherever the
    # writer keeps them: instance field, class constant or literal)
    failed_exact: set = set()
    pending: dict = {}
    order = sorted(range(len(m.yields)), key=lambda i: (not m.yields[i]["exact"], i))
    seen = 0
    for k in order:
        y = m.yields[k]
        cons = y["cons"]
        vr = y["vr"]
        tag = ("exact" if y["exact"] else "any-iteration") + f":{k}"
        where = y["where"]

        def ob(name, cond, msg, extra, y=y, cons=cons, tag=tag, where=where):
            if cond:
                chk.ok("R01.7", f"{name}:{tag}", "", where)
            elif y["exact"]:
                failed_exact.add(name)
                chk.fail("R01.7", f"{name}:{tag}", msg, where, witness=SegmentModel.witness(cons, extra))
            elif name not in failed_exact:
                pending.setdefault(name, msg)
        shape = isinstance(vr, SeqV) and y["vr_header"] is not None and y["value"] is not None \
            and [p[0] for p in y["vr_header"]] == ["pack:>H", "pack:>B", "pack:>B"]
        ob("vr-shape", shape, "what reaches the buffer is not UNORM length | 2 version bytes | segment", [])
        if not shape:
            continue
        seen += 1
        seg = y["value"].items[0]
        hdr = y["vr_header"]
        ob("vr-length-field==len(segment)+4", isinstance(hdr[0][2][0], LinExpr)
           and entails(cons, eq(hdr[0][2][0], seg.length + 4)) and entails(cons, eq(vr.length, seg.length + 4)),
           "visible record length field is not len(segment) + 4", [])
        ver = [int(p[2][0].const) if isinstance(p[2][0], LinExpr) and p[2][0].is_const() else None for p in hdr[1:3]]
        ob("vr-version-FF01", ver == [255, 1], f"visible record version bytes are {ver}", [])
        lo = entails(cons, ge(vr.length, 20))
        hi = entails(cons, le(vr.length, m.vrl))
        ob("vr-length-even-20..vrl", lo and hi and _even(cons, vr.length),
           "visible record length is not an even number between 20 and the declared maximum",
           [gt(vr.length, m.vrl)] if not hi else ([lt(vr.length, 20)] if not lo else []))
        sz = y.get("size_arg")
        ob("buffer-told-the-true-size", sz is None or isinstance(sz, type(None)) or sz.__class__.__name__ == "NoneV"
           or (isinstance(sz, IntV) and entails(cons, eq(sz.e, vr.length))),
           "the size passed to the output buffer differs from the length of the visible record", [])
    # the builder's own raise must be unreachable (also C15 R15.1)
    for o in m.raises:
        if o.where and o.where[2].endswith(f.name):
            exact = not any(t == ("loop", "inductive") for t in o.st.trace)
            if exact:
                failed_exact.add("vr-never-raises")
                chk.fail("R01.7", f"vr-never-raises:{o.where[1][:40]}",
                         f"visible record builder raises {o.exc} for a segment the segmenter produces", o.where[0],
                         witness=SegmentModel.witness(o.st.cons))
            elif "vr-never-raises" not in failed_exact:
                pending.setdefault("vr-never-raises", f"builder may raise at {o.where[0]}")
    for name, msg in pending.items():
        if name not in failed_exact and not chk.violations():
            raise AnalysisError(f"obligation {name} is not discharged at an arbitrary loop iteration and has no exact "
                                f"witness within the unrolled prefix: {msg}")
    chk.floor("visible record paths", seen, 4)


# ---------------------------------------------------------------------------------------------------- R01.8
def r01_8_tiling(chk, m):
    ix = chk.ix
    f, loop = m.record_loop
    # semantic: on every interpreted path each segment the generator hands over is followed by exactly one visible
    # record carrying exactly that segment, before the next segment is produced
    n_pairs = 0
    bad = None
    for o in m.seg_outs:
        ev = [e for e in o.st.events if e[0] in ("segment", "vr-out")]
        i = 0
        while i < len(ev):
            if ev[i][0] == "segment":
                nxt = ev[i + 1] if i + 1 < len(ev) else None
                seg = ev[i][2]
                if nxt is None:
                    if o.kind in ("val", "loop-iteration"):
                        bad = ("a segment is produced but never handed to the output buffer", ev[i][1])
                    i += 1
                    continue
                if nxt[0] != "vr-out":
                    bad = ("a segment is dropped: the next segment is produced before it was written", ev[i][1])
                    i += 1
                    continue
                vr = nxt[2]
                same = isinstance(vr, SeqV) and isinstance(seg, TupleV) and isinstance(seg.items[0], SeqV) \
                    and vr.pieces[3:] == seg.items[0].pieces
                if not same:
                    bad = ("the visible record does not carry exactly the segment just produced", nxt[1])
                n_pairs += 1
                i += 2
                if i < len(ev) and ev[i][0] == "vr-out" and ev[i][2] is vr:
                    bad = ("the same visible record is handed to the buffer twice", ev[i][1])
            else:
                i += 1
    chk.require(bad is None, "R01.8", "one-visible-record-per-segment",
                bad[0] if bad else "", bad[1] if bad else f"{f.module.relpath}:{loop.lineno}",
                detail_ok=f"{n_pairs} (segment, visible record) pairs matched on the interpreted paths")
    chk.floor("segment/visible-record pairs", n_pairs, 4)
    buf_cls = ix.get_class("BufferedOutput")
    add = buf_cls.lookup("add_bytes")
    # (call sites resolved by type or by method name; the over-approximate pool used for calls through a variable
    #  - "any escaping function" - says nothing about who produces bytes, such a call is judged where the bound
    #  method was taken: `add = output.add_bytes` in the record loop)
    callers = [s_ for s_ in chk.cg.callers_of(add) if s_.kind != "dynamic"]
    bound_takers = [f_ for f_ in chk.ix.functions.values() if isinstance(f_.node, ast.FunctionDef) and any(
        isinstance(n_, ast.Attribute) and n_.attr == add.name and not any(
            isinstance(c_, ast.Call) and c_.func is n_ for c_ in walk_local(f_.node))
        for n_ in walk_local(f_.node) if isinstance(n_, ast.Attribute) and isinstance(n_.ctx, ast.Load))]
    producers = {m.entry} | {g for g in chk.cg.reachable([m.entry]) if g.cls is m.writer_cls}
    chk.require(all(s.caller in producers for s in callers) and all(f_ in producers for f_ in bound_takers)
                and len(callers) + len(bound_takers) >= 1, "R01.8", "single-producer-for-the-buffer",
                f"add_bytes is called from {sorted({s.caller.short for s in callers})}", add.where)
    # the final drain follows the loop on every normal path
    complete = [o for o in m.seg_outs if o.kind == "val"]
    ok = bool(complete) and all(o.st.events and [e for e in o.st.events if e[0] in ("vr-out", "drain")][-1][0] == "drain"
                                for o in complete)
    chk.require(ok, "R01.8", "final-drain",
                "the output buffer is not drained after the last record on every normal path out of the record writer",
                f.where)
