"""C08 - a frame's channel descriptors match the layout of its data records.  (structural clauses)

R08.1 = C03 R03.3 (dtype <-> representation code <-> size table agrees with RP66).
R08.2 (effects + value-flow normal form) single source of truth: the CHANNEL's REPRESENTATION-CODE is written only by
      set_from_dtype, called only from the function that also stores the cast dtype; the chunk dtype takes, for every
      field, `known_dtypes.get(<that field's name>, <source dtype>)` decided in the same loop iteration (no value carried
      over from another field / data set); both wrapper construction branches pass the frame's known-dtypes mapping, which
      is recomputed from the channels on every use.
R08.3 (value-flow summaries) setup_from_data (dimension + code from the data, for every channel of the frame) lies on every path between
      wrapper construction and the creation of the frame's record generator.
R08.4 (value-flow normal form, inlined) dimension rule: [1] for 1-D data, shape[1:] otherwise; the row layout uses shape[-1] for 2-D and rejects > 2-D;
      a pre-set DIMENSION that differs raises; a pre-set ELEMENT-LIMIT survives only if it bounds the dimension.
R08.5 (value-flow normal form) record length: FDATA body = OBNAME + UVARI + one piece per slot (field-wise, so no padding bytes of the
      source layout are written); the zero-copy fast path is taken only under exact dtype equality.
R08.6 (shared, = C02 R02.1/2/4/5 + C10 R10.1-3) the transport below the records: segments partition each body in order with
      correct bracketing and padding, the output buffer and the byte writer hand on exactly those bytes.
"""

from __future__ import annotations

import ast

from .. import AnalysisError
from ..cfg import CFG, ENTRY, EXIT, header_expr
from ..common import norm, try_const, is_self_attr, kw
from ..dataflow import ReachingDefs
from ..effects import stores_in
from ..index import Scope, walk_local, walk_expr
from ..report import Check

LEVEL = "other"
EXPLANATION = ("Necessary structural conditions for descriptor/layout agreement: one table, one writer of the code, "
               "per-field dtype selection, set-up from data on every path, the dimension rule and field-wise "
               "serialisation. That numpy's tobytes() yields itemsize x prod(shape) bytes is trusted, not decided.")


def run(chk):
    chk.guard(r08_1, chk)
    chk.guard(r08_2_single_source, chk)
    chk.guard(r08_3_setup_on_every_path, chk)
    chk.guard(r08_4_dimension_rule, chk)
    chk.guard(r08_5_record_layout, chk)
    from ._layout import transport_integrity
    chk.guard(transport_integrity, chk, "R08.6")


def r08_1(chk):
    from . import c03
    n0 = len(chk.obs)
    c03.r03_3_table(chk)
    for o in chk.obs[n0:]:
        o.rule = "R08.1"


def r08_2_single_source(chk):
    from ..terms import (SELF, NONE, A, K, contains, subterms, is_call, call_arg, call_name, pp, alternatives,
                         return_alternatives, attr_stores)
    from ._layout import field_plan
    ix, cg = chk.ix, chk.cg
    ch = ix.get_class("ChannelItem")
    rca = ix.get_class("ReprCodeAttribute")
    sfd = rca.lookup("set_from_dtype")
    scd = ch.lookup("_set_cast_dtype")
    chk.consult(sfd, scd)
    callers = cg.callers_of(sfd)
    chk.require(bool(callers) and all(s.caller is scd for s in callers), "R08.2", "code-set-only-with-cast-dtype",
                f"REPRESENTATION-CODE is set from {[s.caller.short for s in callers]}; it must be set by the function "
                f"that stores the cast dtype, from that dtype", sfd.where)
    ss = chk.terms.inline(scd, 2, stop=lambda g: g is sfd or (g.cls is not None and g.cls.name == "ReprCodeConverter"))
    dt = ("param", scd.param_names[1])
    stored = [e for e in ss.stores("_cast_dtype") if e.base == SELF]
    sets = [c for c in ss.all_calls("set_from_dtype")]
    ok = len(stored) == 1 and stored[0].value == dt and not [l for l in stored[0].pc if not contains(l, dt)] and \
        bool(sets) and all(call_arg(c, 0) in (dt, A(SELF, "_cast_dtype"), A(SELF, "cast_dtype")) for c in sets)
    chk.require(ok, "R08.2", "code-derived-from-stored-cast-dtype", "the code is not derived from the cast dtype just "
                "stored (the dtype given to _set_cast_dtype is stored and handed to set_from_dtype)", scd.where)
    writers = [(f, st) for f in ix.functions.values() for st in stores_in(f)
               if st.attr == "_value" and f.cls is not None and rca in f.cls.mro() and f.name != "__init__"]
    chk.require(all(f is sfd for f, st in writers), "R08.2", "code-value-single-writer",
                f"the code value is written by {[f.short for f, st in writers]}", rca.where)
    # per-field dtype selection in determine_dtypes
    fp = field_plan(chk)
    el = fp.elem
    name_t, loc_t = ("sub", el, K(0)), ("sub", el, K(1))
    chk.floor("field descriptor alternatives in determine_dtypes", len(fp.alts), 2)
    for conds, tup in fp.alts:
        comps = tup[1] if tup[0] == "tuple" else ()
        ok = len(comps) in (2, 3) and comps[0] == name_t
        gets = [x for x in subterms(comps[1]) if is_call(x, "get", 2)] if ok else []
        ok = ok and len(gets) == 1 and gets[0][2][0] == name_t and gets[0][2][1][0] == "attr" and \
            gets[0][2][1][2] == "dtype" and contains(gets[0][2][1][1], ("sub", ("param", fp.func.param_names[0]), loc_t))
        others = [x for x in subterms(comps[1]) if x[0] == "sub" and contains(x[2], lambda y: y[0] == "elem") and
                  x[1] not in (el, ("param", fp.func.param_names[0]))] if len(comps) > 1 else []
        chk.require(ok and not others, "R08.2", "field-dtype-chosen-per-field",
                    f"the dtype of a chunk field is `{pp(comps[1])[:80] if len(comps) > 1 else '?'}`, not (only) "
                    f"`known_dtypes.get(<field name>, <dtype of the data set mapped to that field>)`: two channels mapped "
                    f"on one data set, or a channel with a cast dtype, can be written with another channel's type while "
                    f"their codes differ", fp.func.where)
    from ._layout import frame_data_plan
    plan = frame_data_plan(chk)
    mk = plan.func
    chk.floor("wrapper constructions in _make_multi_frame_data", len(plan.alts), 1)
    frp = ("param", mk.param_names[1])
    for _conds, c, callee, b in plan.alts:
        chk.require(callee is not None and b.get("known_dtypes") == A(frp, "known_channel_dtypes_mapping")
                    and b.get("mapping") == A(frp, "channel_name_mapping"), "R08.2",
                    f"wrapper-gets-frame-mappings:{(call_name(c) or pp(c[1]))[-30:]}",
                    "a data wrapper is built without the frame's channel / cast-dtype mappings", mk.where)
    # the code is (re)derived from the data only while no cast dtype is known: a known one has already sized the chunk
    # field for this write, so changing it now would make the descriptor disagree with the bytes
    sdr = ix.get_method("ChannelItem", "set_dimension_and_repr_code_from_data")
    rs = chk.terms.inline(sdr, 3, stop=lambda g: g is scd or g.kind == "staticmethod" or (
        g.cls is not None and g.cls.name in ("ReprCodeConverter", "ReprCodeAttribute")))
    resets = [e for e in rs.effects if e.kind == "call" and is_call(e.value, scd.name)]
    none_known = [("cmp", "is", A(SELF, "cast_dtype"), NONE), ("cmp", "is", A(SELF, "_cast_dtype"), NONE)]
    chk.require(bool(resets) and all(any(l in none_known for l in e.pc) for e in resets), "R08.2",
                "code-from-data-only-without-cast-dtype",
                f"the cast dtype / representation code is re-derived from the data under "
                f"{[[pp(l)[:50] for l in e.pc] for e in resets][:2]}: not only when no cast dtype is known, although the "
                f"known one has already decided the dtype of the chunk field", sdr.where)
    fr = ix.get_class("FrameItem")
    p = fr.lookup("known_channel_dtypes_mapping")
    ps = chk.summary(p)
    chans = A(SELF, "channels", "value")
    good = False
    for _, t in return_alternatives(ps):
        if t[0] == "comp" and t[1] == "dict" and len(t[3]) == 1 and t[3][0][1] == chans:
            e = [x for x in subterms(t[2][0]) if x[0] == "elem" and x[1] == chans]
            if e:
                e = e[0]
                good = t[2] == (A(e, "name"), A(e, "cast_dtype")) and \
                    t[3][0][2] == (("cmp", "is not", A(e, "cast_dtype"), NONE),)
    chk.require(p.kind == "property" and not any("cache" in d for d in p.decorators) and good, "R08.2",
                "known-dtypes-live", "the cast-dtype mapping is not recomputed from the channels' current cast dtypes "
                "({ch.name: ch.cast_dtype for the channels that have one})", p.where)


def r08_3_setup_on_every_path(chk):
    from ..terms import SELF, A, contains, subterms, is_call, call_arg, call_name, pp, alternatives
    ix = chk.ix
    mk = ix.get_method("LogicalFile", "_make_multi_frame_data")
    ms = chk.summary(mk)
    frp = ("param", mk.param_names[1])
    setups = [(i, e) for i, e in enumerate(ms.effects) if e.kind == "call" and is_call(e.value, "setup_from_data")
              and e.value[1][1] == frp]
    gens = [t for _, t, _ in ms.returns if is_call(t, "MultiFrameData")]
    ok = bool(setups) and bool(gens) and len(gens) == len(ms.returns)
    for t in gens:
        wrapper = call_arg(t, 1, "data")
        ok = ok and call_arg(t, 0, "frame") == frp and any(e.value[2] and e.value[2][0] == wrapper and not e.ctx
                                                           for _, e in setups)
    # nothing but earlier rejections guards the set-up: its path condition is a subset of the return's
    rpcs = [set(pc) for pc, t, _ in ms.returns]
    ok = ok and all(any(set(e.pc) <= r for r in rpcs) for _, e in setups)
    chk.require(ok, "R08.3", "setup-from-data-dominates-generator", "a frame's record generator can be created without "
                "the frame and its channels having been set up from the very data wrapper it reads", mk.where)
    sfd = ix.get_method("FrameItem", "setup_from_data")
    ss = chk.summary(sfd)
    data = ("param", sfd.param_names[1])
    chans = A(SELF, "channels", "value")
    per = [e for e in ss.effects if e.kind == "call" and is_call(e.value, "set_dimension_and_repr_code_from_data")
           and len(e.loops()) == 1 and e.loops()[0][2] == chans and e.value[1][1] == ("elem", chans, e.loops()[0][1])
           and e.value[2] == (data,)]
    ok = bool(per) and all(all(l in (chans, ("not", ("not", chans))) or l == chans for l in e.pc) for e in per)
    chk.require(ok, "R08.3", "every-channel-set-up", "not every channel of the frame gets its dimension and code from the "
                "data", sfd.where)
    sdr = ix.get_method("ChannelItem", "set_dimension_and_repr_code_from_data")
    rs = chk.terms.inline(sdr, 3, stop=lambda g: g.kind == "staticmethod" or (g.cls is not None and g.cls.name in (
        "ReprCodeConverter", "ReprCodeAttribute")))
    own = ("sub", ("param", sdr.param_names[1]), A(SELF, "name"))
    dim_st = [e for e in rs.effects if e.kind == "store_attr" and e.base == A(SELF, "dimension") and e.key == "value"]
    dt_st = [e for e in rs.stores("_cast_dtype") if e.base == SELF]
    ok = bool(dim_st) and bool(dt_st) and all(contains(e.value, own) for e in dim_st + dt_st) and \
        not any(contains(e.value, lambda x: x[0] == "sub" and x[1] == own[1] and x != own) for e in dim_st + dt_st)
    chk.require(ok, "R08.3", "both-descriptors-from-own-data", "a channel's dimension and code are not both derived from "
                "its own data (data[<its name>])", sdr.where)


def r08_4_dimension_rule(chk):
    from ..terms import (SELF, NONE, A, K, contains, subterms, is_call, call_arg, pp, alternatives, return_alternatives,
                         raise_conditions, int_norm)
    from ._layout import field_plan
    ix = chk.ix
    sdr = ix.get_method("ChannelItem", "set_dimension_and_repr_code_from_data")
    chk.consult(sdr)
    rs = chk.terms.inline(sdr, 3, stop=lambda g: g.kind == "staticmethod" or (g.cls is not None and g.cls.name in (
        "ReprCodeConverter", "ReprCodeAttribute")))
    own = ("sub", ("param", sdr.param_names[1]), A(SELF, "name"))
    dim = ("or", (("call", ("global", "list"), (("sub", A(own, "shape"), ("slice", K(1), NONE, NONE)),), ()),
                  ("list", (K(1),))))
    dimv, elv = A(SELF, "dimension", "value"), A(SELF, "element_limit", "value")
    dim_st = [e for e in rs.effects if e.kind == "store_attr" and e.base == A(SELF, "dimension") and e.key == "value"]
    chk.require(bool(dim_st) and all(e.value == dim for e in dim_st), "R08.4", "dimension=[1]-or-shape[1:]",
                f"the dimension taken from the data is `{[pp(e.value)[:60] for e in dim_st]}`, not [1] for 1-D data and "
                f"shape[1:] otherwise", sdr.where)
    rc = raise_conditions(rs)
    conflict = [pc for pc, _ in rc if ("cmp", "!=", dimv, dim) in pc and dimv in pc]
    chk.require(bool(conflict), "R08.4", "conflicting-preset-dimension-raises",
                "a pre-set DIMENSION that differs from the data is accepted", sdr.where)
    bound = [pc for pc, _ in rc if elv in pc and any(
        l[0] == "not" and is_call(l[1], "_compare_element_limit_vs_dimension") and l[1][2] == (elv, dim) for l in pc)]
    chk.require(bool(bound), "R08.4", "element-limit-must-bound-dimension",
                "a pre-set ELEMENT-LIMIT is not checked against the dimension", sdr.where)
    cmpf = ix.get_method("ChannelItem", "_compare_element_limit_vs_dimension")
    cs = chk.summary(cmpf)
    el_p, dim_p = (("param", n) for n in cmpf.param_names[-2:])

    def ln(x):
        return ("call", ("global", "len"), (x,), ())
    alts = [(tuple(int_norm(l) for l in c), t) for c, t in return_alternatives(cs)]
    shorter = [c for c, t in alts if t == K(False) and ("cmp", "<", ln(el_p), ln(dim_p)) in c]
    comp_ok = False
    for c, t in alts:
        # the original loop: `return False` under el[i] < dim[i] for i in range(len(dim))
        if t == K(False) and any(l[0] == "cmp" and l[1] == "<" and l[2][0] == "sub" and l[2][1] == el_p and
                                 l[3][0] == "sub" and l[3][1] == dim_p and l[2][2] == l[3][2] for l in c):
            comp_ok = True
        # not any(limit < size for limit, size in zip(el, dim))  /  all(limit >= size ...)
        for neg_, fn, op in ((True, "any", "<"), (False, "all", ">=")):
            body = t[1] if (neg_ and t[0] == "not") else (t if not neg_ else None)
            if body is not None and is_call(body, fn, 1) and body[2][0][0] == "comp":
                comp = body[2][0]
                it = comp[3][0][1]
                if is_call(it, "zip", 2) and it[2] == (el_p, dim_p) and comp[2][0] == "cmp" and comp[2][1] == op and \
                        comp[2][2] == ("sub", ("elem", it, comp[2][2][1][2] if comp[2][2][0] == "sub" else None), K(0)) \
                        and comp[2][3][0] == "sub" and comp[2][3][2] == K(1):
                    comp_ok = True
    chk.require(bool(shorter) and comp_ok, "R08.4", "element-limit-comparison",
                "the element limit comparison is not component-wise >= with at least as many entries", cmpf.where)
    fp = field_plan(chk)
    row0 = None
    ok = True
    three = [(c, t) for c, t in fp.alts if t[0] == "tuple" and len(t[1]) == 3]
    two = [(c, t) for c, t in fp.alts if t[0] == "tuple" and len(t[1]) == 2]
    ok = bool(three) and bool(two)
    def at_least_2(c, nd):
        c = [int_norm(l) for l in c]
        return ("cmp", ">=", nd, K(2)) in c or ("cmp", "==", nd, K(2)) in c

    def at_most_1(c, nd):
        c = [int_norm(l) for l in c]
        return ("cmp", "<=", nd, K(1)) in c or ("cmp", "==", nd, K(1)) in c or \
            (("cmp", "<=", nd, K(2)) in c and ("cmp", "!=", nd, K(2)) in c)
    for c, t in three:
        w = t[1][2]
        good = w[0] == "sub" and w[2] == K(-1) and w[1][0] == "attr" and w[1][2] == "shape"
        row0 = w[1][1] if good else row0
        ok = ok and good and at_least_2(c, A(row0, "ndim"))
    if row0 is not None:
        ok = ok and all(at_most_1(c, A(row0, "ndim")) for c, t in two)
        ok = ok and any(any(int_norm(l) == ("cmp", ">=", A(row0, "ndim"), K(3)) for l in pc) for pc, _, _ in fp.raises)
    chk.require(ok and row0 is not None, "R08.4", "row-layout-2d-width-and-3d-rejected",
                "the chunk layout does not use shape[-1] for 2-D data (and only then) and reject more than two dimensions",
                fp.func.where)


def r08_5_record_layout(chk):
    from ..terms import SELF, A, contains, is_call, pp, return_alternatives
    from ._layout import row_body
    ix = chk.ix
    rb = row_body(chk)
    slots = A(SELF, "_slots")
    ok = len(rb.pieces) >= 1 and not rb.tail and all(
        p[0] == slots and p[1] is not None and is_call(p[2], "tobytes") and contains(p[2], p[1]) for p in rb.pieces)
    chk.require(ok, "R08.5", "field-wise-serialisation",
                "the row is not serialised slot by slot (serialising the whole structured row would also write the "
                "padding / hidden bytes of a non-packed source layout)", rb.func.where)
    ndw = ix.get_class("NumpyDataWrapper")
    lc = ndw.lookup("load_chunk")
    ls = chk.summary(lc)
    ds = A(SELF, "_data_source")
    eqs = (("cmp", "==", A(SELF, "_dtype"), A(ds, "dtype")), ("cmp", "==", A(ds, "dtype"), A(SELF, "_dtype")))
    fast = [(c, t) for c, t in return_alternatives(ls) if t[0] == "sub" and t[1] == ds]
    ok = bool(fast) and all(len(c) == 1 and c[0] in eqs for c, t in fast)
    chk.require(ok, "R08.5", "zero-copy-only-for-identical-dtype",
                f"the structured-array fast path is taken under `{[pp(l) for c, t in fast for l in c]}`; only exact "
                f"dtype equality guarantees identical field offsets, item size and byte order", lc.where)
