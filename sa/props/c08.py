"""C08 - a frame's channel descriptors match the layout of its data records.  (structural clauses)

R08.1 = C03 R03.3 (dtype <-> representation code <-> size table agrees with RP66).
R08.2 (effects + reaching definitions) single source of truth: the CHANNEL's REPRESENTATION-CODE is written only by
      set_from_dtype, called only from the function that also stores the cast dtype; the chunk dtype takes, for every
      field, `known_dtypes.get(<that field's name>, <source dtype>)` decided in the same loop iteration (no value carried
      over from another field / data set); both wrapper construction branches pass the frame's known-dtypes mapping, which
      is recomputed from the channels on every use.
R08.3 (CFG) setup_from_data (dimension + code from the data, for every channel of the frame) lies on every path between
      wrapper construction and the creation of the frame's record generator.
R08.4 (AST) dimension rule: [1] for 1-D data, shape[1:] otherwise; the row layout uses shape[-1] for 2-D and rejects > 2-D;
      a pre-set DIMENSION that differs raises; a pre-set ELEMENT-LIMIT survives only if it bounds the dimension.
R08.5 (AST) record length: FDATA body = OBNAME + UVARI + one piece per slot (field-wise, so no padding bytes of the
      source layout are written); the zero-copy fast path is taken only under exact dtype equality.
"""

from __future__ import annotations

import ast

from .. import AnalysisError
from ..cfg import CFG, ENTRY, EXIT, header_expr
from ..common import norm, try_const, is_self_attr, kw
from ..dataflow import ReachingDefs
from ..effects import stores_in
from ..index import Scope, walk_local, walk_expr
from ..report import Check

LEVEL = "other"
EXPLANATION = ("Necessary structural conditions for descriptor/layout agreement: one table, one writer of the code, "
               "per-field dtype selection, set-up from data on every path, the dimension rule and field-wise "
               "serialisation. That numpy's tobytes() yields itemsize x prod(shape) bytes is trusted, not decided.")


def run(chk):
    chk.guard(r08_1, chk)
    chk.guard(r08_2_single_source, chk)
    chk.guard(r08_3_setup_on_every_path, chk)
    chk.guard(r08_4_dimension_rule, chk)
    chk.guard(r08_5_record_layout, chk)


def r08_1(chk):
    from . import c03
    n0 = len(chk.obs)
    c03.r03_3_table(chk)
    for o in chk.obs[n0:]:
        o.rule = "R08.1"


def r08_2_single_source(chk):
    ix, cg = chk.ix, chk.cg
    ch = ix.get_class("ChannelItem")
    rca = ix.get_class("ReprCodeAttribute")
    sfd = rca.lookup("set_from_dtype")
    scd = ch.lookup("_set_cast_dtype")
    chk.consult(sfd, scd)
    callers = cg.callers_of(sfd)
    chk.require(bool(callers) and all(s.caller is scd for s in callers), "R08.2", "code-set-only-with-cast-dtype",
                f"REPRESENTATION-CODE is set from {[s.caller.short for s in callers]}; it must be set by the function "
                f"that stores the cast dtype, from that dtype", sfd.where)
    s = norm(scd.node)
    chk.require("self._cast_dtype = dt" in s and "self.representation_code.set_from_dtype(self.cast_dtype)" in s, "R08.2",
                "code-derived-from-stored-cast-dtype", "the code is not derived from the cast dtype just stored", scd.where)
    writers = [(f, st) for f in ix.functions.values() for st in stores_in(f)
               if st.attr == "_value" and f.cls is not None and rca in f.cls.mro() and f.name != "__init__"]
    chk.require(all(f is sfd for f, st in writers), "R08.2", "code-value-single-writer",
                f"the code value is written by {[f.short for f, st in writers]}", rca.where)
    # per-field dtype selection in determine_dtypes
    dd = ix.get_method("SourceDataWrapper", "determine_dtypes")
    chk.consult(dd)
    rd = ReachingDefs(dd)
    loops = [n for n in walk_local(dd.node) if isinstance(n, ast.For)]
    if len(loops) != 1:
        raise AnalysisError("determine_dtypes: expected one loop over the mapping")
    loop = loops[0]
    tnames = [n.id for n in ast.walk(loop.target) if isinstance(n, ast.Name)]
    apps = [n for n in walk_local(dd.node) if isinstance(n, ast.Call) and isinstance(n.func, ast.Attribute)
            and n.func.attr == "append" and norm(n.func.value) == "dtypes"]
    for a in apps:
        at = rd.stmt_containing(a)
        flows = rd.expand(a.args[0], at)
        per_field = [fl for fl in flows if f"known_dtypes.get({tnames[0]}" in fl.replace(" ", "")]
        carried = [fl for fl in flows if "[" in fl and any(f"[{t}]" in fl.replace(" ", "") for t in tnames)
                   and "data_object[" not in fl and "mapping[" not in fl]
        chk.require(bool(per_field) and not carried, "R08.2", "field-dtype-chosen-per-field",
                    f"the dtype of a chunk field is not (only) `known_dtypes.get(<field name>, <source dtype>)` of the "
                    f"same loop iteration (carried over: {carried[:1]}): two channels mapped on one data set, or a channel "
                    f"with a cast dtype, can be written with another channel's type while their codes differ",
                    f"{dd.module.relpath}:{a.lineno}")
    mk = ix.get_method("LogicalFile", "_make_multi_frame_data")
    calls = [n for n in walk_local(mk.node) if isinstance(n, ast.Call) and kw(n, "known_dtypes") is not None]
    chk.floor("wrapper constructions in _make_multi_frame_data", len(calls), 2)
    for c in calls:
        chk.require(norm(kw(c, "known_dtypes")) == "fr.known_channel_dtypes_mapping"
                    and norm(kw(c, "mapping")) == "fr.channel_name_mapping", "R08.2",
                    f"wrapper-gets-frame-mappings:{norm(c.func)[-30:]}",
                    "a data wrapper is built without the frame's channel / cast-dtype mappings", f"{mk.module.relpath}:{c.lineno}")
    fr = ix.get_class("FrameItem")
    p = fr.lookup("known_channel_dtypes_mapping")
    chk.require(p.kind == "property" and not any("cached" in d for d in p.decorators)
                and "ch.cast_dtype for ch in self.channels.value if ch.cast_dtype is not None" in norm(p.node), "R08.2",
                "known-dtypes-live", "the cast-dtype mapping is not recomputed from the channels' current cast dtypes",
                p.where)


def r08_3_setup_on_every_path(chk):
    ix = chk.ix
    mk = ix.get_method("LogicalFile", "_make_multi_frame_data")
    chk.consult(mk)
    g = CFG(mk.node)
    sc = Scope(ix, mk)
    sfd = ix.get_method("FrameItem", "setup_from_data")
    mfd = ix.get_class("MultiFrameData")
    sn = g.nodes_where(lambda s: any(isinstance(c, ast.Call) and sfd in ix.resolve_call(c, sc)[0]
                                     for c in walk_expr(header_expr(s) or ast.Pass())))
    cn = g.nodes_where(lambda s: any(isinstance(c, ast.Call) and ix.infer(c.func, sc) == ("cls", mfd)
                                     for c in walk_expr(header_expr(s) or ast.Pass())))
    chk.require(bool(sn) and bool(cn) and all(g.dominated_by(c, sn) for c in cn), "R08.3",
                "setup-from-data-dominates-generator", "a frame's record generator can be created without the frame "
                "and its channels having been set up from the data", mk.where)
    s = norm(sfd.node)
    chk.require("for channel in self.channels.value" in s and "channel.set_dimension_and_repr_code_from_data(data)" in s,
                "R08.3", "every-channel-set-up", "not every channel of the frame gets its dimension and code from the data",
                sfd.where)
    sdr = ix.get_method("ChannelItem", "set_dimension_and_repr_code_from_data")
    s = norm(sdr.node)
    chk.require("data[self.name]" in s and "_set_dimension_from_data" in s and "_set_repr_code_from_data" in s, "R08.3",
                "both-descriptors-from-own-data", "a channel's dimension and code are not both derived from its own data",
                sdr.where)


def r08_4_dimension_rule(chk):
    ix = chk.ix
    f = ix.get_method("ChannelItem", "_set_dimension_from_data")
    chk.consult(f)
    s = norm(f.node)
    chk.require("dim = list(sub_data.shape[1:]) or [1]" in s, "R08.4", "dimension=[1]-or-shape[1:]",
                "the dimension is not [1] for 1-D data and shape[1:] otherwise", f.where)
    chk.require("if self.dimension.value != dim" in s and "raise RuntimeError" in s, "R08.4",
                "conflicting-preset-dimension-raises", "a pre-set DIMENSION that differs from the data is accepted", f.where)
    chk.require("_compare_element_limit_vs_dimension(self.element_limit.value, dim)" in s, "R08.4",
                "element-limit-must-bound-dimension", "a pre-set ELEMENT-LIMIT is not checked against the dimension",
                f.where)
    cmpf = ix.get_method("ChannelItem", "_compare_element_limit_vs_dimension")
    s = norm(cmpf.node)
    chk.require("if len(el) < len(dim)" in s and "if el[i] < dim[i]" in s, "R08.4", "element-limit-comparison",
                "the element limit comparison is not component-wise >= with at least as many entries", cmpf.where)
    dd = ix.get_method("SourceDataWrapper", "determine_dtypes")
    s = norm(dd.node)
    chk.require("if dset_row0.ndim > 2" in s and "raise RuntimeError" in s and "dset_row0.shape[-1]" in s, "R08.4",
                "row-layout-2d-width-and-3d-rejected", "the chunk layout does not use shape[-1] for 2-D data and reject "
                "more than two dimensions", dd.where)


def r08_5_record_layout(chk):
    ix = chk.ix
    body = ix.get_method("FrameData", "_make_body_bytes")
    chk.consult(body)
    loops = [n for n in walk_local(body.node) if isinstance(n, ast.For) and norm(n.iter) == "self._slots"]
    ok = len(loops) == 1 and len(loops[0].body) == 1 and isinstance(loops[0].body[0], ast.AugAssign) \
        and "tobytes()" in norm(loops[0].body[0])
    chk.require(ok, "R08.5", "field-wise-serialisation",
                "the row is not serialised slot by slot (serialising the whole structured row would also write the "
                "padding / hidden bytes of a non-packed source layout)", body.where)
    ndw = ix.get_class("NumpyDataWrapper")
    lc = ndw.lookup("load_chunk")
    chk.consult(lc)
    g = CFG(lc.node)
    fast = [i for i in g.branch if any(isinstance(x, ast.Return) and "_data_source" in norm(x)
                                       for b in g.stmt[i].body for x in ast.walk(b))]
    ok = len(fast) == 1 and norm(g.stmt[fast[0]].test).replace(" ", "") in ("self._dtype==self._data_source.dtype",
                                                                           "self._data_source.dtype==self._dtype")
    chk.require(ok, "R08.5", "zero-copy-only-for-identical-dtype",
                f"the structured-array fast path is taken under `{norm(g.stmt[fast[0]].test) if fast else '?'}`; only exact "
                f"dtype equality guarantees identical field offsets, item size and byte order", lc.where)
