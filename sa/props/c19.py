"""C19 - writing never alters the caller's data.

R19.1 (taint) no in-place operation (item / slice store, augmented assignment, sort/fill/resize/..., in-place byte swap,
      numpy functions with copy=False / out=, attribute rewrites) is applied to a value that may alias memory owned by
      the caller: arrays passed to add_channel / write / the wrappers, values of the data dictionary, views and rows
      derived from them (slices, fields, iteration, the structured-array fast path), through parameters, returns,
      generators and instance fields.
R19.2 (taint) the caller's `data` dict is never mutated (the merged dictionary is a new object).
R19.3 the HDF5 file is opened read-only.
A positive control (sa/selftest_data/c19_positive.py, never imported) must make the taint engine fire on every run, since
the expected number of findings on the real tree is zero.
"""

from __future__ import annotations

import ast
import os

from .. import AnalysisError, VERIF
from ..dataflow import Taint
from ..common import norm, try_const
from ..index import Index, Scope, walk_local
from ..callgraph import CallGraph

LEVEL = "proof"
EXPLANATION = ("May-alias taint analysis over the whole package: every expression that can refer to caller-owned memory "
               "(sources enumerated below, propagated through assignments, views, iteration, parameters, returns, "
               "generators and instance fields; copies enumerated as sanitizers) is checked against the enumerated set "
               "of in-place operations; zero sinks reached means the write path cannot modify the caller's arrays or "
               "dict. Trusted: numpy/h5py read operations do not write; the view/copy classification of the numpy "
               "methods listed in sa/dataflow.py.")
TRUSTED = ["numpy documentation: which operations return views / copies (sa/dataflow.py tables)", "h5py mode 'r'"]


def sources(ix):
    sp = {}

    def add(cls, meth, names):
        f = ix.get_method(cls, meth) if cls else ix.get_function(meth)
        sp.setdefault(f, set()).update(names)
    add("DLISFile", "write", {"data"})
    add("DLISFile", "generate_logical_records", {"data"})
    add("LogicalFile", "add_channel", {"data"})
    add("LogicalFile", "_make_multi_frame_data", {"data"})
    add("SourceDataWrapper", "__init__", {"data_source"})
    add("SourceDataWrapper", "determine_dtypes", {"data_object"})
    add("SourceDataWrapper", "make_wrapper", {"source"})
    add("NumpyDataWrapper", "__init__", {"arr"})
    add("DictDataWrapper", "__init__", {"data_dict"})
    fields = {("SourceDataWrapper", "_data_source")}
    # the logical file's own dictionary of inline arrays: the dict is the library's, the arrays in it are the caller's
    value_fields = {("LogicalFile", "_data_dict")}
    return sp, fields, value_fields


def run(chk):
    chk.trusted = TRUSTED
    ix, cg = chk.ix, chk.cg
    sp, fields, value_fields = sources(ix)
    t = Taint(ix, cg, sp, fields, value_fields)
    chk.info["tainted_fields"] = sorted(f"{c}.{f}" for c, f in t.fields)
    chk.info["functions_returning_caller_data"] = sorted(f.short for f in t.returns)
    chk.info["tainted_variables"] = len(t.vars)
    chk.floor("tainted variables", len(t.vars), 15)
    # the rows handed to FrameData must be known to alias caller data (fast path) - otherwise the engine is blind
    # (by role, not by field name: some field of FrameData and some field of MultiFrameData must be tainted)
    need = {"FrameData", "MultiFrameData"}
    missing = need - {c for c, f in t.fields}
    if missing:
        raise AnalysisError(f"taint does not reach any field of {sorted(missing)}: propagation through the chunk "
                            f"generator is broken")
    sinks = t.sinks()
    for f, n, desc in sinks:
        chk.fail("R19.1" if "dict" not in desc else "R19.2", f"sink:{f.short}:{norm(n)[:60]}",
                 f"{desc}  (the value may alias the caller's data)", f"{f.module.relpath}:{n.lineno}")
    # enumerate what was examined
    n_ops = 0
    for f in t.funcs:
        for n in walk_local(f.node):
            if isinstance(n, (ast.AugAssign,)) or (isinstance(n, ast.Assign) and any(isinstance(x, ast.Subscript)
                                                                                      for x in n.targets)):
                n_ops += 1
                chk.ok("R19.1", f"store:{f.short}:{norm(n)[:50]}", "target does not alias caller data",
                       f"{f.module.relpath}:{n.lineno}", nontrivial=False)
            if isinstance(n, ast.Call) and isinstance(n.func, ast.Attribute) and n.func.attr == "byteswap":
                n_ops += 1
                chk.ok("R19.1", f"byteswap:{f.short}:{norm(n)[:50]}", "copying form", f"{f.module.relpath}:{n.lineno}")
    chk.floor("in-place-capable operations examined", n_ops, 10)
    if not sinks:
        chk.ok("R19.1", "no-sink-reached", f"{len(t.vars)} tainted variables, {len(t.fields)} tainted fields, 0 sinks", "")
    # R19.2: the merged dict is a new object
    from ..terms import is_call, call_arg
    from .c11 import _merge_parts
    from ._layout import frame_data_plan
    plan = frame_data_plan(chk)
    mk = plan.func
    ddw = ix.get_class("DictDataWrapper")
    ctor = [(c, callee, b) for _, c, callee, b in plan.alts if callee is not None and callee.name == "__init__"
            and callee.cls is not None and (callee.cls is ddw or ddw in callee.cls.mro())]
    ok = bool(ctor) and all(b.get(callee.param_names[1]) is not None and
                            len(_merge_parts(b[callee.param_names[1]])) >= 2 for c, callee, b in ctor)
    chk.require(ok, "R19.2", "merged-dict-is-new",
                "the dict handed to the wrapper can be the caller's own dict object (later stores into it would change "
                "the caller's dict)", mk.where)
    # R19.3
    h5 = ix.get_method("HDF5DataWrapper", "__init__")
    opens = [n for n in walk_local(h5.node) if isinstance(n, ast.Call) and norm(n.func).endswith("h5py.File")]
    ok = bool(opens) and all(len(o.args) > 1 and try_const(o.args[1]) == "r" or
                             any(k.arg == "mode" and try_const(k.value) == "r" for k in o.keywords) for o in opens)
    chk.require(ok, "R19.3", "hdf5-read-only", "the HDF5 source file is not opened with mode 'r'", h5.where)
    # positive control
    ctl = os.path.join(VERIF, "sa", "selftest_data", "c19_positive")
    pix = Index(os.path.join(ctl, "dliswriter"))
    pcg = CallGraph(pix)
    pf = pix.get_function("write_rows")
    pt = Taint(pix, pcg, {pf: {"data"}}, set())
    if len(pt.sinks()) < 4:
        raise AnalysisError(f"positive control: the taint engine found only {len(pt.sinks())} of the planted sinks")
    chk.ok("R19.1", "positive-control-fires", f"{len(pt.sinks())} planted sinks found in the control module", "")
