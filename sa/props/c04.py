"""C04 - every explicitly formatted record decodes under the RP66 component grammar.

R04.1 (BytesAI, exhaustive over abstract value shapes) on every path through Attribute.get_as_bytes the descriptor byte
      is 001 L C R U V and bit k is set iff the corresponding field is appended, in the order label < count < code <
      units < values; same for the hand-written FILE-HEADER components, the set, object and absent-attribute components.
R04.2 count announced = values written, for value shapes {scalar, [], [x], [x,y], nested} x multivalued x units x code
      {explicit, inferred, none}; a single-valued attribute never holds a list (its converter rejects lists).
R04.3 (tables) per item class: labels non-empty and pairwise distinct; all attribute declarations are unconditional
      straight-line statements before super().__init__ (every object of a set has the template's attributes in the
      template's order); the template is produced from an item of the same set.
R04.4 (tables) representation codes used in declarations and defaults are defined by the standard and valid for their
      attribute class.
R04.5 an EFLR set without objects produces an empty body (=> no record; the segmenter yields nothing for S = 0).
R04.7 (shared, = C02 R02.1/2/4/5 + C10 R10.1-3) the transport below the records: segments partition each body in order with
      correct bracketing and padding, the output buffer and the byte writer hand on exactly those bytes.
"""

from __future__ import annotations

import ast
import itertools

from .. import AnalysisError
from ..absint import (Interp, State, SeqV, IntV, BoolV, ObjV, OpaqueV, StubV, NoneV, NONE, TupleV, EnumV, Out, TRUE,
                      FALSE, ListV, DictV)
from ..linarith import LinExpr, le, lt, ge, gt, eq, entails
from ..common import item_list_field, Model, norm, try_const, kw
from ..index import Scope, walk_local
from .. import rp66_ref as ref

LEVEL = "proof"
EXPLANATION = ("The component writers are interpreted abstractly for every combination of value shape, multiplicity, "
               "units and representation-code source (a finite case split that covers shapes no fixture contains, e.g. "
               "the empty list); on each path the descriptor bits are compared with the fields actually appended and "
               "the announced count with the number of encoded values. Template facts come from the exhaustive "
               "attribute declaration table (172 rows). Not decided here: the values' own encodings (C06).")
TRUSTED = ["sa/absint.py", "RP66 V1 section 3.2.2 (component descriptor: role and format bits)",
           "summaries of the primitive emitters (UVARI / IDENT / value), verified separately by C06"]


def W(st):
    from ..segmodel import SegmentModel
    return SegmentModel.witness(st.cons)


def _mk_interp(ix, code_mode):
    it = Interp(ix)
    uv = ix.get_function("write_struct_uvari")
    ident = ix.find_function("write_struct_ident")
    asc = ix.get_function("write_struct_ascii")
    ws = ix.get_function("write_struct")

    def piece(tag):
        def summ(interp, args, kwargs, s, node):
            n = s.new_sym(tag + "_len")
            s.add(ge(n, 1))
            a = args[-1]
            info = a.e if isinstance(a, IntV) else (a.const if isinstance(a, SeqV) and a.const is not None else
                                                   (a.tag if hasattr(a, "tag") else repr(a)))
            code = args[0] if tag == "value" and len(args) == 2 else None
            return interp.val(s, SeqV("bytes", n, [(tag, n, (info, repr(code) if code is not None else None))]))
        return summ
    it.summaries[uv.qualname] = piece("uvari")
    if ident is not None:
        it.summaries[ident.qualname] = piece("ident")
    it.summaries[asc.qualname] = piece("ascii")
    it.summaries[ws.qualname] = piece("value")
    attr = ix.get_class("Attribute")
    inf = attr.lookup("inferred_representation_code")
    rc_cls = ix.get_class("RepresentationCode")

    def inferred(interp, args, kwargs, s, node):
        if code_mode == "inferred":
            return interp.val(s, EnumV(rc_cls, "FDOUBL"))
        return interp.val(s, NONE)
    if inf is not None:
        it.summaries[inf.qualname] = inferred
    return it


def _shapes(st, multivalued, multidim):
    """Abstract value shapes: (name, value, expected number of flattened values)."""
    x = lambda t: StubV("scalar", attrs={}, methods={})  # noqa: E731
    if not multivalued:
        return [("scalar", StubV("scalar"), 1)]
    out = [("list0", st.new_list([]), 0), ("list1", st.new_list([StubV("scalar")]), 1),
           ("list2", st.new_list([StubV("scalar"), StubV("scalar")]), 2),
           ("list3", st.new_list([StubV("scalar") for _ in range(3)]), 3)]
    if multidim:
        out.append(("nested", st.new_list([st.new_list([StubV("scalar")]),
                                           st.new_list([StubV("scalar"), StubV("scalar")])]), 3))
        out.append(("nested3", st.new_list([st.new_list([st.new_list([StubV("scalar"), StubV("scalar")]),
                                                         st.new_list([StubV("scalar"), StubV("scalar")])]),
                                            st.new_list([st.new_list([StubV("scalar"), StubV("scalar")]),
                                                         st.new_list([StubV("scalar"), StubV("scalar")])])]), 8))
    return out


def run(chk):
    chk.trusted = TRUSTED
    chk.guard(r04_1_2_attribute, chk)
    chk.guard(r04_1_other_components, chk)
    chk.guard(r04_3_4_tables, chk)
    chk.guard(r04_6_emitters, chk)
    chk.guard(r04_8_one_field_per_attribute, chk)
    from ._layout import transport_integrity
    chk.guard(transport_integrity, chk, "R04.7")


# ---------------------------------------------------------------------------------------------------- R04.1 / R04.2
def r04_1_2_attribute(chk):
    ix = chk.ix
    attr = ix.get_class("Attribute")
    gab = attr.lookup("get_as_bytes")
    chk.consult(gab, attr.lookup("_write_for_body"), attr.lookup("_write_values"), attr.lookup("count"))
    rc_cls = ix.get_class("RepresentationCode")
    n_shapes = 0
    for multivalued, multidim, units, code_mode in itertools.product((False, True), (False, True), (False, True),
                                                                      ("explicit", "inferred", "none")):
        if multidim and not multivalued:
            continue
        it = _mk_interp(ix, code_mode)
        st0 = State()
        for name, value, nvals in _shapes(st0, multivalued, multidim):
            st = st0.clone()
            fields = {
                "_label": SeqV("str", 5, [("const", LinExpr.c(5), "LABEL")], const="LABEL"),
                "_multivalued": TRUE if multivalued else FALSE, "_multidimensional": TRUE if multidim else FALSE,
                "_representation_code": EnumV(rc_cls, "USHORT") if code_mode == "explicit" else NONE,
                "_units": SeqV("str", 1, [("const", LinExpr.c(1), "m")], const="m") if units else NONE,
                "_value": value, "_converter": NONE, "parent_eflr": NONE,
            }
            obj = st.new_obj(attr, tag="attribute", fields=fields)
            outs = it.call_function(gab, [obj], {}, st, gab.node)
            shape = f"{'multi' if multivalued else 'single'}{'+dim' if multidim else ''}/{name}/" \
                    f"{'units' if units else 'nounits'}/code-{code_mode}"
            n_shapes += 1
            for k, o in enumerate(outs):
                if o.kind != "val":
                    # inferred code failing etc. is a raise: acceptable (fail-closed), not a grammar error
                    continue
                _check_attribute_component(chk, o, shape, nvals, multivalued, gab)
        for q in it.consulted:
            chk.consulted_functions.add(q)
    chk.floor("attribute shapes interpreted", n_shapes, 40)
    # template form
    it = _mk_interp(ix, "none")
    for label in ("LABEL", ""):
        st = State()
        obj = st.new_obj(attr, tag="attribute", fields={
            "_label": SeqV("str", len(label), [("const", LinExpr.c(len(label)), label)] if label else [], const=label),
            "_multivalued": FALSE, "_multidimensional": FALSE, "_representation_code": NONE, "_units": NONE,
            "_value": NONE, "_converter": NONE, "parent_eflr": NONE})
        outs = it.call_function(gab, [obj], {"for_template": TRUE}, st, gab.node)
        for k, o in enumerate(o for o in outs if o.kind == "val"):
            ps = o.value.pieces
            d = _descriptor(ps)
            exp_bits = "10000" if label else "00000"
            good = d is not None and d >> 5 == ref.ROLE_ATTRIB and format(d & 0x1F, "05b") == exp_bits \
                and [p[0] for p in ps[1:]] == (["ident"] if label else [])
            chk.require(good, "R04.1", f"template-component:label={label!r}:path{k}",
                        f"template attribute component: descriptor {d:#04x} with fields {[p[0] for p in ps[1:]]}"
                        if d is not None else "no descriptor byte", gab.where)
    # a single-valued attribute never holds a list: convert_value rejects it
    cv = attr.lookup("convert_value")
    chk.consult(cv)
    it = _mk_interp(ix, "none")
    st = State()
    obj = st.new_obj(attr, tag="attribute", fields={"_multivalued": FALSE, "_multidimensional": FALSE,
                                                    "_converter": NONE})
    outs = it.call_function(cv, [obj, st.new_list([StubV("scalar"), StubV("scalar")])], {}, st, cv.node)
    accepted = [o for o in outs if o.kind == "val"]
    chk.require(not accepted, "R04.2", "single-valued-rejects-lists",
                "a list can be stored as the value of a single-valued attribute (count 1 announced, several values "
                "written)", cv.where)
    st = State()
    obj = st.new_obj(attr, tag="attribute", fields={"_multivalued": FALSE, "_multidimensional": FALSE,
                                                    "_converter": NONE})
    outs = it.call_function(cv, [obj, StubV("scalar")], {}, st, cv.node)
    chk.require(any(o.kind == "val" and isinstance(o.value, StubV) for o in outs), "R04.2",
                "single-valued-accepts-scalars", "a scalar is not accepted by a single-valued attribute", cv.where)
    # the value setter stores the converter's result
    vs = attr.methods.get("value.setter")
    ok = False
    if vs is not None:
        from ..terms import SELF as _SELF, is_call as _is_call, call_recv as _call_recv
        vsum = chk.summary(vs)
        newv = ("param", vs.param_names[1]) if len(vs.param_names) > 1 else None
        sts = [e for e in vsum.effects if e.kind == "store_attr" and e.base == _SELF]
        # every store the setter makes into the attribute is the converter's result for the value given
        ok = bool(sts) and all(_is_call(e.value, cv.name) and _call_recv(e.value) == _SELF and
                               e.value[2][:1] == (newv,) for e in sts)
    chk.require(ok, "R04.2", "value-setter-goes-through-converter",
                "Attribute.value can be assigned without passing through convert_value", attr.where)


def _descriptor(ps):
    if not ps or ps[0][0] != "pack:>B":
        return None
    a = ps[0][2][0]
    if not (isinstance(a, LinExpr) and a.is_const()):
        return None
    return int(a.const)


def _check_attribute_component(chk, o, shape, nvals, multivalued, gab):
    v = o.value
    ps = v.pieces if isinstance(v, SeqV) else []
    d = _descriptor(ps)
    where = gab.where
    if d is None:
        chk.fail("R04.1", f"descriptor:{shape}", "attribute component does not start with a constant descriptor byte",
                 where)
        return
    role = d >> 5
    bits = {n: bool(d & (1 << (4 - i))) for i, n in enumerate(ref.ATTR_BITS)}
    kinds = [p[0] for p in ps[1:]]
    # expected field sequence from the bits
    exp = []
    if bits["L"]:
        exp.append("ident")
    if bits["C"]:
        exp.append("uvari")
    if bits["R"]:
        exp.append("pack:>B")
    if bits["U"]:
        exp.append("ident")
    n_values = sum(1 for k in kinds if k == "value")
    got_wo_values = [k for k in kinds if k != "value"]
    order_ok = kinds == got_wo_values + ["value"] * n_values
    chk.require(role == ref.ROLE_ATTRIB and got_wo_values == exp and order_ok and (bits["V"] == (n_values > 0 or
                (bits["C"] and nvals == 0))), "R04.1", f"bits<=>fields:{shape}",
                f"descriptor {d:#010b} announces {exp + (['value..'] if bits['V'] else [])} but the component carries "
                f"{kinds}", where)
    # count
    count_piece = [p for p in ps[1:] if p[0] == "uvari"]
    announced = 1
    if bits["C"] and count_piece:
        c = count_piece[0][2][0]
        announced = int(c.const) if isinstance(c, LinExpr) and c.is_const() else None
    if bits["V"] or n_values:
        chk.require(announced == n_values, "R04.2", f"count==values:{shape}",
                    f"the component announces {announced} value(s) "
                    f"({'explicit count' if bits['C'] else 'default count 1'}) but {n_values} are encoded", where)
    chk.require(n_values == nvals, "R04.2", f"all-values-written:{shape}",
                f"{nvals} values are held but {n_values} are encoded", where, nontrivial=False)
    # a value can only be decoded if its code is known: R bit or (template default = none here) => code required
    if n_values:
        codes = {p[2][1] for p in ps[1:] if p[0] == "value"}
        chk.require(bits["R"] or codes == {"None"}, "R04.1", f"code-present-with-values:{shape}",
                    "values are written with a representation code that is not announced in the component", where,
                    nontrivial=False)


# ---------------------------------------------------------------------------------------------------- other components
def r04_1_other_components(chk):
    ix = chk.ix
    it = _mk_interp(ix, "none")
    eset = ix.get_class("EFLRSet")
    item_cls = ix.get_class("EFLRItem")
    attr = ix.get_class("Attribute")
    # set component
    mk = eset.lookup("_make_set_component_bytes")
    mbb0 = eset.lookup("_make_body_bytes")
    if mk is not None:
        chk.consult(mk)
    for named in (True, False):
        st = State()
        L = LinExpr.sym("len_set_name")
        st.add(ge(L, 1))
        flds = {"set_name": SeqV("str", L, [("param", L, "set_name")]) if named else NONE,
                "_set_type_struct": SeqV("bytes", LinExpr.sym("len_type"), [("ident", None, ("set_type", None))])}
        if mk is not None:
            obj = st.new_obj(eset, tag="set", fields=flds)
            outs = [o for o in it.call_function(mk, [obj], {}, st, mk.node) if o.kind == "val"]
        else:
            # the set component is built inside _make_body_bytes: interpret that, with the template and the object
            # writers summarised, and take what precedes the template
            itb = _mk_interp(ix, "none")
            tpl0 = eset.lookup("_make_template_bytes")
            mib0 = item_cls.lookup("make_item_body_bytes")
            itb.summaries[tpl0.qualname] = lambda interp, args, kwargs, s, node: interp.val(
                s, SeqV("bytes", 5, [("template", None, None)]))
            itb.summaries[mib0.qualname] = lambda interp, args, kwargs, s, node: interp.val(
                s, SeqV("bytes", 7, [("object", None, None)]))
            flds[item_list_field(ix)] = st.new_list([st.new_obj(item_cls, tag="item0")])
            obj = st.new_obj(eset, tag="set", fields=flds)
            outs = []
            for o in itb.call_function(mbb0, [obj], {}, st, mbb0.node):
                if o.kind == "val" and isinstance(o.value, SeqV):
                    idx = next((i for i, p_ in enumerate(o.value.pieces) if p_[0] == "template"), None)
                    if idx is None:
                        raise AnalysisError("EFLRSet._make_body_bytes: no template piece in the set body")
                    o.value = SeqV("bytes", LinExpr.sym("len_comp"), list(o.value.pieces[:idx]))
                    outs.append(o)
        where_mk = (mk or mbb0)
        for k, o in enumerate(outs):
            ps = o.value.pieces
            first = ps[0][2] if ps and ps[0][0] == "const" else None
            kinds = [p[0] for p in ps[1:]]
            exp_d, exp_k = (ref.SET_DESCRIPTOR_TYPE_NAME, ["ident", "ident"]) if named else \
                (ref.SET_DESCRIPTOR_TYPE, ["ident"])
            chk.require(first == bytes([exp_d]) and kinds == exp_k, "R04.1",
                        f"set-component:{'named' if named else 'unnamed'}:path{k}",
                        f"set component is {first!r} + {kinds}; expected {bytes([exp_d])!r} + {exp_k}", where_mk.where)
    # object component + absent attributes
    mib = item_cls.lookup("make_item_body_bytes")
    mab = item_cls.lookup("_make_attrs_bytes")
    attrs_prop = item_cls.lookup("attributes")
    obname = item_cls.lookup("obname")
    chk.consult(mib, mab)
    rc_cls = ix.get_class("RepresentationCode")
    st = State()
    a1 = st.new_obj(attr, tag="attr-set", fields={
        "_label": SeqV("str", 1, [], const="A"), "_multivalued": FALSE, "_multidimensional": FALSE,
        "_representation_code": EnumV(rc_cls, "USHORT"), "_units": NONE, "_value": StubV("scalar"),
        "_converter": NONE, "parent_eflr": NONE})
    a2 = st.new_obj(attr, tag="attr-unset", fields={
        "_label": SeqV("str", 1, [], const="B"), "_multivalued": FALSE, "_multidimensional": FALSE,
        "_representation_code": NONE, "_units": NONE, "_value": NONE, "_converter": NONE, "parent_eflr": NONE})
    item = st.new_obj(item_cls, tag="item")
    it.summaries[attrs_prop.qualname] = lambda interp, args, kwargs, s, node: interp.val(
        s, s.new_dict({"a": a1, "b": a2}))
    it.summaries[obname.qualname] = lambda interp, args, kwargs, s, node: interp.val(
        s, SeqV("bytes", LinExpr.sym("len_obname"), [("obname", None, "item")]))
    rcd = item_cls.lookup("_run_checks_and_set_defaults")
    outs = [o for o in it.call_function(mib, [item], {}, st, mib.node) if o.kind == "val"]
    chk.require(bool(outs), "R04.1", "object-component-path", "object body builder has no normal path", mib.where)
    for k, o in enumerate(outs):
        ps = o.value.pieces
        first = ps[0][2] if ps and ps[0][0] == "const" else None
        good = first == bytes([ref.OBJECT_DESCRIPTOR_NAME]) and len(ps) >= 2 and ps[1][0] == "obname"
        chk.require(good, "R04.1", f"object-component:path{k}",
                    f"object component is {first!r} + {[p[0] for p in ps[1:2]]}; expected b'p' + OBNAME", mib.where)
        rest = ps[2:]
        # attribute 1 present (descriptor + code + value), attribute 2 absent (single 0x00 byte)
        absent = [p for p in rest if p[0] == "const" and p[2] == bytes([ref.ABSENT_ATTRIBUTE])]
        chk.require(len(absent) == 1 and rest and rest[-1] is absent[0], "R04.1", f"unset-attribute-is-absent:path{k}",
                    "an attribute without value is not written as the absent-attribute component 0x00 in its "
                    "template position", mab.where)
        chk.require(any(p[0] == "value" for p in rest), "R04.1", f"set-attribute-is-written:path{k}",
                    "an attribute with a value is not written", mab.where)
    # set body: empty set -> b'' ; otherwise set component, template of the first item, then every item in order
    mbb = eset.lookup("_make_body_bytes")
    tpl = eset.lookup("_make_template_bytes")
    chk.consult(mbb, tpl)
    it2 = _mk_interp(ix, "none")
    if mk is not None:
        it2.summaries[mk.qualname] = lambda interp, args, kwargs, s, node: interp.val(
            s, SeqV("bytes", 3, [("set-component", None, None)]))
    it2.summaries[tpl.qualname] = lambda interp, args, kwargs, s, node: interp.val(
        s, SeqV("bytes", 5, [("template", None, None)]))
    it2.summaries[mib.qualname] = lambda interp, args, kwargs, s, node: interp.val(
        s, SeqV("bytes", 7, [("object", None, args[0].tag)]))
    for n_items in (0, 1, 3):
        st = State()
        items = [st.new_obj(item_cls, tag=f"item{i}") for i in range(n_items)]
        sobj = st.new_obj(eset, tag="set", fields={
            item_list_field(ix): st.new_list(items), "set_name": NONE,
            "_set_type_struct": SeqV("bytes", LinExpr.sym("len_type"), [("ident", None, ("set_type", None))])})
        outs = [o for o in it2.call_function(mbb, [sobj], {}, st, mbb.node) if o.kind == "val"]
        for k, o in enumerate(outs):
            ps = o.value.pieces if isinstance(o.value, SeqV) else None
            if mk is None and ps is not None and n_items:
                # the pieces of the inlined set component count as one
                idx = next((i for i, p_ in enumerate(ps) if p_[0] == "template"), 0)
                ps = [("set-component", None, None)] + list(ps[idx:])
            if n_items == 0:
                chk.require(isinstance(o.value, SeqV) and entails(o.st.cons, eq(o.value.length, 0)), "R04.5",
                            f"empty-set-empty-body:path{k}", "a set without objects produces a non-empty record body",
                            mbb.where)
            else:
                exp = ["set-component", "template"] + ["object"] * n_items
                tags = [p[2] for p in ps if p[0] == "object"]
                chk.require([p[0] for p in ps] == exp and tags == [f"item{i}" for i in range(n_items)], "R04.1",
                            f"set-body-order:{n_items}-items:path{k}",
                            f"set body is {[p[0] for p in ps]} with objects {tags}; expected {exp} in creation order",
                            mbb.where)
    # template comes from an item of the same set, in template form
    it3 = _mk_interp(ix, "none")
    gab = attr.lookup("get_as_bytes")
    calls = []

    def gab_summary(interp, args, kwargs, s, node):
        ft = kwargs.get("for_template", args[1] if len(args) > 1 else FALSE)
        calls.append((args[0].tag, ft))
        return interp.val(s, SeqV("bytes", 2, [("attr-template", None, args[0].tag)]))
    it3.summaries[gab.qualname] = gab_summary
    st = State()
    b1 = st.new_obj(attr, tag="x1")
    b2 = st.new_obj(attr, tag="x2")
    i0 = st.new_obj(item_cls, tag="item0")
    i1 = st.new_obj(item_cls, tag="item1")
    it3.summaries[attrs_prop.qualname] = lambda interp, args, kwargs, s, node: interp.val(
        s, s.new_dict({"a": b1, "b": b2}) if args[0].tag == "item0" else s.new_dict({}))
    sobj = st.new_obj(eset, tag="set", fields={item_list_field(ix): st.new_list([i0, i1]), "set_name": NONE})
    outs = [o for o in it3.call_function(tpl, [sobj], {}, st, tpl.node) if o.kind == "val"]
    ok = bool(outs) and all([p[2] for p in o.value.pieces] == ["x1", "x2"] for o in outs) \
        and calls and all(isinstance(ft, BoolV) and ft.f == ("t",) for _, ft in calls)
    chk.require(ok, "R04.3", "template-from-first-item-in-template-form",
                "the template is not built from the first item's attributes, in their order, in template form",
                tpl.where)
    # FILE-HEADER hand-written components
    fhs = ix.get_class("FileHeaderSet")
    fhi = ix.get_class("FileHeaderItem")
    t2 = fhs.lookup("_make_template_bytes")
    a2f = fhi.lookup("_make_attrs_bytes")
    chk.consult(t2, a2f)
    it4 = _mk_interp(ix, "none")
    st = State()
    sobj = st.new_obj(fhs, tag="fh-set")
    outs = [o for o in it4.call_function(t2, [sobj], {}, st, t2.node) if o.kind == "val"]
    for k, o in enumerate(outs):
        ps = o.value.pieces
        triples = [ps[i:i + 3] for i in range(0, len(ps), 3)]
        good = len(ps) == 6
        labels = []
        for t in triples:
            d = _descriptor(t)
            good = good and d == 0b00110100 and t[1][0] == "ident" and t[2][0] == "pack:>B" \
                and int(t[2][2][0].const) == 20
            labels.append(t[1][2][0] if len(t) > 1 else None)
        chk.require(good and labels == ["SEQUENCE-NUMBER", "ID"], "R04.1", f"file-header-template:path{k}",
                    f"FILE-HEADER template is not two (label + code ASCII) components SEQUENCE-NUMBER, ID "
                    f"(found {labels})", t2.where)
    st = State()
    Lh = LinExpr.sym("len_header_id")
    st.add(ge(Lh, 0))
    # the item is built through its own constructor, so that the bounds it enforces (id <= 65 characters, number
    # 1..10^10-1) are the ones the fixed-width writer can rely on
    iobj = st.new_obj(fhi, tag="fh-item")
    base_init = item_cls.lookup("__init__")
    it4.summaries[base_init.qualname] = lambda interp, args, kwargs, s, node: interp.val(s, NONE)
    finit = fhi.lookup("__init__")
    chk.consult(finit)
    seqno = LinExpr.sym("sequence_number")
    inits = [o for o in it4.call_function(finit, [iobj], {
        "header_id": SeqV("str", Lh, [("param", Lh, "header_id")]), "parent": st.new_obj(fhs, tag="fh-set"),
        "sequence_number": IntV(seqno), "identifier": SeqV("str", 1, [("const", LinExpr.c(1), "0")], const="0")},
        st, finit.node) if o.kind == "val"]
    if not inits:
        raise AnalysisError("FileHeaderItem.__init__ has no normal path")
    outs = []
    raised = []
    for o0 in inits:
        for o in it4.call_function(a2f, [iobj], {}, o0.st, a2f.node):
            (outs if o.kind == "val" else raised).append(o)
    for o in raised:
        if o.kind == "raise" and o.exc != "UnicodeEncodeError":
            chk.fail("R04.1", f"file-header-values-raise:{o.exc}",
                     f"a FILE-HEADER accepted by its constructor cannot be written ({o.exc} at {o.where[0]})", o.where[0],
                     witness=W(o.st))
    chk.require(bool(outs), "R04.1", "file-header-values-path", "FILE-HEADER value writer has no normal path", a2f.where)
    for k, o in enumerate(outs):
        ps = o.value.pieces
        # [desc 0x21][len 10][10 chars ...][desc 0x21][len 65][65 chars ...]
        idx = [i for i, p in enumerate(ps) if p[0] == "pack:>B" and _descriptor([p]) == 0b00100001]
        good = len(idx) == 2 and idx[0] == 0
        if good:
            g1 = ps[1:idx[1]]
            g2 = ps[idx[1] + 1:]
            for grp, width, what, just in ((g1, 10, "sequence_number", "right"), (g2, 65, "header_id", "left")):
                ln = grp[0]
                body = grp[1:]
                tot = LinExpr.c(0)
                for p in body:
                    tot = tot + p[1]
                vals = [p for p in body if p[0] != "repeat"]
                pads = [i for i, p in enumerate(body) if p[0] == "repeat"]
                pos_ok = (not pads) or (just == "right" and pads == [0]) or (just == "left" and pads == [len(body) - 1])
                good = good and ln[0] == "pack:>B" and int(ln[2][0].const) == width \
                    and entails(o.st.cons, eq(tot, width)) and len(vals) == 1 \
                    and (vals[0][2] == what or (vals[0][0] == "str-of" and what in str(vals[0][2]))
                         or (what == "sequence_number" and vals[0][0] == "str-of")) and pos_ok
        chk.require(good, "R04.1", f"file-header-values:path{k}",
                    "FILE-HEADER object values are not (value-only component, ASCII length 10, number right-justified in "
                    "10) and (value-only component, ASCII length 65, id left-justified in 65)", a2f.where)
    for i_ in (it, it2, it3, it4):
        for q in i_.consulted:
            chk.consulted_functions.add(q)


# ---------------------------------------------------------------------------------------------------- R04.3 / R04.4
def r04_3_4_tables(chk):
    ix = chk.ix
    model = Model(ix)
    chk.floor("item classes", len(model.item_classes), 21)
    chk.floor("attribute declarations", len(model.decls), 160)
    it = Interp(ix)
    for ic in sorted(model.item_classes, key=lambda c: c.name):
        ds = model.decls_of(ic)
        if ic.name == "FileHeaderItem":
            continue
        labels = [d.rp66_label() for d in ds]
        dup = sorted({l for l in labels if labels.count(l) > 1})
        chk.require(all(labels) and not dup, "R04.3", f"labels-unique-nonempty:{ic.name}",
                    f"{ic.name}: labels {dup or [l for l in labels if not l]} are duplicated / empty", ic.where)
        cond = [d.key for d in ds if not d.top_level or not d.before_super]
        chk.require(not cond, "R04.3", f"declarations-unconditional:{ic.name}",
                    f"{ic.name}: attributes {cond} are declared conditionally or after super().__init__, so objects "
                    f"of one set can differ from the template", ic.where)
    for d in model.decls:
        rcx = d.kwargs.get("representation_code")
        if rcx is None:
            continue
        name = norm(rcx).split(".")[-1]
        chk.require(name in it.repr_code_values and it.repr_code_values[name] in ref.REPR_CODES, "R04.4",
                    f"code-defined:{d.key}", f"{d.key} uses representation code {name}, not defined by the standard",
                    d.where, nontrivial=False)
        valid = d.attr_cls.lookup_class_attr("_valid_repr_codes")
        if valid is not None and isinstance(valid[0], ast.Tuple):
            names = {norm(e).split(".")[-1] for e in valid[0].elts}
            chk.require(name in names, "R04.4", f"code-valid-for-class:{d.key}",
                        f"{d.key}: code {name} is not among the valid codes of {d.attr_cls.name} ({sorted(names)})",
                        d.where, nontrivial=False)
    for c in model.attr_classes:
        dflt = c.class_assigns.get("_default_repr_code")
        valid = c.lookup_class_attr("_valid_repr_codes")
        if dflt is None or isinstance(dflt, ast.Constant) or valid is None or not isinstance(valid[0], ast.Tuple):
            continue
        dn = norm(dflt).split(".")[-1]
        names = {norm(e).split(".")[-1] for e in valid[0].elts}
        chk.require(dn in names, "R04.4", f"default-code-valid:{c.name}",
                    f"{c.name}: default code {dn} not among its valid codes {sorted(names)}", c.where, nontrivial=False)


# ---------------------------------------------------------------------------------------------------- R04.6
def r04_8_one_field_per_attribute(chk):
    """The template (one label per attribute) and every object (one component per label) are generated from the
    Attribute objects found among the instance's fields: an Attribute reachable under two field names (an alias such as
    `self.type = self._type`) is written twice - the label is duplicated and every object carries two components for one
    attribute.  Decided on the constructors' summaries: no field of an item is assigned the value of another field that
    holds an attribute declaration, and no attribute construction is stored twice."""
    from ..terms import SELF, pp
    ix = chk.ix
    model = Model(ix)
    n = 0
    for ic in sorted(model.item_classes, key=lambda c: c.name):
        init = ic.methods.get("__init__")
        if init is None:
            continue
        fields = {d.field for d in model.decls_of(ic)}
        summ = chk.terms.summary(init)
        seen_values = {}
        for e in summ.effects:
            if e.kind != "store_attr" or e.base != SELF:
                continue
            n += 1
            v = e.value
            alias = v[0] == "attr" and v[1] == SELF and v[2] in fields and v[2] != e.key
            chk.require(not alias, "R04.8", f"attribute-alias:{ic.name}.{e.key}",
                        f"{ic.name}.{e.key} is another name for the attribute object in `{pp(v)}`: that attribute is "
                        f"written twice (duplicate label in the template, two components per object)", e.where,
                        nontrivial=False)
            if e.key in fields and v[0] == "call":
                prev = seen_values.get(v)
                chk.require(prev is None or prev == e.key, "R04.8", f"attribute-stored-twice:{ic.name}.{e.key}",
                            f"the attribute built by `{pp(v)[:60]}` is stored under {prev} and {e.key}", e.where,
                            nontrivial=False)
                seen_values.setdefault(v, e.key)
    chk.floor("instance-field stores in item constructors", n, 100)


def r04_6_emitters(chk):
    """The length prefixes of IDENT / ASCII fields count exactly the bytes that follow (otherwise the rest of the set
    cannot be parsed): the obligations of C06 R06.3, re-stated for the component grammar."""
    from . import c06
    n0 = len(chk.obs)
    c06.r06_3_ident_ascii(chk)
    # ... and the variable-length integers (counts, dimensions, origin / copy numbers, ASCII lengths): a reader decides
    # the width from the two top bits, so each range must be written in exactly its own form (C06 R06.2)
    c06.r06_2_uvari(chk)
    for o in chk.obs[n0:]:
        o.rule = "R04.6"
