"""E1 - program index: modules, classes (C3 MRO), functions, imports, light type inference, call resolution.

Pure `ast`; nothing is imported or executed.  Unknown is always reported as unknown (None / []), never guessed.
"""

from __future__ import annotations

import ast
import os
from typing import Optional, Iterable

from . import AnalysisError, PKG_DIR

PKG = "dliswriter"


# --------------------------------------------------------------------------------------------- data classes

class FuncInfo:
    def __deepcopy__(self, memo):
        return self

    def __init__(self, name, module, node, cls=None, parent=None):
        self.name = name
        self.module: ModuleInfo = module
        self.node = node  # ast.FunctionDef | ast.Lambda
        self.cls: Optional[ClassInfo] = cls
        self.parent: Optional[FuncInfo] = parent
        self.nested: dict[str, FuncInfo] = {}
        self.decorators: list[str] = []
        self.kind = "function"  # function | method | property | setter | staticmethod | classmethod
        if isinstance(node, ast.FunctionDef):
            for d in node.decorator_list:
                self.decorators.append(ast.unparse(d))
            decs = self.decorators
            if cls is not None and parent is None:
                self.kind = "method"
                if "staticmethod" in decs:
                    self.kind = "staticmethod"
                elif "classmethod" in decs:
                    self.kind = "classmethod"
                elif "property" in decs or "cached_property" in decs or "functools.cached_property" in decs:
                    self.kind = "property"
                elif any(d.endswith(".setter") for d in decs):
                    self.kind = "setter"

    @property
    def qualname(self) -> str:
        if self.parent is not None:
            return f"{self.parent.qualname}.<locals>.{self.name}"
        if self.cls is not None:
            suffix = ".setter" if self.kind == "setter" else ""
            return f"{self.module.name}:{self.cls.name}.{self.name}{suffix}"
        return f"{self.module.name}:{self.name}"

    @property
    def short(self) -> str:
        q = self.qualname.split(":", 1)[1]
        return q

    @property
    def where(self) -> str:
        return f"{self.module.relpath}:{getattr(self.node, 'lineno', 0)}"

    @property
    def params(self) -> list[ast.arg]:
        a = self.node.args
        return list(a.posonlyargs) + list(a.args) + list(a.kwonlyargs)

    @property
    def param_names(self) -> list[str]:
        return [p.arg for p in self.params]

    def is_generator(self) -> bool:
        for n in walk_local(self.node):
            if isinstance(n, (ast.Yield, ast.YieldFrom)):
                return True
        return False

    def __repr__(self):
        return f"<Func {self.qualname}>"


class ClassInfo:
    def __deepcopy__(self, memo):
        return self

    def __init__(self, name, module, node):
        self.name = name
        self.module: ModuleInfo = module
        self.node: ast.ClassDef = node
        self.methods: dict[str, FuncInfo] = {}  # 'name', or 'name.setter'
        self.class_assigns: dict[str, ast.expr] = {}
        self.annotations: dict[str, ast.expr] = {}
        self.late_assigns: dict[str, tuple] = {}  # name -> (expr, module) assigned after the class body
        self.bases: list = []  # ClassInfo | str (external dotted)
        self.metaclass = None
        self.nested_classes: dict[str, ClassInfo] = {}
        self._mro = None

    @property
    def qualname(self):
        return f"{self.module.name}:{self.name}"

    @property
    def where(self) -> str:
        return f"{self.module.relpath}:{self.node.lineno}"

    def mro(self) -> list["ClassInfo"]:
        if self._mro is None:
            self._mro = _c3(self)
        return self._mro

    def is_subclass_of(self, other: "ClassInfo") -> bool:
        return other in self.mro()

    def has_external_base(self, dotted_suffix: str) -> bool:
        for c in self.mro():
            for b in c.bases:
                if isinstance(b, str) and (b == dotted_suffix or b.endswith("." + dotted_suffix)):
                    return True
        return False

    def lookup(self, name: str) -> Optional[FuncInfo]:
        for c in self.mro():
            if name in c.methods:
                return c.methods[name]
        return None

    def lookup_class_attr(self, name: str):
        """Return (expr, module, owner class) of a class-level assignment found along the MRO, or None."""
        for c in self.mro():
            if name in c.late_assigns:
                e, m = c.late_assigns[name]
                return e, m, c
            if name in c.class_assigns:
                return c.class_assigns[name], c.module, c
        return None

    def __repr__(self):
        return f"<Class {self.qualname}>"


def _c3(cls: ClassInfo) -> list[ClassInfo]:
    seqs = []
    for b in cls.bases:
        if isinstance(b, ClassInfo):
            seqs.append(list(b.mro()))
    seqs.append([b for b in cls.bases if isinstance(b, ClassInfo)])
    res = [cls]
    seqs = [s for s in seqs if s]
    while seqs:
        for s in seqs:
            cand = s[0]
            if not any(cand in t[1:] for t in seqs):
                break
        else:
            raise AnalysisError(f"inconsistent MRO for {cls.qualname}")
        res.append(cand)
        seqs = [[x for x in s if x is not cand] for s in seqs]
        seqs = [s for s in seqs if s]
    return res


class ModuleInfo:
    def __deepcopy__(self, memo):
        return self

    def __init__(self, name, path, relpath, source, is_package):
        self.name = name
        self.path = path
        self.relpath = relpath
        self.source = source
        self.is_package = is_package
        self.tree = ast.parse(source, filename=path)
        self.imports: dict[str, str] = {}
        self.assigns: dict[str, ast.expr] = {}
        self.annotations: dict[str, ast.expr] = {}
        self.functions: dict[str, FuncInfo] = {}
        self.classes: dict[str, ClassInfo] = {}
        self.lines = source.splitlines()

    def line(self, n: int) -> str:
        return self.lines[n - 1].strip() if 0 < n <= len(self.lines) else ""

    def __repr__(self):
        return f"<Module {self.name}>"


def walk_local(node) -> Iterable[ast.AST]:
    """Walk the body of a function / lambda without descending into nested function, lambda or class bodies."""
    if isinstance(node, ast.Lambda):
        stack = [node.body]
    else:
        stack = list(reversed(node.body)) if hasattr(node, "body") else [node]
    while stack:
        n = stack.pop()
        yield n
        if isinstance(n, (ast.FunctionDef, ast.AsyncFunctionDef, ast.Lambda, ast.ClassDef)):
            continue
        stack.extend(reversed(list(ast.iter_child_nodes(n))))


def walk_expr(node) -> Iterable[ast.AST]:
    """Walk an expression / statement without descending into nested function or class definitions (lambdas too)."""
    stack = [node]
    while stack:
        n = stack.pop()
        yield n
        if n is not node and isinstance(n, (ast.FunctionDef, ast.AsyncFunctionDef, ast.Lambda, ast.ClassDef)):
            continue
        stack.extend(reversed(list(ast.iter_child_nodes(n))))


# --------------------------------------------------------------------------------------------- the index

class Index:
    def __init__(self, pkg_dir: str = None, include_tests: bool = False, _normalise: bool = True):
        self._normalise = _normalise
        self.names_normalised: dict = {}
        self.pkg_dir = pkg_dir or PKG_DIR
        self.modules: dict[str, ModuleInfo] = {}
        self.classes: dict[str, ClassInfo] = {}
        self.functions: dict[str, FuncInfo] = {}
        self._subclasses: dict[ClassInfo, list[ClassInfo]] = {}
        self._field_cache: dict = {}
        self._local_type_cache: dict = {}
        self._in_progress: set = set()
        self.unresolved_calls: list = []
        self.param_bindings: dict = {}  # (FuncInfo, param name) -> type, filled by the call graph (0-CFA on arguments)
        self._load(include_tests)
        self._link()

    # ------------------------------------------------------------------ loading
    def _load(self, include_tests):
        if not os.path.isdir(self.pkg_dir):
            raise AnalysisError(f"package directory {self.pkg_dir} not found")
        src_root = os.path.dirname(self.pkg_dir)
        for dirpath, dirnames, filenames in os.walk(self.pkg_dir):
            dirnames[:] = sorted(d for d in dirnames if d != "__pycache__")
            for fn in sorted(filenames):
                if not fn.endswith(".py"):
                    continue
                path = os.path.join(dirpath, fn)
                rel = os.path.relpath(path, src_root)
                parts = rel[:-3].split(os.sep)
                is_pkg = parts[-1] == "__init__"
                if is_pkg:
                    parts = parts[:-1]
                name = ".".join(parts)
                try:
                    with open(path, encoding="utf-8") as f:
                        src = f.read()
                    mod = ModuleInfo(name, path, os.path.join("src", rel), src, is_pkg)
                except SyntaxError as exc:
                    raise AnalysisError(f"cannot parse {path}: {exc}")
                self.modules[name] = mod
        # `match` statements whose patterns are plain type / value tests are read as the if / elif chains they abbreviate
        from .desugar import desugar
        self.desugared = {n: c for n, c in ((n, desugar(m.tree)) for n, m in self.modules.items()) if c}
        if self._normalise and not os.environ.get("SA_NO_CANON"):
            # E0: consistently renamed private names are read back under their confirmed spelling (sa/canon.py)
            from .canon import normalise
            self.names_normalised = normalise({n: m.tree for n, m in self.modules.items()})
        for mod in self.modules.values():
            self._scan_module(mod)

    def _scan_module(self, mod: ModuleInfo):
        def scan_body(body, in_type_checking=False):
            for st in body:
                if isinstance(st, ast.Import):
                    for a in st.names:
                        if a.asname:
                            mod.imports[a.asname] = a.name
                        else:
                            mod.imports[a.name.split(".")[0]] = a.name.split(".")[0]
                elif isinstance(st, ast.ImportFrom):
                    base = st.module or ""
                    if st.level:
                        pkg_parts = mod.name.split(".")
                        if not mod.is_package:
                            pkg_parts = pkg_parts[:-1]
                        if st.level > 1:
                            pkg_parts = pkg_parts[: -(st.level - 1)]
                        base = ".".join(pkg_parts + ([base] if base else []))
                    for a in st.names:
                        mod.imports[a.asname or a.name] = f"{base}.{a.name}"
                elif isinstance(st, ast.FunctionDef):
                    mod.functions[st.name] = self._make_func(st, mod, None, None)
                elif isinstance(st, ast.ClassDef):
                    mod.classes[st.name] = self._make_class(st, mod)
                elif isinstance(st, ast.Assign):
                    for t in st.targets:
                        if isinstance(t, ast.Name):
                            mod.assigns[t.id] = st.value
                        elif isinstance(t, ast.Attribute) and isinstance(t.value, ast.Name):
                            mod.assigns[f"{t.value.id}.{t.attr}"] = st.value
                elif isinstance(st, ast.AnnAssign) and isinstance(st.target, ast.Name):
                    mod.annotations[st.target.id] = st.annotation
                    if st.value is not None:
                        mod.assigns[st.target.id] = st.value
                elif isinstance(st, ast.If):
                    tc = "TYPE_CHECKING" in ast.unparse(st.test)
                    scan_body(st.body, tc)
                    scan_body(st.orelse, in_type_checking)
                elif isinstance(st, ast.Try):
                    scan_body(st.body)
        scan_body(mod.tree.body)

    def _make_func(self, node, mod, cls, parent) -> FuncInfo:
        fi = FuncInfo(node.name if isinstance(node, ast.FunctionDef) else "<lambda>", mod, node, cls, parent)
        self.functions[fi.qualname] = fi
        n_lambda = 0
        for n in walk_local(node):
            if isinstance(n, ast.FunctionDef):
                fi.nested[n.name] = self._make_func(n, mod, cls, fi)
            elif isinstance(n, ast.Lambda):
                n_lambda += 1
                lf = FuncInfo(f"<lambda{n_lambda}>", mod, n, cls, fi)
                fi.nested[lf.name] = lf
                self.functions[lf.qualname] = lf
        return fi

    def _make_class(self, node: ast.ClassDef, mod, outer: ClassInfo = None) -> ClassInfo:
        ci = ClassInfo(node.name if outer is None else f"{outer.name}.{node.name}", mod, node)
        self.classes[ci.qualname] = ci
        for st in node.body:
            if isinstance(st, ast.FunctionDef):
                fi = self._make_func(st, mod, ci, None)
                key = st.name + (".setter" if fi.kind == "setter" else "")
                ci.methods[key] = fi
            elif isinstance(st, ast.Assign):
                for t in st.targets:
                    if isinstance(t, ast.Name):
                        ci.class_assigns[t.id] = st.value
            elif isinstance(st, ast.AnnAssign) and isinstance(st.target, ast.Name):
                ci.annotations[st.target.id] = st.annotation
                if st.value is not None:
                    ci.class_assigns[st.target.id] = st.value
            elif isinstance(st, ast.ClassDef):
                ci.nested_classes[st.name] = self._make_class(st, mod, ci)
        return ci

    def _link(self):
        for ci in self.classes.values():
            for b in ci.node.bases:
                ent = self.resolve_expr_entity(b, ci.module)
                if ent and ent[0] == "class":
                    ci.bases.append(ent[1])
                elif ent and ent[0] == "external":
                    ci.bases.append(ent[1])
                else:
                    ci.bases.append(ast.unparse(b))
            for kw in ci.node.keywords:
                if kw.arg == "metaclass":
                    ent = self.resolve_expr_entity(kw.value, ci.module)
                    ci.metaclass = ent[1] if ent and ent[0] == "class" else ast.unparse(kw.value)
        for ci in self.classes.values():
            for c in ci.mro()[1:]:
                self._subclasses.setdefault(c, []).append(ci)
        # class-level alias of a module function: `name = staticmethod(function)` makes `name` a static method
        for ci in self.classes.values():
            for name, val in list(ci.class_assigns.items()):
                if isinstance(val, ast.Call) and isinstance(val.func, ast.Name) and val.func.id == "staticmethod" \
                        and len(val.args) == 1 and not val.keywords and name not in ci.methods:
                    try:
                        ent = self.resolve_expr_entity(val.args[0], ci.module)
                    except Exception:  # noqa: BLE001
                        ent = None
                    if ent and ent[0] == "func" and ent[1].cls is None:
                        ci.methods[name] = ent[1]
        # post-class assignments  `ChannelItem.parent_eflr_class = ChannelSet`
        for mod in self.modules.values():
            for key, val in mod.assigns.items():
                if "." in key:
                    cname, attr = key.split(".", 1)
                    ent = self.resolve_name(cname, mod)
                    if ent and ent[0] == "class":
                        ent[1].late_assigns[attr] = (val, mod)

    # ------------------------------------------------------------------ name resolution
    def resolve_dotted(self, dotted: str, _depth=0):
        """Resolve 'pkg.mod.Name.attr' to ('module', M) | ('class', C) | ('func', F) | ('var', M, name, expr) |
        ('external', dotted)."""
        if _depth > 12:
            return ("external", dotted)
        parts = dotted.split(".")
        if parts[0] != PKG:
            return ("external", dotted)
        mod = None
        i = len(parts)
        while i > 0:
            cand = ".".join(parts[:i])
            if cand in self.modules:
                mod = self.modules[cand]
                break
            i -= 1
        if mod is None:
            return ("external", dotted)
        rest = parts[i:]
        ent = ("module", mod)
        for k, attr in enumerate(rest):
            if ent[0] == "module":
                m = ent[1]
                if attr in m.classes:
                    ent = ("class", m.classes[attr])
                elif attr in m.functions:
                    ent = ("func", m.functions[attr])
                elif attr in m.imports:
                    ent = self.resolve_dotted(m.imports[attr], _depth + 1)
                elif attr in m.assigns:
                    ent = ("var", m, attr, m.assigns[attr])
                else:
                    sub = f"{m.name}.{attr}"
                    if sub in self.modules:
                        ent = ("module", self.modules[sub])
                    else:
                        return None
            elif ent[0] == "class":
                c = ent[1]
                if attr in c.nested_classes:
                    ent = ("class", c.nested_classes[attr])
                else:
                    f = c.lookup(attr)
                    if f is not None:
                        ent = ("func", f)
                    else:
                        ca = c.lookup_class_attr(attr)
                        if ca is None:
                            return None
                        ent = ("classvar", c, attr, ca[0], ca[1])
            elif ent[0] == "external":
                return ("external", ent[1] + "." + ".".join(rest[k:]))
            else:
                return None
        return ent

    def resolve_name(self, name: str, mod: ModuleInfo):
        if name in mod.classes:
            return ("class", mod.classes[name])
        if name in mod.functions:
            return ("func", mod.functions[name])
        if name in mod.imports:
            return self.resolve_dotted(mod.imports[name])
        if name in mod.assigns:
            return ("var", mod, name, mod.assigns[name])
        return None

    def resolve_expr_entity(self, expr: ast.expr, mod: ModuleInfo):
        """Resolve a Name / dotted Attribute expression at module scope."""
        if isinstance(expr, ast.Name):
            return self.resolve_name(expr.id, mod)
        if isinstance(expr, ast.Attribute):
            base = self.resolve_expr_entity(expr.value, mod)
            if base is None:
                return None
            if base[0] == "module":
                return self.resolve_dotted(base[1].name + "." + expr.attr)
            if base[0] == "class":
                return self.resolve_dotted(base[1].module.name + "." + base[1].name + "." + expr.attr)
            if base[0] == "external":
                return ("external", base[1] + "." + expr.attr)
            return None
        if isinstance(expr, ast.Constant) and isinstance(expr.value, str):
            try:
                return self.resolve_expr_entity(ast.parse(expr.value, mode="eval").body, mod)
            except SyntaxError:
                return None
        return None

    def subclasses(self, cls: ClassInfo) -> list[ClassInfo]:
        return self._subclasses.get(cls, [])

    def get_class(self, short: str) -> ClassInfo:
        """Find a class by bare name (must be unique) or 'module:Name'."""
        if ":" in short:
            if short not in self.classes:
                raise AnalysisError(f"anchor class {short} not found")
            return self.classes[short]
        cands = [c for c in self.classes.values() if c.name == short]
        if len(cands) != 1:
            raise AnalysisError(f"anchor class {short}: {len(cands)} candidates")
        return cands[0]

    def find_class(self, short: str) -> Optional[ClassInfo]:
        cands = [c for c in self.classes.values() if c.name == short]
        return cands[0] if len(cands) == 1 else None

    def get_method(self, cls_name: str, meth: str) -> FuncInfo:
        c = self.get_class(cls_name)
        f = c.lookup(meth)
        if f is None:
            raise AnalysisError(f"anchor method {cls_name}.{meth} not found")
        return f

    def get_function(self, name: str) -> FuncInfo:
        cands = [f for m in self.modules.values() for n, f in m.functions.items() if n == name]
        if len(cands) != 1:
            raise AnalysisError(f"anchor function {name}: {len(cands)} candidates")
        return cands[0]

    def find_function(self, name: str) -> Optional[FuncInfo]:
        cands = [f for m in self.modules.values() for n, f in m.functions.items() if n == name]
        return cands[0] if len(cands) == 1 else None

    # ------------------------------------------------------------------ types
    # type refs: ('inst', C) ('cls', C) ('ext', dotted) ('list', T) ('dict', K, V) ('tuple', [T..]) ('module', M)
    #            ('func', F) ('extmod', dotted) ('none',) ('union', [T..])

    def ann_to_type(self, ann: ast.expr, mod: ModuleInfo):
        if ann is None:
            return None
        if isinstance(ann, ast.Constant):
            if ann.value is None:
                return ("none",)
            if isinstance(ann.value, str):
                try:
                    return self.ann_to_type(ast.parse(ann.value, mode="eval").body, mod)
                except SyntaxError:
                    return None
            return None
        if isinstance(ann, (ast.Name, ast.Attribute)):
            ent = self.resolve_expr_entity(ann, mod)
            if ent is None:
                if isinstance(ann, ast.Name) and ann.id in ("int", "str", "bytes", "bool", "float", "dict", "list",
                                                            "tuple", "bytearray", "type", "object"):
                    return ("ext", ann.id)
                return None
            if ent[0] == "class":
                return ("inst", ent[1])
            if ent[0] == "external":
                return ("ext", ent[1])
            if ent[0] == "var":  # type alias or TypeVar
                e = ent[3]
                if isinstance(e, ast.Call) and ast.unparse(e.func).endswith("TypeVar"):
                    for kw in e.keywords:
                        if kw.arg == "bound":
                            return self.ann_to_type(kw.value, ent[1])
                    return None
                return self.ann_to_type(e, ent[1])
            return None
        if isinstance(ann, ast.Subscript):
            head = ast.unparse(ann.value).split(".")[-1]
            sl = ann.slice
            elts = list(sl.elts) if isinstance(sl, ast.Tuple) else [sl]
            if head == "Optional":
                return self.ann_to_type(elts[0], mod)
            if head == "Union":
                ts = [self.ann_to_type(e, mod) for e in elts]
                ts = [t for t in ts if t is not None and t != ("none",)]
                if len(ts) == 1:
                    return ts[0]
                return ("union", ts) if ts else None
            if head in ("list", "List", "Sequence", "Iterable", "ListOrTuple", "Iterator"):
                return ("list", self.ann_to_type(elts[0], mod))
            if head in ("Generator",):
                return ("list", self.ann_to_type(elts[0], mod))
            if head in ("dict", "Dict", "defaultdict"):
                if len(elts) == 2:
                    return ("dict", self.ann_to_type(elts[0], mod), self.ann_to_type(elts[1], mod))
                return ("dict", None, None)
            if head in ("tuple", "Tuple"):
                return ("tuple", [self.ann_to_type(e, mod) for e in elts])
            if head in ("type", "Type"):
                t = self.ann_to_type(elts[0], mod)
                if t and t[0] == "inst":
                    return ("cls", t[1])
                return None
            # generic alias such as OptAttrSetupType[...]: look through
            ent = self.resolve_expr_entity(ann.value, mod)
            if ent and ent[0] == "var":
                return None
            return None
        if isinstance(ann, ast.BinOp) and isinstance(ann.op, ast.BitOr):
            l, r = self.ann_to_type(ann.left, mod), self.ann_to_type(ann.right, mod)
            return l if (r is None or r == ("none",)) else (r if (l is None or l == ("none",)) else ("union", [l, r]))
        return None

    def instance_fields(self, cls: ClassInfo) -> dict:
        """name -> list of (expr or None, annotation or None, FuncInfo) for `self.name = expr` in methods of cls."""
        if cls in self._field_cache:
            return self._field_cache[cls]
        fields: dict[str, list] = {}
        for key, f in cls.methods.items():
            if not isinstance(f.node, ast.FunctionDef) or not f.param_names:
                continue
            if f.kind in ("staticmethod",):
                continue
            selfname = f.param_names[0]
            for n in walk_local(f.node):
                tgt = None
                if isinstance(n, ast.Assign):
                    for t in n.targets:
                        if isinstance(t, ast.Attribute) and isinstance(t.value, ast.Name) and t.value.id == selfname:
                            fields.setdefault(t.attr, []).append((n.value, None, f))
                elif isinstance(n, ast.AnnAssign):
                    t = n.target
                    if isinstance(t, ast.Attribute) and isinstance(t.value, ast.Name) and t.value.id == selfname:
                        fields.setdefault(t.attr, []).append((n.value, n.annotation, f))
        self._field_cache[cls] = fields
        return fields

    def field_type(self, cls: ClassInfo, name: str):
        key = ("ft", cls, name)
        if key in self._local_type_cache:
            return self._local_type_cache[key]
        if key in self._in_progress:
            return None
        self._in_progress.add(key)
        res = None
        try:
            for c in cls.mro():
                if name in c.annotations:
                    res = self.ann_to_type(c.annotations[name], c.module)
                    if res is not None:
                        break
                for expr, ann, f in self.instance_fields(c).get(name, []):
                    if ann is not None:
                        res = self.ann_to_type(ann, c.module)
                    if res is None and expr is not None:
                        res = self.infer(expr, Scope(self, f))
                    if res is not None and res != ("none",):
                        break
                if res is not None and res != ("none",):
                    break
                ca = c.class_assigns.get(name)
                if ca is not None:
                    res = self.infer(ca, Scope(self, None, c.module))
                    if res is not None:
                        break
        finally:
            self._in_progress.discard(key)
        self._local_type_cache[key] = res
        return res

    def infer(self, expr: ast.expr, scope: "Scope"):
        """Best-effort static type of an expression; None when unknown."""
        if expr is None:
            return None
        if isinstance(expr, ast.Constant):
            if expr.value is None:
                return ("none",)
            return ("ext", type(expr.value).__name__)
        if isinstance(expr, ast.JoinedStr):
            return ("ext", "str")
        if isinstance(expr, ast.Name):
            return scope.name_type(expr.id)
        if isinstance(expr, ast.Attribute):
            base = self.infer(expr.value, scope)
            return self.attr_type(base, expr.attr)
        if isinstance(expr, ast.Call) and self._is_typing_cast(expr, scope):
            # typing.cast(T, x): the type is T (when it names one), the value is x
            t = self.ann_to_type(expr.args[0], scope.module)
            return t if t is not None else self.infer(expr.args[1], scope)
        if isinstance(expr, ast.Call):
            return self.call_type(expr, scope)
        if isinstance(expr, ast.IfExp):
            a = self.infer(expr.body, scope)
            b = self.infer(expr.orelse, scope)
            if a is None or a == ("none",):
                return b
            return a
        if isinstance(expr, ast.BoolOp):
            for v in expr.values:
                t = self.infer(v, scope)
                if t is not None and t != ("none",):
                    return t
            return None
        if isinstance(expr, ast.NamedExpr):
            return self.infer(expr.value, scope)
        if isinstance(expr, (ast.List, ast.ListComp)):
            if isinstance(expr, ast.List) and expr.elts:
                return ("list", self.infer(expr.elts[0], scope))
            if isinstance(expr, ast.ListComp):
                sub = Scope(self, scope.func, scope.module, parent=scope, comp=expr.generators)
                return ("list", self.infer(expr.elt, sub))
            return ("list", None)
        if isinstance(expr, ast.Tuple):
            return ("tuple", [self.infer(e, scope) for e in expr.elts])
        if isinstance(expr, (ast.Dict, ast.DictComp)):
            return ("dict", None, None)
        if isinstance(expr, ast.Subscript):
            base = self.infer(expr.value, scope)
            if base is None:
                return None
            if base[0] == "list":
                if isinstance(expr.slice, ast.Slice):
                    return base
                return base[1]
            if base[0] == "dict":
                return base[2]
            if base[0] == "tuple" and isinstance(expr.slice, ast.Constant) and isinstance(expr.slice.value, int):
                i = expr.slice.value
                return base[1][i] if -len(base[1]) <= i < len(base[1]) else None
            if base[0] == "inst":
                gi = base[1].lookup("__getitem__")
                if gi is not None and gi.node.returns is not None:
                    return self.ann_to_type(gi.node.returns, gi.module)
                # dict / defaultdict subclasses
                if base[1].has_external_base("defaultdict") or base[1].has_external_base("dict"):
                    return ("dict", None, None)
            return None
        if isinstance(expr, ast.BinOp):
            l = self.infer(expr.left, scope)
            return l if l and l[0] == "ext" else None
        if isinstance(expr, ast.Lambda):
            f = scope.find_lambda(expr)
            return ("func", f) if f else None
        return None

    def _is_typing_cast(self, call: ast.Call, scope) -> bool:
        if len(call.args) != 2 or call.keywords:
            return False
        f = call.func
        if isinstance(f, ast.Name) and f.id == "cast":
            ent = self.resolve_name("cast", scope.module)
            return ent is not None and ent[0] == "external" and ent[1] in ("typing.cast", "typing_extensions.cast")
        if isinstance(f, ast.Attribute) and f.attr == "cast" and isinstance(f.value, ast.Name):
            ent = self.resolve_name(f.value.id, scope.module)
            return ent is not None and ent[0] == "external" and ent[1] in ("typing", "typing_extensions")
        return False

    def attr_type(self, base, attr: str):
        if base is None:
            return None
        k = base[0]
        if k == "union":
            for t in base[1]:
                r = self.attr_type(t, attr)
                if r is not None:
                    return r
            return None
        if k == "inst":
            cls = base[1]
            m = cls.lookup(attr)
            if m is not None:
                if m.kind == "property":
                    if m.node.returns is not None:
                        t = self.ann_to_type(m.node.returns, m.module)
                        if t is not None:
                            return t
                    return self._return_type_from_body(m)
                return ("boundmethod", m, cls)
            ft = self.field_type(cls, attr)
            if ft is not None:
                return ft
            if cls.metaclass and isinstance(cls.metaclass, ClassInfo):
                pass
            if attr == "__class__":
                return ("cls", cls)
            if attr == "__dict__":
                return ("dict", ("ext", "str"), None)
            return None
        if k == "cls":
            cls = base[1]
            m = cls.lookup(attr)
            if m is not None:
                return ("boundmethod", m, cls)
            if attr in cls.nested_classes:
                return ("cls", cls.nested_classes[attr])
            # metaclass properties
            mc = None
            for c in cls.mro():
                if isinstance(c.metaclass, ClassInfo):
                    mc = c.metaclass
                    break
            if mc is not None:
                pm = mc.lookup(attr)
                if pm is not None and pm.kind == "property":
                    return self.ann_to_type(pm.node.returns, pm.module)
            ca = cls.lookup_class_attr(attr)
            if ca is not None:
                return self.infer(ca[0], Scope(self, None, ca[1]))
            for c in cls.mro():
                if attr in c.annotations:
                    return self.ann_to_type(c.annotations[attr], c.module)
            return None
        if k == "module":
            ent = self.resolve_dotted(base[1].name + "." + attr)
            return self.entity_type(ent)
        if k == "extmod":
            return ("extmod", base[1] + "." + attr)
        if k == "ext":
            return ("extattr", base[1], attr)
        if k == "extattr":
            return None
        return None

    def entity_type(self, ent):
        if ent is None:
            return None
        if ent[0] == "class":
            return ("cls", ent[1])
        if ent[0] == "func":
            return ("func", ent[1])
        if ent[0] == "module":
            return ("module", ent[1])
        if ent[0] == "external":
            return ("extmod", ent[1])
        if ent[0] == "var":
            m, name, expr = ent[1], ent[2], ent[3]
            if name in m.annotations:
                t = self.ann_to_type(m.annotations[name], m)
                if t is not None:
                    return t
            return self.infer(expr, Scope(self, None, m))
        if ent[0] == "classvar":
            return self.infer(ent[3], Scope(self, None, ent[4]))
        return None

    def _return_type_from_body(self, f: FuncInfo):
        key = ("ret", f)
        if key in self._local_type_cache:
            return self._local_type_cache[key]
        if key in self._in_progress:
            return None
        self._in_progress.add(key)
        res = None
        try:
            sc = Scope(self, f)
            for n in walk_local(f.node):
                if isinstance(n, ast.Return) and n.value is not None:
                    t = self.infer(n.value, sc)
                    if t is not None and t != ("none",):
                        res = t
                        break
        finally:
            self._in_progress.discard(key)
        self._local_type_cache[key] = res
        return res

    def return_type(self, f: FuncInfo):
        if isinstance(f.node, ast.Lambda):
            return None
        if f.node.returns is not None:
            t = self.ann_to_type(f.node.returns, f.module)
            if t is not None:
                if t[0] == "ext" and t[1].endswith("Self") and f.cls is not None:
                    return ("inst", f.cls)
                if t[0] == "ext" and t[1].split(".")[-1] in ("Callable", "Any"):
                    b = self._return_type_from_body(f)
                    return b if b is not None else t
                return t
        return self._return_type_from_body(f)

    def call_type(self, call: ast.Call, scope: "Scope"):
        fn = call.func
        if isinstance(fn, ast.Name) and fn.id == "super":
            return ("super", scope.func.cls if scope.func else None)
        if isinstance(fn, ast.Name) and fn.id in ("list", "tuple", "sorted", "reversed") and call.args:
            t = self.infer(call.args[0], scope)
            if t and t[0] == "list":
                return t
            return ("list", self._elem_type(t))
        if isinstance(fn, ast.Name) and fn.id in ("len", "int"):
            return ("ext", "int")
        if isinstance(fn, ast.Name) and fn.id in ("str", "repr"):
            return ("ext", "str")
        if isinstance(fn, ast.Name) and fn.id == "open" and scope.name_type("open") is None:
            return ("ext", "io.IOBase")
        if isinstance(fn, ast.Name) and fn.id in ("bytearray", "bytes", "float", "bool", "dict", "set", "range") \
                and scope.name_type(fn.id) is None:
            return ("ext", fn.id)
        if isinstance(fn, ast.Name) and fn.id == "next" and call.args:
            return self._elem_type(self.infer(call.args[0], scope))
        if isinstance(fn, ast.Name) and fn.id == "iter" and call.args:
            return ("list", self._elem_type(self.infer(call.args[0], scope)))
        if isinstance(fn, ast.Name) and fn.id == "getattr" and len(call.args) >= 2 \
                and isinstance(call.args[1], ast.Constant) and isinstance(call.args[1].value, str):
            return self.attr_type(self.infer(call.args[0], scope), call.args[1].value)
        ft = self.infer(fn, scope)
        if ft is None:
            return None
        if ft[0] == "cls":
            return ("inst", ft[1])
        if ft[0] == "func":
            return self.return_type(ft[1])
        if ft[0] == "boundmethod":
            m = ft[1]
            if m.kind == "classmethod" and m.node.returns is None:
                return None
            return self.return_type(m)
        if ft[0] == "extmod":
            return ("ext", ft[1] + "()")
        if ft[0] == "extattr":
            # methods of builtin containers
            if ft[2] in ("values",) :
                return ("list", None)
            return None
        if ft[0] == "dictmeth":
            return ft[1]
        return None

    def _elem_type(self, t):
        if t is None:
            return None
        if t[0] == "list":
            return t[1]
        if t[0] == "dict":
            return t[1]
        if t[0] == "tuple" and t[1]:
            return t[1][0]
        if t[0] == "inst":
            it = t[1].lookup("__iter__")
            nx = t[1].lookup("__next__")
            if nx is not None and nx.node.returns is not None:
                return self.ann_to_type(nx.node.returns, nx.module)
            if it is not None:
                rt = self.return_type(it)
                if rt and rt[0] == "list":
                    return rt[1]
        return None

    # ------------------------------------------------------------------ call / attribute resolution
    def resolve_call(self, call: ast.Call, scope: "Scope"):
        """Return (targets, external, note): targets = list[FuncInfo] the call may dispatch to (class-hierarchy
        analysis for methods), external = dotted name for a call outside the package, note = reason if unresolved."""
        fn = call.func
        # builtins
        if isinstance(fn, ast.Name) and scope.name_type(fn.id) is None and fn.id in BUILTINS:
            return [], "builtins." + fn.id, None
        if isinstance(fn, ast.Name):
            t = scope.name_type(fn.id)
        elif isinstance(fn, ast.Attribute):
            base = self.infer(fn.value, scope)
            if base is not None and base[0] == "super":
                cls = base[1]
                if cls is None:
                    return [], None, "super() outside class"
                ctx = scope.func.cls if scope.func else cls
                mro = ctx.mro()
                for c in mro[1:]:
                    if fn.attr in c.methods:
                        return [c.methods[fn.attr]], None, None
                return [], "object." + fn.attr, None
            if base is not None and base[0] == "inst":
                cls = base[1]
                m = cls.lookup(fn.attr)
                if m is not None and m.kind not in ("property",):
                    targets = [m]
                    for sub in self.subclasses(cls):
                        sm = sub.methods.get(fn.attr)
                        if sm is not None and sm not in targets:
                            targets.append(sm)
                    return targets, None, None
                if m is None:
                    ft = self.field_type(cls, fn.attr)
                    if ft is not None and ft[0] == "func":
                        return [ft[1]], None, None
                    if ft is not None and ft[0] == "boundmethod":
                        return [ft[1]], None, None
                    # container / external base class methods
                    for c in cls.mro():
                        for b in c.bases:
                            if isinstance(b, str):
                                return [], f"{b}.{fn.attr}", None
                    if ft is not None:
                        return [], None, f"call of field {cls.name}.{fn.attr} of type {ft[0]}"
                    return [], None, f"no method {fn.attr} on {cls.name}"
            t = self.attr_type(base, fn.attr) if base is not None else None
            if t is None and base is not None and base[0] in ("ext", "extattr", "list", "dict", "tuple"):
                return [], f"<{base[0]}:{base[1] if base[0] == 'ext' else ''}>.{fn.attr}", None
            if t is None and base is None:
                return [], None, f"receiver of .{fn.attr} untyped: {ast.unparse(fn.value)[:60]}"
        else:
            t = self.infer(fn, scope)
        if t is None:
            return [], None, f"callee untyped: {ast.unparse(fn)[:60]}"
        if t[0] == "union":
            targets = []
            for alt in t[1]:
                if alt[0] == "cls":
                    for nm in ("__new__", "__init__"):
                        x = alt[1].lookup(nm)
                        if x is not None and x not in targets:
                            targets.append(x)
                elif alt[0] in ("func", "boundmethod") and alt[1] not in targets:
                    targets.append(alt[1])
            if targets:
                return targets, None, None
            return [], None, f"callee of kind union: {ast.unparse(fn)[:60]}"
        if t[0] == "func":
            return [t[1]], None, None
        if t[0] == "boundmethod":
            m = t[1]
            targets = [m]
            if t[2] is not None and m.kind in ("method", "classmethod"):
                for sub in self.subclasses(t[2]):
                    sm = sub.methods.get(m.name)
                    if sm is not None and sm not in targets:
                        targets.append(sm)
            return targets, None, None
        if t[0] == "cls":
            init = t[1].lookup("__init__")
            new = t[1].lookup("__new__")
            targets = [x for x in (new, init) if x is not None]
            if not (isinstance(fn, (ast.Name, ast.Attribute)) and self._is_class_literal(fn, scope)):
                # class held in a variable: any subclass may be constructed
                for sub in self.subclasses(t[1]):
                    for nm in ("__new__", "__init__"):
                        x = sub.lookup(nm)
                        if x is not None and x not in targets:
                            targets.append(x)
            if not targets:
                return [], f"{t[1].name}()", None
            return targets, None, None
        if t[0] == "extmod":
            return [], t[1], None
        if t[0] == "extattr":
            return [], f"<{t[1]}>.{t[2]}", None
        return [], None, f"callee of kind {t[0]}: {ast.unparse(fn)[:60]}"

    def _is_class_literal(self, fn, scope) -> bool:
        """True if the callee expression names a class directly (not a variable / parameter holding a class)."""
        if isinstance(fn, ast.Name):
            f = scope.func
            while f is not None:
                if fn.id in f.param_names:
                    return False
                for n in walk_local(f.node):
                    if isinstance(n, ast.Name) and n.id == fn.id and isinstance(n.ctx, ast.Store):
                        return False
                f = f.parent
            ent = self.resolve_name(fn.id, scope.module) if scope.module else None
            return bool(ent and ent[0] == "class")
        if isinstance(fn, ast.Attribute):
            ent = self.resolve_expr_entity(fn, scope.module) if scope.module else None
            return bool(ent and ent[0] == "class")
        return False

    def resolve_property_load(self, node: ast.Attribute, scope: "Scope") -> list[FuncInfo]:
        """If `node` (an attribute load) reads a property of a package class, return the getter(s)."""
        base = self.infer(node.value, scope)
        return self._property_of(base, node.attr, "property")

    def resolve_property_store(self, node: ast.Attribute, scope: "Scope") -> list[FuncInfo]:
        base = self.infer(node.value, scope)
        return self._property_of(base, node.attr, "setter")

    def _property_of(self, base, attr, kind) -> list[FuncInfo]:
        if base is None:
            return []
        if base[0] == "union":
            out = []
            for t in base[1]:
                out += self._property_of(t, attr, kind)
            return out
        if base[0] == "inst":
            key = attr + (".setter" if kind == "setter" else "")
            out = []
            m = base[1].lookup(key)
            if m is not None and m.kind == kind:
                out.append(m)
            for sub in self.subclasses(base[1]):
                sm = sub.methods.get(key)
                if sm is not None and sm.kind == kind and sm not in out:
                    out.append(sm)
            return out
        if base[0] == "cls":
            for c in base[1].mro():
                if isinstance(c.metaclass, ClassInfo):
                    pm = c.metaclass.lookup(attr)
                    if pm is not None and pm.kind == kind:
                        return [pm]
        return []


BUILTINS = {
    "len", "isinstance", "issubclass", "int", "str", "float", "bool", "bytes", "bytearray", "list", "tuple", "dict",
    "set", "min", "max", "sum", "map", "filter", "range", "enumerate", "zip", "sorted", "reversed", "any", "all",
    "getattr", "setattr", "hasattr", "callable", "repr", "type", "iter", "next", "divmod", "round", "abs", "open",
    "print", "id", "hash", "super", "format", "frozenset", "slice", "object", "vars", "ord", "chr",
    "ValueError", "TypeError", "RuntimeError", "KeyError", "AttributeError", "NotImplementedError", "StopIteration",
    "Exception", "IndexError", "OSError",
}


class Scope:
    """Name -> type lookup inside a function (with closure parents), a comprehension, or at module level."""

    def __init__(self, index: Index, func: Optional[FuncInfo], module: ModuleInfo = None, parent: "Scope" = None,
                 comp=None):
        self.index = index
        self.func = func
        self.module = module or (func.module if func else None)
        self.parent = parent
        self.comp = comp
        self._cache: dict = {}

    def find_lambda(self, node: ast.Lambda) -> Optional[FuncInfo]:
        f = self.func
        while f is not None:
            for nf in f.nested.values():
                if nf.node is node:
                    return nf
            f = f.parent
        return None

    def name_type(self, name: str):
        if name in self._cache:
            return self._cache[name]
        key = ("nt", id(self.func), id(self.comp), name)
        if key in self.index._in_progress:
            return None
        self.index._in_progress.add(key)
        try:
            t = self._name_type(name)
        finally:
            self.index._in_progress.discard(key)
        self._cache[name] = t
        return t

    def _name_type(self, name: str):
        ix = self.index
        if self.comp is not None:
            for gen in self.comp:
                if _binds(gen.target, name):
                    it = ix.infer(gen.iter, self.parent or Scope(ix, self.func, self.module))
                    return _destructure(gen.target, name, ix._elem_type(it), ix)
            if self.parent is not None:
                return self.parent.name_type(name)
        f = self.func
        if f is not None:
            node = f.node
            params = f.params
            pnames = [p.arg for p in params]
            if name in pnames:
                p = params[pnames.index(name)]
                if f.cls is not None and f.parent is None and pnames.index(name) == 0 \
                        and f.kind in ("method", "property", "setter"):
                    return ("inst", f.cls)
                if f.cls is not None and f.parent is None and pnames.index(name) == 0 and f.kind == "classmethod":
                    return ("cls", f.cls)
                if p.annotation is not None:
                    t = ix.ann_to_type(p.annotation, f.module)
                    if t is not None:
                        return t
                return ix.param_bindings.get((f, name))
            if isinstance(node, ast.FunctionDef):
                if node.args.vararg and node.args.vararg.arg == name:
                    return ("list", None)
                if node.args.kwarg and node.args.kwarg.arg == name:
                    return ("dict", ("ext", "str"), None)
                if name in f.nested:
                    return ("func", f.nested[name])
                here = Scope(ix, f, self.module) if self.comp is not None else self
                for n in walk_local(node):
                    t = None
                    if isinstance(n, ast.Assign):
                        for tg in n.targets:
                            if isinstance(tg, ast.Name) and tg.id == name:
                                t = ix.infer(n.value, here)
                            elif isinstance(tg, ast.Tuple) and _binds(tg, name):
                                t = _destructure(tg, name, ix.infer(n.value, here), ix)
                    elif isinstance(n, ast.AnnAssign) and isinstance(n.target, ast.Name) and n.target.id == name:
                        t = ix.ann_to_type(n.annotation, f.module)
                        if t is None and n.value is not None:
                            t = ix.infer(n.value, here)
                    elif isinstance(n, ast.NamedExpr) and n.target.id == name:
                        t = ix.infer(n.value, here)
                    elif isinstance(n, ast.For) and _binds(n.target, name):
                        t = _destructure(n.target, name, ix._elem_type(_iter_type(ix, n.iter, here)), ix)
                    elif isinstance(n, ast.With):
                        for item in n.items:
                            if item.optional_vars is not None and _binds(item.optional_vars, name):
                                t = ix.infer(item.context_expr, here)
                    if t is not None and t != ("none",):
                        return t
            if f.parent is not None:
                return Scope(ix, f.parent).name_type(name)
        if self.module is not None:
            ent = ix.resolve_name(name, self.module)
            if ent is not None:
                return ix.entity_type(ent)
        return None


def _iter_type(ix: Index, it: ast.expr, scope: Scope):
    """Type of the iterable in `for x in it`, normalised so that _elem_type gives the loop variable's type."""
    # enumerate(x) -> list of (int, elem)
    if isinstance(it, ast.Call) and isinstance(it.func, ast.Name) and it.func.id == "enumerate" and it.args:
        inner = ix._elem_type(_iter_type(ix, it.args[0], scope))
        return ("list", ("tuple", [("ext", "int"), inner]))
    if isinstance(it, ast.Call) and isinstance(it.func, ast.Attribute) and it.func.attr in ("values", "items", "keys"):
        base = ix.infer(it.func.value, scope)
        if base is not None and base[0] == "dict":
            if it.func.attr == "values":
                return ("list", base[2])
            if it.func.attr == "keys":
                return ("list", base[1])
            return ("list", ("tuple", [base[1], base[2]]))
        if base is not None and base[0] == "inst" and base[1].lookup(it.func.attr) is None:
            return ("list", None)
    return ix.infer(it, scope)


def _binds(target, name) -> bool:
    if isinstance(target, ast.Name):
        return target.id == name
    if isinstance(target, (ast.Tuple, ast.List)):
        return any(_binds(e, name) for e in target.elts)
    if isinstance(target, ast.Starred):
        return _binds(target.value, name)
    return False


def _destructure(target, name, t, ix):
    if isinstance(target, ast.Name):
        return t if target.id == name else None
    if isinstance(target, (ast.Tuple, ast.List)):
        for i, e in enumerate(target.elts):
            if _binds(e, name):
                sub = None
                if t is not None and t[0] == "tuple" and i < len(t[1]):
                    sub = t[1][i]
                return _destructure(e, name, sub, ix)
    return None
