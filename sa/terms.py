"""E6 - value-flow normal form ("terms").

Every function is summarised, without running it, as

    returns  [(path condition, term)]          effects  [Effect]          raises  [(path condition, term)]

where a *term* is the expression a value was computed by, with every local variable replaced by its definition(s)
(def-use substitution through assignments, tuple unpacking, augmented assignments, branches -> `ite`, loops -> `elem` /
`mu`, comprehensions -> `comp` with bound variables).  Terms mention only parameters, fields, globals, constants and
calls, so a rule phrased over terms is insensitive to the names of temporaries, to whether a value is held in a local
or written inline, to guard-clause versus if/else layout, to statement order where no dependence exists, and - with
`expand_calls` - to whether a computation sits in a helper function or a property.

This is a syntactic / dataflow normal form (global value numbering in spirit).  Nothing is executed and no solver is
asked: path conditions are kept as sets of literals for the rules to look at, never decided.

term ::= ('const', v) | ('param', name) | ('global', dotted) | ('attr', t, name) | ('sub', t, t)
       | ('slice', t, t, t) | ('call', t, (t...), ((kw, t)...)) | ('bin', op, t, t) | ('un', op, t)
       | ('cmp', op, t, t) | ('and', (t...)) | ('or', (t...)) | ('not', t) | ('ite', t, t, t)
       | ('tuple', (t...)) | ('list', (t...)) | ('set', (t...)) | ('dict', ((t, t)...)) | ('fstr', (t...))
       | ('star', t) | ('dstar', t) | ('elem', t_iterable, loop_id) | ('mu', loop_id, name)
       | ('fold', loop_id, name, t_init, t_update(mu), t_iterable_or_cond) | ('free', name)
       | ('bound', id, name) | ('comp', kind, t_elt, ((pattern, t_iter, (t_cond...))...)) | ('lambda', (names), t)
       | ('func', qualname) | ('enter', t) | ('exc', handler_id) | ('unknown', why) | ('yielded', t) | ('await', t)
"""

from __future__ import annotations

import ast
import itertools
from typing import Callable, Iterable, Optional

from . import AnalysisError
from .index import Index, FuncInfo, ClassInfo, Scope

NONE = ("const", None)
RAISED = ("unknown", "<raised>")   # the value of a call on the paths where the callee raises (never observed)
TRUE = ("const", True)
FALSE = ("const", False)

_BIN = {ast.Add: "+", ast.Sub: "-", ast.Mult: "*", ast.Div: "/", ast.FloorDiv: "//", ast.Mod: "%", ast.Pow: "**",
        ast.LShift: "<<", ast.RShift: ">>", ast.BitOr: "|", ast.BitXor: "^", ast.BitAnd: "&", ast.MatMult: "@"}
_UN = {ast.USub: "-", ast.UAdd: "+", ast.Invert: "~"}
_CMP = {ast.Eq: "==", ast.NotEq: "!=", ast.Lt: "<", ast.LtE: "<=", ast.Gt: ">", ast.GtE: ">=", ast.Is: "is",
        ast.IsNot: "is not", ast.In: "in", ast.NotIn: "not in"}
_NEG = {"==": "!=", "!=": "==", "<": ">=", ">=": "<", ">": "<=", "<=": ">", "is": "is not", "is not": "is",
        "in": "not in", "not in": "in"}
_FLIP = {">": "<", ">=": "<=", "<": ">", "<=": ">=", "==": "==", "!=": "!="}


# ------------------------------------------------------------------------------------------------ term utilities
def neg(t):
    """Logical negation in normal form (negations pushed into comparisons, De Morgan over and / or)."""
    k = t[0]
    if k == "not":
        return t[1]
    if k == "cmp":
        return ("cmp", _NEG[t[1]], t[2], t[3])
    if k == "and":
        return mk_bool("or", [neg(x) for x in t[1]])
    if k == "or":
        return mk_bool("and", [neg(x) for x in t[1]])
    if k == "const" and isinstance(t[1], bool):
        return ("const", not t[1])
    return ("not", t)


def mk_bool(k, parts):
    """and / or with constant operands folded and nested operators of the same kind flattened."""
    out = []
    for x in parts:
        if x[0] == k:
            out.extend(x[1])
        elif x[0] == "const" and isinstance(x[1], bool):
            if (k == "and") != x[1]:
                return x  # False in and / True in or decides
        else:
            out.append(x)
    if not out:
        return TRUE if k == "and" else FALSE
    if len(out) == 1:
        return out[0]
    return (k, tuple(out))


def literals(t, pol=True) -> tuple:
    """Split a condition into the conjunction of literals it implies (a condition that is a disjunction stays one
    literal)."""
    if not pol:
        t = neg(t)
    if t[0] == "and":
        out = ()
        for x in t[1]:
            out += literals(x)
        return out
    if t == TRUE:
        return ()
    return (t,)


def ite(c, a, b):
    """Conditional value, oriented so that the condition is never a negative comparison (`a if x is not None else b`
    and `b if x is None else a` are the same term)."""
    if a == b:
        return a
    if c == TRUE:
        return a
    if c == FALSE:
        return b
    if c[0] == "not" or (c[0] == "cmp" and c[1] in ("is not", "!=", "not in")):
        return ("ite", neg(c), b, a)
    return ("ite", c, a, b)


SELF = ("param", "self")


def A(base, *names):
    """Attribute chain: A(SELF, 'a', 'b') = self.a.b"""
    for n in names:
        base = ("attr", base, n)
    return base


def K(v):
    return ("const", v)


def call_name(t) -> Optional[str]:
    """Name of the function a call term calls: the method name for x.m(...), the last dotted part for a global."""
    if t[0] != "call":
        return None
    fn = t[1]
    if fn[0] == "attr":
        return fn[2]
    if fn[0] in ("global", "param", "free"):
        return fn[1].split(".")[-1]
    if fn[0] == "func":
        return fn[1].split(".")[-1]
    return None


def is_call(t, name=None, nargs=None) -> bool:
    if t[0] != "call":
        return False
    if name is not None:
        names = (name,) if isinstance(name, str) else name
        if call_name(t) not in names:
            return False
    return nargs is None or len(t[2]) == nargs


def call_recv(t):
    return t[1][1] if t[0] == "call" and t[1][0] == "attr" else None


def call_arg(t, pos=None, kw=None):
    """Argument of a call term by position or keyword (either may be given; None when absent)."""
    if t[0] != "call":
        return None
    if kw is not None:
        for k, v in t[3]:
            if k == kw:
                return v
    if pos is not None and pos < len(t[2]):
        return t[2][pos]
    return None


def calls_in(t, name=None) -> list:
    return [x for x in subterms(t) if x[0] == "call" and (name is None or is_call(x, name))]


def int_norm(t):
    """Normal form of integer comparisons against constants: x < c -> x <= c-1, x > c -> x >= c+1 (a rule that uses it
    states that the compared quantity is an integer)."""
    def f(x):
        if x[0] == "cmp" and x[3][0] == "const" and isinstance(x[3][1], int) and not isinstance(x[3][1], bool):
            if x[1] == "<":
                return ("cmp", "<=", x[2], ("const", x[3][1] - 1))
            if x[1] == ">":
                return ("cmp", ">=", x[2], ("const", x[3][1] + 1))
        return x
    return rebuild(t, f)


def children(t) -> Iterable:
    """Direct sub-terms."""
    k = t[0]
    if k in ("const", "param", "global", "bound", "func", "unknown", "exc", "free"):
        return ()
    if k == "attr":
        return (t[1],)
    if k in ("sub",):
        return (t[1], t[2])
    if k == "slice":
        return (t[1], t[2], t[3])
    if k == "call":
        return (t[1],) + tuple(t[2]) + tuple(v for _, v in t[3])
    if k in ("bin", "cmp"):
        return (t[2], t[3])
    if k == "un":
        return (t[2],)
    if k in ("and", "or", "tuple", "list", "set", "fstr"):
        return tuple(t[1])
    if k in ("not", "star", "dstar", "enter", "yielded", "await"):
        return (t[1],)
    if k == "ite":
        return (t[1], t[2], t[3])
    if k == "dict":
        return tuple(x for kv in t[1] for x in kv)
    if k == "elem":
        return (t[1],)
    if k == "mu":
        return ()
    if k == "fold":
        return tuple(x for x in (t[3], t[4], t[5]) if x is not None)
    if k == "comp":
        out = [t[2]] if not isinstance(t[2], tuple) or t[2] and isinstance(t[2][0], str) else list(t[2])
        for pat, it, conds in t[3]:
            out.append(it)
            out.extend(conds)
        return tuple(out)
    if k == "lambda":
        return (t[2],)
    return ()


def subterms(t) -> Iterable:
    """All sub-terms, pre-order, including t."""
    stack = [t]
    while stack:
        x = stack.pop()
        yield x
        stack.extend(reversed(tuple(children(x))))


def contains(t, pred) -> bool:
    if not callable(pred):
        target = pred
        return any(x == target for x in subterms(t))
    return any(pred(x) for x in subterms(t))


def find(t, pred) -> list:
    return [x for x in subterms(t) if pred(x)]


def _instance_dict_of(t):
    """obj when t is obj.__dict__ or vars(obj)."""
    if t[0] == "attr" and t[2] == "__dict__":
        return t[1]
    if t[0] == "call" and t[1] == ("global", "vars") and len(t[2]) == 1 and not t[3]:
        return t[2][0]
    return None


def mk_sub(base, idx):
    d = _instance_dict_of(base)
    if d is not None and idx[0] == "const" and isinstance(idx[1], str):
        return ("attr", d, idx[1])          # obj.__dict__['name'] is obj.name
    """Subscript with the obvious folding: <tuple / list literal>[<constant index>] is that element (also through a
    conditional whose branches are both literals)."""
    if idx[0] == "const" and isinstance(idx[1], int) and not isinstance(idx[1], bool):
        if base[0] in ("tuple", "list") and -len(base[1]) <= idx[1] < len(base[1]) and \
                not any(x[0] == "star" for x in base[1]):
            return base[1][idx[1]]
        if base[0] == "ite" and all(b[0] in ("tuple", "list") for b in (base[2], base[3])):
            return ite(base[1], mk_sub(base[2], idx), mk_sub(base[3], idx))
    return ("sub", base, idx)


def map_children(t, r):
    """Rebuild t with r applied to each direct sub-term."""
    k = t[0]
    if k in ("const", "param", "global", "bound", "func", "unknown", "exc", "free", "mu"):
        return t
    if k == "attr":
        return ("attr", r(t[1]), t[2])
    if k == "sub":
        return mk_sub(r(t[1]), r(t[2]))
    if k == "slice":
        return ("slice", r(t[1]), r(t[2]), r(t[3]))
    if k == "call":
        kws = []
        for kk, v in t[3]:
            v2 = r(v)
            if kk is None and v2[0] == "dstar" and v2[1][0] == "dict" and \
                    all(dk[0] == "const" and isinstance(dk[1], str) for dk, _ in v2[1][1]):
                kws.extend((dk[1], dv) for dk, dv in v2[1][1])      # f(**{'a': x}) is f(a=x)
            else:
                kws.append((kk, v2))
        return ("call", r(t[1]), tuple(r(x) for x in t[2]), tuple(kws))
    if k == "cmp":
        return _norm_cmp(t[1], r(t[2]), r(t[3]))
    if k == "bin":
        return (k, t[1], r(t[2]), r(t[3]))
    if k == "un":
        return ("un", t[1], r(t[2]))
    if k in ("and", "or", "tuple", "list", "set", "fstr"):
        return (k, tuple(r(x) for x in t[1]))
    if k == "not":
        return neg(r(t[1]))   # stays in normal form when the operand was rewritten into a comparison
    if k in ("star", "dstar", "enter", "yielded", "await"):
        return (k, r(t[1]))
    if k == "ite":
        return ite(r(t[1]), r(t[2]), r(t[3]))
    if k == "dict":
        return ("dict", tuple((r(a), r(b)) for a, b in t[1]))
    if k == "elem":
        return ("elem", r(t[1]), t[2])
    if k == "fold":
        return ("fold", t[1], t[2], r(t[3]), r(t[4]), r(t[5]) if t[5] is not None else None)
    if k == "comp":
        elt = t[2]
        elt = (r(elt[0]), r(elt[1])) if t[1] == "dict" else r(elt)
        return ("comp", t[1], elt, tuple((pat, r(it), tuple(r(c) for c in conds)) for pat, it, conds in t[3]))
    if k == "lambda":
        return ("lambda", t[1], r(t[2]))
    return t


def rebuild(t, f):
    """Bottom-up rewrite: f is applied to every node after its children were rewritten."""
    return f(map_children(t, lambda x: rebuild(x, f)))


def _top_down(t, f):
    """Rewrite with f applied to a node before its children (f returning a different node stops the descent there)."""
    n = f(t)
    if n is not t and n != t:
        return n
    return map_children(t, lambda x: _top_down(x, f))


def substitute(t, mapping: dict):
    """Replace ('param', name) leaves by mapping[name] (used to instantiate a callee summary at a call site)."""
    def f(x):
        if x[0] == "param" and x[1] in mapping:
            return mapping[x[1]]
        if x[0] == "free" and ("<free>" + x[1]) in mapping:
            return mapping["<free>" + x[1]]
        if x[0] == "call" and x[1] == ("global", "getattr") and len(x[2]) == 2 and not x[3] and \
                x[2][1][0] == "const" and isinstance(x[2][1][1], str):
            return ("attr", x[2][0], x[2][1][1])  # getattr(obj, 'name') once the name is known
        return x
    return rebuild(t, f)


def alternatives(t, _pc=()) -> list:
    """The leaves of the outermost ite tree with the conditions under which each is the value: [(conds, term)]."""
    if t[0] == "ite":
        return alternatives(t[2], _pc + literals(t[1])) + alternatives(t[3], _pc + literals(t[1], False))
    if t == RAISED:
        return []
    return [(_pc, t)]


class Wild:
    """Pattern variable for `match`."""

    def __init__(self, name=None, pred=None):
        self.name, self.pred = name, pred

    def __repr__(self):
        return f"?{self.name or ''}"


ANY = Wild()


def match(pat, t, binds: Optional[dict] = None) -> Optional[dict]:
    """Structural match of a pattern (a term with Wild leaves) against a term; returns the bindings or None."""
    binds = {} if binds is None else binds
    if isinstance(pat, Wild):
        if pat.pred is not None and not pat.pred(t):
            return None
        if pat.name:
            if pat.name in binds and binds[pat.name] != t:
                return None
            binds[pat.name] = t
        return binds
    if isinstance(pat, tuple) and isinstance(t, tuple):
        if len(pat) != len(t):
            return None
        for p, x in zip(pat, t):
            if match(p, x, binds) is None:
                return None
        return binds
    return binds if pat == t else None


def find_matches(t, pat) -> list:
    out = []
    for x in subterms(t):
        b = match(pat, x, {})
        if b is not None:
            out.append((x, b))
    return out


def pp(t, depth=0) -> str:
    """Readable rendering of a term (for reports)."""
    if depth > 12:
        return "..."
    d = depth + 1
    k = t[0]
    if k == "const":
        return repr(t[1])
    if k in ("param", "global", "free"):
        return t[1]
    if k == "bound":
        return t[2]
    if k == "func":
        return f"<function {t[1]}>"
    if k == "attr":
        return f"{pp(t[1], d)}.{t[2]}"
    if k == "sub":
        return f"{pp(t[1], d)}[{pp(t[2], d)}]"
    if k == "slice":
        return ":".join("" if x == NONE else pp(x, d) for x in t[1:4])
    if k == "call":
        args = [pp(x, d) for x in t[2]] + [f"{kk}={pp(v, d)}" for kk, v in t[3]]
        return f"{pp(t[1], d)}({', '.join(args)})"
    if k in ("bin", "cmp"):
        return f"({pp(t[2], d)} {t[1]} {pp(t[3], d)})"
    if k == "un":
        return f"{t[1]}{pp(t[2], d)}"
    if k in ("and", "or"):
        return "(" + f" {k} ".join(pp(x, d) for x in t[1]) + ")"
    if k == "not":
        return f"not {pp(t[1], d)}"
    if k == "ite":
        return f"({pp(t[2], d)} if {pp(t[1], d)} else {pp(t[3], d)})"
    if k in ("tuple", "list", "set", "fstr"):
        o, c = {"tuple": "()", "list": "[]", "set": "{}", "fstr": ("f'", "'")}[k]
        return o + ", ".join(pp(x, d) for x in t[1]) + c
    if k == "dict":
        return "{" + ", ".join(f"{pp(a, d)}: {pp(b, d)}" for a, b in t[1]) + "}"
    if k == "elem":
        return f"each({pp(t[1], d)})"
    if k == "mu":
        return f"<{t[2]}>"
    if k == "fold":
        return f"fold({t[2]} := {pp(t[3], d)}; over {pp(t[5], d) if t[5] is not None else '?'}: {t[2]} := {pp(t[4], d)})"
    if k == "comp":
        elt = t[2]
        e = f"{pp(elt[0], d)}: {pp(elt[1], d)}" if t[1] == "dict" else pp(elt, d)
        gens = " ".join(f"for {pat} in {pp(it, d)}" + "".join(f" if {pp(c, d)}" for c in conds)
                        for pat, it, conds in t[3])
        return f"<{t[1]}comp {e} {gens}>"
    if k == "lambda":
        return f"(lambda {', '.join(t[1])}: {pp(t[2], d)})"
    if k in ("star", "dstar"):
        return ("*" if k == "star" else "**") + pp(t[1], d)
    if k == "enter":
        return f"enter({pp(t[1], d)})"
    if k == "unknown":
        return f"<unknown:{t[1]}>"
    return str(t)


# ---------------------------------------------------------------------------------------------------- effects
class Effect:
    """One side effect of a function, in normal form.

    kind  'store_attr' (base, name, value) | 'store_sub' (base, index, value) | 'del' (target) | 'call' (value = the
          call term of an expression statement or of any call evaluated for its effect) | 'yield' (value)
    pc    tuple of literal terms under which the effect happens
    ctx   tuple of enclosing constructs: ('for', loop_id, iterable) | ('while', loop_id, cond) | ('try', id, names)
          | ('except', id, names) | ('finally', id) | ('with', term)
    """
    __slots__ = ("kind", "base", "key", "value", "pc", "ctx", "node", "func", "aug")

    def __init__(self, kind, base, key, value, pc, ctx, node, func, aug=None):
        self.kind, self.base, self.key, self.value = kind, base, key, value
        self.pc, self.ctx, self.node, self.func, self.aug = pc, ctx, node, func, aug

    @property
    def where(self):
        return f"{self.func.module.relpath}:{getattr(self.node, 'lineno', self.func.node.lineno)}"

    def loops(self):
        return [c for c in self.ctx if c[0] in ("for", "while")]

    def __repr__(self):
        if self.kind == "store_attr":
            s = f"{pp(self.base)}.{self.key} = {pp(self.value)}"
        elif self.kind == "store_sub":
            s = f"{pp(self.base)}[{pp(self.key)}] = {pp(self.value)}"
        elif self.kind == "call":
            s = pp(self.value)
        else:
            s = f"{self.kind} {pp(self.value) if self.value else ''}"
        return f"<Effect {s} | pc={[pp(c) for c in self.pc]} ctx={[c[0] for c in self.ctx]}>"


class Summary:
    def __init__(self, func: FuncInfo):
        self.func = func
        self.returns: list = []   # (pc, term, node)
        self.raises: list = []    # (pc, term, node)
        self.yields: list = []    # (pc, term, node, ctx)
        self.effects: list[Effect] = []
        self.calls: dict = {}     # call term -> list[FuncInfo]   (resolved package callees)
        self.props: dict = {}     # attr term -> list[FuncInfo]   (resolved property getters)
        self.precise: set = set()  # call terms resolved by type inference (the rest: call-graph fallbacks, by name)
        self.final_env: dict = {}
        self.falls_through = False
        self.fall_pc = ()

    # ---- convenience
    def return_term(self):
        """All returned values merged into one ite term (None for falling off the end)."""
        rets = list(self.returns)
        if self.falls_through:
            rets.append((self.fall_pc, NONE, None))
        if not rets:
            return ("unknown", "never returns")
        t = rets[-1][1]
        if (self.raises or any(e.kind == "raise" for e in self.effects)) and rets[-1][0] and len(rets) > 1:
            # the last return has its own condition too (the remaining cases raise): keep it
            lpc = rets[-1][0]
            t = ite(("and", tuple(lpc)) if len(lpc) != 1 else lpc[0], t, RAISED)
        for pc, v, _ in reversed(rets[:-1]):
            c = ("and", tuple(pc)) if len(pc) != 1 else pc[0]
            if not pc:
                t = v
            else:
                t = ite(c, v, t)
        return t

    def forward_fields(self, t, base=SELF):
        """Replace reads of base.<f> inside `t` by the value this function stored there, for fields with exactly one
        store, made unconditionally and outside any loop (store-to-load forwarding inside one function)."""
        single = {}
        for e in self.effects:
            if e.kind == "store_attr" and e.base == base:
                single.setdefault(e.key, []).append(e)
        fwd = {k: v[0].value for k, v in single.items() if len(v) == 1 and not v[0].loops() and v[0].aug is None}

        def f(x):
            if x[0] == "attr" and x[1] == base and x[2] in fwd:
                return fwd[x[2]]
            return x
        out = t
        for _ in range(4):
            new = rebuild(out, f)
            if new == out:
                break
            out = new
        return out

    def stores(self, attr=None, kind=None):
        return [e for e in self.effects if e.kind in ("store_attr", "store_sub") and (attr is None or e.key == attr)
                and (kind is None or e.kind == kind)]

    def call_effects(self, name=None):
        out = []
        for e in self.effects:
            if e.kind == "call":
                fn = e.value[1]
                nm = fn[2] if fn[0] == "attr" else (fn[1] if fn[0] in ("global", "param") else None)
                if name is None or nm == name:
                    out.append(e)
        return out

    def all_calls(self, name=None):
        """Every call term anywhere in the summary (returns, effects, raises, yields, path conditions)."""
        seen, out = set(), []

        def scan(t):
            for x in subterms(t):
                if x[0] == "call" and x not in seen:
                    fn = x[1]
                    nm = fn[2] if fn[0] == "attr" else (fn[1] if fn[0] in ("global", "param") else None)
                    if name is None or nm == name or (nm and nm.split(".")[-1] == name):
                        seen.add(x)
                        out.append(x)
        for pc, t, _ in self.returns + self.raises:
            scan(t)
            for c in pc:
                scan(c)
        for pc, t, _, _ in self.yields:
            scan(t)
        for e in self.effects:
            for t in (e.base, e.key, e.value):
                if isinstance(t, tuple):
                    scan(t)
            for c in e.pc:
                scan(c)
        return out


class _Path:
    """Evaluation state along the fall-through path of a block."""
    __slots__ = ("env", "pc", "live")

    def __init__(self, env, pc=(), live=True):
        self.env, self.pc, self.live = env, pc, live

    def fork(self):
        return _Path(dict(self.env), self.pc, self.live)


class TermEval:
    """Computes Summaries; cached per function."""

    def __init__(self, ix: Index, cg=None):
        self.ix = ix
        self.cg = cg   # optional whole-package call graph: resolves what type inference alone cannot (by-name dispatch)
        self._cache: dict = {}
        self._ids = itertools.count(1)
        self._site_targets: dict = {}
        self._stored_attrs = None

    def stored_attr_names(self) -> set:
        """Names that are the target of an attribute store (`x.name = ...`, augmented, annotated, deleted, or set through
        setattr with a constant name) anywhere in the package."""
        if self._stored_attrs is None:
            names = set()
            for m in self.ix.modules.values():
                for n in ast.walk(m.tree):
                    if isinstance(n, ast.Attribute) and isinstance(n.ctx, (ast.Store, ast.Del)):
                        names.add(n.attr)
                    elif isinstance(n, ast.Call) and isinstance(n.func, ast.Name) and n.func.id == "setattr" and \
                            len(n.args) >= 2 and isinstance(n.args[1], ast.Constant) and \
                            isinstance(n.args[1].value, str):
                        names.add(n.args[1].value)
            self._stored_attrs = names
        return self._stored_attrs

    def site_targets(self, func: FuncInfo, node) -> list:
        if self.cg is None:
            return []
        if func not in self._site_targets:
            m = {}
            for cs in self.cg.sites.get(func, []):
                if cs.kind in ("call", "method", "direct", "dispatch", "by-name", "escaping") or True:
                    m.setdefault(id(cs.node), []).extend(t for t in cs.targets if t not in m.get(id(cs.node), []))
            self._site_targets[func] = m
        return self._site_targets[func].get(id(node), [])

    def summary(self, func: FuncInfo) -> Summary:
        key = id(func.node)
        if key not in self._cache:
            self._cache[key] = None  # recursion guard
            self._cache[key] = _FuncEval(self, func).run()
        s = self._cache[key]
        if s is None:
            raise AnalysisError(f"terms: recursive summary of {func.short}")
        return s

    def method(self, cls: str, name: str) -> Summary:
        return self.summary(self.ix.get_method(cls, name))

    # ---- inter-procedural expansion -------------------------------------------------------------------------
    def expand_calls(self, t, summ: Summary, depth: int = 2, only: Optional[Callable] = None):
        """Replace calls of (uniquely resolved) package functions and loads of package properties inside `t` by the
        callee's return term, instantiated with the actual arguments; `depth` bounds the nesting.  Calls whose callee
        is not unique, is a generator, or has effects besides returning a value are left alone unless `only` says
        otherwise."""
        if depth <= 0:
            return t

        def f(x):
            if x[0] == "call" and x in summ.calls and len(summ.calls[x]) == 1:
                callee = summ.calls[x][0]
                if only is not None and not only(callee):
                    return x
                if callee.is_generator() or not isinstance(callee.node, (ast.FunctionDef, ast.Lambda)):
                    return x
                try:
                    cs = self.summary(callee)
                except AnalysisError:
                    return x
                if cs is None:
                    return x
                amap = self._bind_args(callee, x)
                if amap is None:
                    return x
                r = substitute(cs.return_term(), amap)
                sub = Summary(callee)
                sub.calls = {substitute(k, amap): v for k, v in cs.calls.items()}
                sub.props = {substitute(k, amap): v for k, v in cs.props.items()}
                return self.expand_calls(r, sub, depth - 1, only)
            if x[0] == "attr" and x in summ.props and len(summ.props[x]) == 1:
                getter = summ.props[x][0]
                if only is not None and not only(getter):
                    return x
                try:
                    cs = self.summary(getter)
                except AnalysisError:
                    return x
                if cs is None or not getter.param_names:
                    return x
                amap = {getter.param_names[0]: x[1]}
                r = substitute(cs.return_term(), amap)
                sub = Summary(getter)
                sub.calls = {substitute(k, amap): v for k, v in cs.calls.items()}
                sub.props = {substitute(k, amap): v for k, v in cs.props.items()}
                return self.expand_calls(r, sub, depth - 1, only)
            return x
        return rebuild(t, f)

    def _bind_args(self, callee: FuncInfo, call_term) -> Optional[dict]:
        names = list(callee.param_names)
        fn, args, kwargs = call_term[1], list(call_term[2]), dict(call_term[3])
        amap = {}
        bound = callee.parent is None and callee.cls is not None and callee.kind != "staticmethod"
        if bound:
            if not names:
                return None
            recv = fn[1] if fn[0] == "attr" else ("unknown", "receiver")
            # Class(...) constructor calls bind self to the fresh object (unknown)
            amap[names[0]] = recv
            names = names[1:]
        if any(a[0] in ("star",) for a in args):
            return None
        spread = [v for k, v in call_term[3] if k is None]   # **mapping arguments
        kwargs.pop(None, None)
        a = callee.node.args
        pos = [x.arg for x in a.posonlyargs + a.args]
        if bound and pos:
            pos = pos[1:]
        for p, v in zip(pos, args):
            amap[p] = v
        for k, v in kwargs.items():
            amap[k] = v
        if a.kwarg is not None and not spread:
            # the keywords the callee does not name end up in its **mapping parameter, in call order
            named = {x.arg for x in a.posonlyargs + a.args + a.kwonlyargs}
            extra = ("dict", tuple((("const", k), v) for k, v in call_term[3] if k is not None and k not in named))
            amap[a.kwarg.arg] = extra
            amap["**" + a.kwarg.arg] = extra
        if spread:
            # a parameter not bound explicitly may come out of the spread mapping (or keep its default)
            every = [x.arg for x in a.posonlyargs + a.args + a.kwonlyargs]
            if bound and every:
                every = every[1:]
            for p in every:
                if p not in amap:
                    amap[p] = ("call", ("global", "<from-spread-mapping>"), tuple(spread) + (("const", p),), ())
            if a.kwarg is not None:
                named = {x.arg for x in a.posonlyargs + a.args + a.kwonlyargs}
                extras = [(("const", k), v) for k, v in call_term[3] if k is not None and k not in named]
                if extras:
                    # f(x=1, **m) where f does not name x: its **mapping parameter is {**m, 'x': 1} (in call order)
                    items = []
                    for k, v in call_term[3]:
                        if k is None:
                            items.append((v if v[0] == "dstar" else ("dstar", v), NONE))
                        elif k not in named:
                            items.append((("const", k), v))
                    merged = ("dict", tuple(items))
                    amap["**" + a.kwarg.arg] = ("dstar", merged)
                    amap[a.kwarg.arg] = merged
                else:
                    amap["**" + a.kwarg.arg] = spread[0] if len(spread) == 1 else ("tuple", tuple(spread))
        # defaults
        defaults = list(a.defaults)
        allpos = [x.arg for x in a.posonlyargs + a.args]
        for p, d in zip(allpos[len(allpos) - len(defaults):], defaults):
            if p not in amap:
                try:
                    amap[p] = ("const", ast.literal_eval(d))
                except (ValueError, SyntaxError):
                    amap[p] = ("unknown", f"default of {p}")
        for p, d in zip(a.kwonlyargs, a.kw_defaults):
            if p.arg not in amap and d is not None:
                try:
                    amap[p.arg] = ("const", ast.literal_eval(d))
                except (ValueError, SyntaxError):
                    amap[p.arg] = ("unknown", f"default of {p.arg}")
        return amap


class _Terminated(Exception):
    pass


class _FuncEval:
    def __init__(self, te: TermEval, func: FuncInfo, closure_env: Optional[dict] = None):
        self.te, self.ix, self.func = te, te.ix, func
        self.scope = Scope(te.ix, func)
        self.summ = Summary(func)
        self.ctx: tuple = ()
        self.closure_env = closure_env or {}
        self._n = itertools.count(1)
        self.breaks: list = []  # stack of lists collecting (path) at break
        self.conts: list = []

    def nid(self, prefix):
        return f"{prefix}{next(self._n)}"

    # ------------------------------------------------------------------------------------------------ driver
    def run(self) -> Summary:
        node = self.func.node
        env = dict(self.closure_env)
        outer = self.func.parent
        while outer is not None:
            for n in ast.walk(outer.node):
                if isinstance(n, ast.Name) and isinstance(n.ctx, ast.Store) and n.id not in env:
                    env[n.id] = ("free", n.id)
                elif isinstance(n, ast.arg) and n.arg not in env:
                    env[n.arg] = ("free", n.arg)
                elif isinstance(n, (ast.FunctionDef, ast.AsyncFunctionDef)) and n is not outer.node and n.name not in env:
                    env[n.name] = ("free", n.name)
            outer = outer.parent
        a = node.args
        for arg in a.posonlyargs + a.args + a.kwonlyargs:
            env[arg.arg] = ("param", arg.arg)
        if a.vararg:
            env[a.vararg.arg] = ("param", "*" + a.vararg.arg)
        if a.kwarg:
            env[a.kwarg.arg] = ("param", "**" + a.kwarg.arg)
        p = _Path(env)
        if isinstance(node, ast.Lambda):
            self.summ.returns.append(((), self.ev(node.body, p), node))
            return self.summ
        self.block(node.body, p)
        self.summ.falls_through = p.live
        self.summ.fall_pc = p.pc
        self.summ.final_env = p.env
        return self.summ

    # ------------------------------------------------------------------------------------------------ statements
    def block(self, stmts, p: _Path):
        for s in stmts:
            if not p.live:
                return
            self.stmt(s, p)

    def stmt(self, s, p: _Path):
        m = getattr(self, "s_" + type(s).__name__, None)
        if m is None:
            return self.s_other(s, p)
        return m(s, p)

    def s_other(self, s, p):
        # unmodelled statement kinds: every name it may bind becomes unknown
        for n in ast.walk(s):
            if isinstance(n, ast.Name) and isinstance(n.ctx, ast.Store):
                p.env[n.id] = ("unknown", type(s).__name__)

    def s_Pass(self, s, p):
        pass

    s_Global = s_Nonlocal = s_Import = s_ImportFrom = s_Pass

    def s_Assert(self, s, p):
        c = self.ev(s.test, p)
        # a refusal under `not c` (AssertionError), after which c holds
        q = p.fork()
        q.pc = p.pc + literals(c, False) if len(literals(c)) == 1 else p.pc + (neg(c),)
        self.effect("raise", None, None, ("call", ("global", "AssertionError"), (), ()), q, s)
        p.pc = p.pc + literals(c)

    def s_Expr(self, s, p):
        v = self.ev(s.value, p)
        if v[0] == "call":
            self.effect("call", None, None, v, p, s)
        elif v[0] in ("yielded", "await"):
            pass

    def s_Assign(self, s, p):
        v = self.ev(s.value, p)
        if v[0] == "call" and v in self.summ.precise and all(isinstance(t, ast.Name) for t in s.targets):
            # `x = self.helper(...)`: the call happens here, whether or not x is used afterwards
            self.effect("call", None, None, v, p, s)
        for t in s.targets:
            self.assign(t, v, p, s)

    def s_AnnAssign(self, s, p):
        if s.value is not None:
            self.assign(s.target, self.ev(s.value, p), p, s)

    def s_AugAssign(self, s, p):
        op = _BIN[type(s.op)]
        if isinstance(s.target, ast.Name):
            old = self.load_name(s.target.id, p, s.target)
            p.env[s.target.id] = ("bin", op, old, self.ev(s.value, p))
        else:
            tl = ast.copy_location(_as_load(s.target), s.target)
            old = self.ev(tl, p)
            new = ("bin", op, old, self.ev(s.value, p))
            self.assign(s.target, new, p, s, aug=op)

    def assign(self, t, v, p, node, aug=None):
        if isinstance(t, ast.Name):
            p.env[t.id] = v
        elif isinstance(t, (ast.Tuple, ast.List)):
            if v[0] in ("tuple", "list") and len(v[1]) == len(t.elts) and not any(isinstance(e, ast.Starred)
                                                                                  for e in t.elts):
                for e, x in zip(t.elts, v[1]):
                    self.assign(e, x, p, node)
            else:
                for i, e in enumerate(t.elts):
                    if isinstance(e, ast.Starred):
                        self.assign(e.value, ("sub", v, ("slice", ("const", i), NONE, NONE)), p, node)
                    else:
                        self.assign(e, ("sub", v, ("const", i)), p, node)
        elif isinstance(t, ast.Attribute):
            self.effect("store_attr", self.ev(t.value, p), t.attr, v, p, node, aug)
        elif isinstance(t, ast.Subscript):
            base = self.ev(t.value, p)
            idx = self.ev_slice(t.slice, p)
            d = _instance_dict_of(base)
            if d is not None and idx[0] == "const" and isinstance(idx[1], str):
                self.effect("store_attr", d, idx[1], v, p, node, aug)     # obj.__dict__['name'] = v  is  obj.name = v
            else:
                self.effect("store_sub", base, idx, v, p, node, aug)
            # a subscript store into a local container: the local now holds "container updated with"
        elif isinstance(t, ast.Starred):
            self.assign(t.value, v, p, node)

    def s_Delete(self, s, p):
        for t in s.targets:
            if isinstance(t, ast.Name):
                p.env.pop(t.id, None)
            else:
                self.effect("del", None, None, self.ev(_as_load(t), p), p, s)

    def s_Return(self, s, p):
        v = self.ev(s.value, p) if s.value is not None else NONE
        self.summ.returns.append((p.pc, v, s))
        p.live = False

    def s_Raise(self, s, p):
        v = self.ev(s.exc, p) if s.exc is not None else ("unknown", "re-raise")
        self.summ.raises.append((p.pc, v, s))
        self.effect("raise", None, None, v, p, s)
        p.live = False

    def s_Break(self, s, p):
        if self.breaks:
            self.breaks[-1].append(p.fork())
        p.live = False

    def s_Continue(self, s, p):
        if self.conts:
            self.conts[-1].append(p.fork())
        p.live = False

    def _cond_calls(self, c, p, node):
        """Package functions called while a condition is evaluated are calls made for their effects too."""
        stack = [c]
        while stack:
            x = stack.pop()
            if x[0] == "elem":
                continue   # the iterable of an enclosing loop was evaluated at the loop head, not here
            if x[0] == "call" and x in self.summ.precise:
                self.effect("call", None, None, x, p, node)
            stack.extend(reversed(tuple(children(x))))

    def s_If(self, s, p):
        c = self.ev(s.test, p)
        self._cond_calls(c, p, s)
        a = p.fork()
        a.pc = p.pc + literals(c)
        b = p.fork()
        b.pc = p.pc + literals(c, False)
        self.block(s.body, a)
        self.block(s.orelse, b)
        self.join(p, c, a, b)

    def join(self, p, c, a, b):
        base_pc = p.pc
        if a.live and b.live:
            env = {}
            for k in set(a.env) | set(b.env):
                va, vb = a.env.get(k), b.env.get(k)
                if va is None or vb is None:
                    env[k] = ite(c, va or ("unknown", f"{k} unbound"), vb or ("unknown", f"{k} unbound"))
                else:
                    env[k] = ite(c, va, vb)
            p.env = env
            p.pc = base_pc
        elif a.live:
            p.env, p.pc = a.env, base_pc + literals(c)
            extra = a.pc[len(base_pc) + len(literals(c)):]
            p.pc += extra
        elif b.live:
            p.env, p.pc = b.env, base_pc + literals(c, False)
            extra = b.pc[len(base_pc) + len(literals(c, False)):]
            p.pc += extra
        else:
            p.live = False

    def _assigned(self, stmts) -> list:
        out = []
        for s in stmts:
            for n in ast.walk(s):
                if isinstance(n, ast.Name) and isinstance(n.ctx, (ast.Store, ast.Del)) and n.id not in out:
                    out.append(n.id)
                if isinstance(n, (ast.FunctionDef, ast.ClassDef)) and n.name not in out:
                    out.append(n.name)
        return out

    def _merge_paths(self, paths, base_len):
        """Merge several paths (that forked from a common point whose pc had base_len literals) into one env:
        a name whose value differs becomes an ite chain over the conjunction of each path's additional literals."""
        keys = set()
        for q in paths:
            keys |= set(q.env)
        env = {}
        for k in keys:
            vals = [q.env.get(k, ("unknown", f"{k} unbound")) for q in paths]
            if all(v == vals[0] for v in vals):
                env[k] = vals[0]
                continue
            t = vals[-1]
            for q, v in zip(reversed(paths[:-1]), reversed(vals[:-1])):
                extra = q.pc[base_len:]
                c = extra[0] if len(extra) == 1 else (("and", tuple(extra)) if extra else TRUE)
                t = ite(c, v, t)
            env[k] = t
        return env

    @staticmethod
    def _has_loop_jump(stmts) -> bool:
        """Does the loop body contain a break / continue of this loop (not of a nested one)?"""
        todo = list(stmts)
        while todo:
            n = todo.pop()
            if isinstance(n, (ast.Break, ast.Continue)):
                return True
            if isinstance(n, (ast.For, ast.While, ast.AsyncFor, ast.FunctionDef, ast.AsyncFunctionDef, ast.Lambda,
                              ast.ClassDef)):
                todo.extend(getattr(n, "orelse", []) if not isinstance(n, (ast.FunctionDef, ast.Lambda)) else [])
                continue
            todo.extend(ast.iter_child_nodes(n))
        return False

    def _loop(self, s, p, lid, it, cond):
        if isinstance(s, ast.For) and it[0] in ("tuple", "list") and 0 < len(it[1]) <= 12 and \
                not any(x[0] == "star" for x in it[1]) and not self._has_loop_jump(s.body):
            # a loop over a table written out in the source is the same as its body written out once per entry (an
            # early return in one round then conditions the later rounds, as it does in the written-out form)
            for item in it[1]:
                if not p.live:
                    break
                self.assign(s.target, item, p, s)
                self.block(s.body, p)
            if s.orelse and p.live:
                self.block(s.orelse, p)
            return
        assigned = self._assigned(s.body)
        targets = [n.id for n in ast.walk(s.target) if isinstance(n, ast.Name)] if isinstance(s, ast.For) else []
        inits = {}
        for n in assigned:
            if n in targets:
                continue
            inits[n] = p.env.get(n, ("unknown", "unbound"))
            p.env[n] = ("mu", lid, n)
        if cond is not None:
            cond = self.ev(cond, p)
        body = p.fork()
        if cond is not None:
            body.pc = p.pc + literals(cond)
        if isinstance(s, ast.For):
            self.assign(s.target, ("elem", it, lid), body, s)
        saved = self.ctx
        self.ctx = self.ctx + ((("for", lid, it) if isinstance(s, ast.For) else ("while", lid, cond)),)
        self.breaks.append([])
        self.conts.append([])
        base_len = len(body.pc)
        self.block(s.body, body)
        brk = self.breaks.pop()
        cont = self.conts.pop()
        self.ctx = saved
        ends = ([body] if body.live else []) + cont
        upd_env = self._merge_paths(ends, base_len) if ends else {}
        exits = brk
        for n, init in inits.items():
            upd = upd_env.get(n, ("mu", lid, n))
            if upd == ("mu", lid, n) and not any(q.env.get(n) != ("mu", lid, n) for q in exits):
                p.env[n] = init  # never really changed
                continue
            fold = ("fold", lid, n, init, upd, it if isinstance(s, ast.For) else cond)
            if exits:
                outs = [q.env.get(n, fold) for q in exits]
                outs = [fold if o == ("mu", lid, n) else o for o in outs]
                t = fold
                for q, o in zip(exits, outs):
                    if o != fold:
                        t = ite(("unknown", f"break in {lid}"), o, t)
                p.env[n] = t
            else:
                p.env[n] = fold
        for n in targets:
            p.env[n] = ("unknown", f"loop target {n} after {lid}")
        if s.orelse:
            self.block(s.orelse, p)

    def s_For(self, s, p):
        it = self.ev(s.iter, p)
        self._loop(s, p, self.nid("L"), it, None)

    s_AsyncFor = s_For

    def s_While(self, s, p):
        self._loop(s, p, self.nid("W"), None, s.test)

    def s_Try(self, s, p):
        tid = self.nid("T")
        names = tuple(sorted({n for h in s.handlers for n in _handler_names(h)}))
        saved = self.ctx
        pre_env, pre_pc = dict(p.env), p.pc
        self.ctx = saved + (("try", tid, names),)
        self.block(s.body, p)
        self.ctx = saved
        if p.live and s.orelse:
            self.block(s.orelse, p)
        outs = [p.fork()] if p.live else []
        assigned = self._assigned(s.body)
        for h in s.handlers:
            hp = _Path(dict(pre_env), pre_pc, True)
            for n in assigned:
                hp.env[n] = ite(("unknown", f"exception in {tid}"), pre_env.get(n, ("unknown", "unbound")),
                                ("unknown", f"{n} assigned in {tid}"))
            if h.name:
                hp.env[h.name] = ("exc", tid)
            self.ctx = saved + (("except", tid, tuple(_handler_names(h))),)
            self.block(h.body, hp)
            self.ctx = saved
            if hp.live:
                outs.append(hp)
        if not outs:
            p.live = False
        elif len(outs) == 1:
            p.env, p.pc, p.live = outs[0].env, outs[0].pc, True
        else:
            env = {}
            keys = set()
            for o in outs:
                keys |= set(o.env)
            for k in keys:
                vals = []
                for o in outs:
                    v = o.env.get(k, ("unknown", f"{k} unbound"))
                    if v not in vals:
                        vals.append(v)
                t = vals[-1]
                for v in reversed(vals[:-1]):
                    t = ite(("unknown", f"exception in {tid}"), t, v)
                env[k] = t
            p.env, p.live = env, True
            p.pc = _common_prefix(*[o.pc for o in outs])
        if s.finalbody:
            was_live = p.live
            p.live = True
            self.ctx = saved + (("finally", tid),)
            self.block(s.finalbody, p)
            self.ctx = saved
            p.live = p.live and was_live

    s_TryStar = s_Try

    def s_With(self, s, p):
        saved = self.ctx
        for item in s.items:
            c = self.ev(item.context_expr, p)
            if c[0] == "call":
                self.effect("call", None, None, c, p, s)
            if item.optional_vars is not None:
                self.assign(item.optional_vars, ("enter", c), p, s)
            self.ctx = self.ctx + (("with", c),)
        self.block(s.body, p)
        self.ctx = saved

    s_AsyncWith = s_With

    def s_FunctionDef(self, s, p):
        p.env[s.name] = ("func", f"{self.func.qualname}.<locals>.{s.name}")

    s_AsyncFunctionDef = s_FunctionDef

    def s_ClassDef(self, s, p):
        p.env[s.name] = ("func", f"{self.func.qualname}.<locals>.{s.name}")

    def s_Match(self, s, p):
        self.s_other(s, p)

    # ------------------------------------------------------------------------------------------------ effects
    def effect(self, kind, base, key, value, p, node, aug=None):
        self.summ.effects.append(Effect(kind, base, key, value, p.pc, self.ctx, node, self.func, aug))

    # ------------------------------------------------------------------------------------------------ expressions
    def ev(self, e, p) -> tuple:
        if e is None:
            return NONE
        m = getattr(self, "e_" + type(e).__name__, None)
        if m is None:
            return ("unknown", type(e).__name__)
        return m(e, p)

    def e_Constant(self, e, p):
        return ("const", e.value)

    def load_name(self, name, p, node):
        if name in p.env:
            return p.env[name]
        # a module-level constant (possibly imported) is its value: X = ('a', 'b') ... `k in X`
        try:
            ent = self.ix.resolve_name(name, self.func.module)
        except Exception:  # noqa: BLE001
            ent = None
        if ent is not None and ent[0] == "var" and name.isupper() or (ent is not None and ent[0] == "var"
                                                                      and name.startswith("_") and name[1:].isupper()):
            try:
                return _from_python(ast.literal_eval(ent[3]))
            except (ValueError, SyntaxError, TypeError):
                pass
        return ("global", name)

    def e_Name(self, e, p):
        return self.load_name(e.id, p, e)

    def e_Attribute(self, e, p):
        b = self.ev(e.value, p)
        if b[0] == "global":
            # dotted global: attribute of a module (np.zeros, eflr_types.ChannelItem) stays one name
            try:
                ent = self.ix.resolve_expr_entity(e.value, self.func.module)
            except Exception:  # noqa: BLE001
                ent = None
            if ent is not None and ent[0] in ("module", "external"):
                return ("global", f"{b[1]}.{e.attr}")
        if self.func.cls is not None and self.func.param_names and b == ("param", self.func.param_names[0]) and \
                self.func.kind != "staticmethod" and e.attr not in self.te.stored_attr_names():
            # self.table / cls.table: a class-level constant - an immutable literal defined in one class only and never
            # assigned through an object anywhere in the package - is its value
            owners = [c for c in self.ix.classes.values() if e.attr in c.class_assigns or e.attr in c.late_assigns]
            ca = self.func.cls.lookup_class_attr(e.attr)
            if ca is not None and len(owners) == 1 and not owners[0].late_assigns.get(e.attr):
                try:
                    v = ast.literal_eval(ca[0])
                    if isinstance(v, (tuple, frozenset, str, bytes, int, float)) and not isinstance(v, bool):
                        return _from_python(v)
                except (ValueError, SyntaxError, TypeError):
                    pass
        nt = self._named_tuple_of(e.value)
        if nt is not None and e.attr in nt:
            return mk_sub(b, ("const", nt.index(e.attr)))     # a field of a NamedTuple is its position
        dv = self._dataclass_field(b, e.attr)
        if dv is not None:
            return dv
        t = ("attr", b, e.attr)
        try:
            props = self.ix.resolve_property_load(e, self.scope)
        except Exception:  # noqa: BLE001
            props = []
        if props:
            self.summ.props[t] = props
        return t

    def _named_tuple_of(self, expr):
        """Field names, in order, when `expr` is (by type inference) an instance of a typing.NamedTuple class."""
        try:
            t = self.ix.infer(expr, self.scope)
        except Exception:  # noqa: BLE001
            return None
        if t is not None and t[0] == "inst":
            return _nt_fields(t[1])
        return None

    def _dataclass_field(self, b, attr):
        """<DataClass(field=x, ...)>.field is x when the enclosing function never assigns that field (the object was
        made here, so nobody else has had it yet)."""
        if b[0] != "call" or b[1][0] != "global":
            return None
        try:
            ent = self.ix.resolve_expr_entity(ast.parse(b[1][1], mode="eval").body, self.func.module)
        except Exception:  # noqa: BLE001
            return None
        if ent is None or ent[0] != "class":
            return None
        cls = ent[1]
        if not any(ast.unparse(d).split("(")[0].split(".")[-1] == "dataclass" for d in cls.node.decorator_list) or \
                "__init__" in cls.methods:
            return None
        fields = [st.target.id for st in cls.node.body if isinstance(st, ast.AnnAssign) and isinstance(st.target, ast.Name)]
        if attr not in fields or any(a[0] == "star" for a in b[2]) or any(k is None for k, _ in b[3]):
            return None
        root = self.func
        while root.parent is not None:
            root = root.parent
        for n in ast.walk(root.node):
            if isinstance(n, ast.Attribute) and n.attr == attr and isinstance(n.ctx, (ast.Store, ast.Del)):
                return None
        vals = dict(zip(fields, b[2]))
        vals.update({k: v for k, v in b[3]})
        return vals.get(attr)

    def _global_callee(self, f):
        """The package function / constructor named by a ('global', dotted) function term, if it resolves."""
        return _global_callee_impl(self, f)

    def ev_slice(self, sl, p):
        if isinstance(sl, ast.Slice):
            return ("slice", self.ev(sl.lower, p), self.ev(sl.upper, p), self.ev(sl.step, p))
        return self.ev(sl, p)

    def e_Subscript(self, e, p):
        return mk_sub(self.ev(e.value, p), self.ev_slice(e.slice, p))

    def e_Slice(self, e, p):
        return self.ev_slice(e, p)

    def e_Tuple(self, e, p):
        return ("tuple", tuple(self.ev(x, p) for x in e.elts))

    def e_List(self, e, p):
        return ("list", tuple(self.ev(x, p) for x in e.elts))

    def e_Set(self, e, p):
        return ("set", tuple(self.ev(x, p) for x in e.elts))

    def e_Dict(self, e, p):
        items = []
        for k, v in zip(e.keys, e.values):
            if k is None:
                items.append((("dstar", self.ev(v, p)), NONE))
            else:
                items.append((self.ev(k, p), self.ev(v, p)))
        return ("dict", tuple(items))

    def e_Starred(self, e, p):
        return ("star", self.ev(e.value, p))

    def e_JoinedStr(self, e, p):
        parts = []
        for v in e.values:
            if isinstance(v, ast.FormattedValue):
                parts.append(self.ev(v.value, p))
            else:
                parts.append(self.ev(v, p))
        return ("fstr", tuple(parts))

    def e_FormattedValue(self, e, p):
        return self.ev(e.value, p)

    def e_BinOp(self, e, p):
        return ("bin", _BIN[type(e.op)], self.ev(e.left, p), self.ev(e.right, p))

    def e_UnaryOp(self, e, p):
        v = self.ev(e.operand, p)
        if isinstance(e.op, ast.Not):
            return neg(v)
        if isinstance(e.op, ast.USub) and v[0] == "const" and isinstance(v[1], (int, float)):
            return ("const", -v[1])
        return ("un", _UN[type(e.op)], v)

    def e_BoolOp(self, e, p):
        k = "and" if isinstance(e.op, ast.And) else "or"
        vals = []
        q = p.fork()
        for x in e.values:
            v = self.ev(x, q)
            # walrus bindings made in earlier operands are visible in later ones
            if v[0] == k:
                vals.extend(v[1])
            else:
                vals.append(v)
        p.env.update({n: v for n, v in q.env.items() if n not in p.env or p.env[n] != v})
        # note: `a or b` used as a value (not a condition) keeps both operands; constants are folded only for bools
        return mk_bool(k, vals)

    def e_Compare(self, e, p):
        left = self.ev(e.left, p)
        parts = []
        for op, r in zip(e.ops, e.comparators):
            right = self.ev(r, p)
            parts.append(_norm_cmp(_CMP[type(op)], left, right))
            left = right
        return parts[0] if len(parts) == 1 else ("and", tuple(parts))

    def e_IfExp(self, e, p):
        c = self.ev(e.test, p)
        return ite(c, self.ev(e.body, p), self.ev(e.orelse, p))

    def e_NamedExpr(self, e, p):
        v = self.ev(e.value, p)
        p.env[e.target.id] = v
        return v

    def e_Lambda(self, e, p):
        q = p.fork()
        names = []
        for a in e.args.posonlyargs + e.args.args + e.args.kwonlyargs:
            q.env[a.arg] = ("bound", id(e) % 100000, a.arg)
            names.append(a.arg)
        return ("lambda", tuple(names), self.ev(e.body, q))

    def e_Await(self, e, p):
        return ("await", self.ev(e.value, p))

    def e_Yield(self, e, p):
        v = self.ev(e.value, p) if e.value is not None else NONE
        self.summ.yields.append((p.pc, v, e, self.ctx))
        self.effect("yield", None, None, v, p, e)
        return ("yielded", v)

    def e_YieldFrom(self, e, p):
        v = self.ev(e.value, p)
        self.summ.yields.append((p.pc, ("star", v), e, self.ctx))
        self.effect("yield", None, None, ("star", v), p, e)
        return ("yielded", ("star", v))

    def _comp(self, kind, elt, generators, p):
        q = p.fork()
        gens = []
        cid = self.nid("C")
        outer_scope = self.scope
        try:
            for i, g in enumerate(generators):
                it = self.ev(g.iter, q)
                pat = ast.unparse(g.target)
                self._bind_pattern(g.target, ("elem", it, cid), q)
                # (type inference inside the comprehension sees the variables it binds)
                try:
                    self.scope = Scope(self.ix, outer_scope.func, outer_scope.module, parent=outer_scope,
                                       comp=list(generators[:i + 1]))
                except Exception:  # noqa: BLE001
                    self.scope = outer_scope
                conds = tuple(self.ev(c, q) for c in g.ifs)
                gens.append((pat, it, conds))
            if kind == "dict":
                e = (self.ev(elt[0], q), self.ev(elt[1], q))
            else:
                e = self.ev(elt, q)
        finally:
            self.scope = outer_scope
        return ("comp", kind, e, tuple(gens))

    def _bind_pattern(self, target, v, q):
        if isinstance(target, ast.Name):
            q.env[target.id] = v
        elif isinstance(target, (ast.Tuple, ast.List)):
            for i, e in enumerate(target.elts):
                self._bind_pattern(e.value if isinstance(e, ast.Starred) else e, ("sub", v, ("const", i)), q)

    def e_ListComp(self, e, p):
        return self._comp("list", e.elt, e.generators, p)

    def e_SetComp(self, e, p):
        return self._comp("set", e.elt, e.generators, p)

    def e_GeneratorExp(self, e, p):
        return self._comp("gen", e.elt, e.generators, p)

    def e_DictComp(self, e, p):
        return self._comp("dict", (e.key, e.value), e.generators, p)

    def e_Call(self, e, p):
        fn = self.ev(e.func, p)
        args = tuple(self.ev(a, p) for a in e.args)
        kwargs = tuple((k.arg, self.ev(k.value, p)) if k.arg is not None else (None, ("dstar", self.ev(k.value, p)))
                       for k in e.keywords)
        if fn[0] == "global":
            nt = _nt_construction(self, e, args, kwargs)
            if nt is not None:
                return nt
        if fn == ("global", "dict") and not args and kwargs:
            # dict(a=x, **m) is {'a': x, **m}
            return ("dict", tuple((v, NONE) if k is None else (("const", k), v) for k, v in kwargs))
        if len(args) == 2 and not kwargs and fn[0] == "global" and fn[1].split(".")[-1] == "cast":
            try:
                if self.ix._is_typing_cast(e, self.scope):
                    return args[1]   # typing.cast(T, x) is x
            except Exception:  # noqa: BLE001
                pass
        if fn[0] == "attr" and fn[2] == "get" and _instance_dict_of(fn[1]) is not None and 1 <= len(args) <= 2 and \
                not kwargs and args[0][0] == "const" and isinstance(args[0][1], str) and \
                (len(args) == 1 or args[1] == NONE):
            return ("attr", _instance_dict_of(fn[1]), args[0][1])   # obj.__dict__.get('name') - as getattr(obj, 'name', None)
        if fn == ("global", "getattr") and len(args) == 2 and not kwargs and args[1][0] == "const" \
                and isinstance(args[1][1], str):
            return ("attr", args[0], args[1][1])  # getattr(x, 'name') is x.name
        if fn == ("global", "getattr") and len(args) == 3 and not kwargs and args[1][0] == "const" \
                and isinstance(args[1][1], str) and args[2] == NONE:
            # getattr(x, 'name', None): the field, or None when it was never set - for the rules a read of x.name
            return ("attr", args[0], args[1][1])
        if fn[0] == "ite":
            # a call through a conditionally chosen function is the conditional of the calls
            def assume(t, cond, pol):
                # inside the branch taken when `cond` is pol, a nested conditional on the same condition is decided
                def g(x):
                    if x[0] == "ite" and x[1] == cond:
                        return x[2] if pol else x[3]
                    return x
                return rebuild(t, g)

            def dist(f, a=args, kw=kwargs):
                if f[0] == "ite":
                    at = tuple(assume(x, f[1], True) for x in a)
                    af = tuple(assume(x, f[1], False) for x in a)
                    kt = tuple((k, assume(v, f[1], True)) for k, v in kw)
                    kf = tuple((k, assume(v, f[1], False)) for k, v in kw)
                    return ite(f[1], dist(f[2], at, kt), dist(f[3], af, kf))
                c = ("call", f, a, kw)
                nm = f[2] if f[0] == "attr" else None
                if nm and f[1] == SELF and self.func.cls is not None:
                    m = self.func.cls.lookup(nm)
                    if m is not None:
                        self.summ.calls[c] = [m]
                        self.summ.precise.add(c)
                g = self._global_callee(f)
                if g is not None:
                    self.summ.calls[c] = [g]
                    self.summ.precise.add(c)
                return c
            return dist(fn)
        t = ("call", fn, args, kwargs)
        try:
            targets = self.ix.resolve_call(e, self.scope)[0]
        except Exception:  # noqa: BLE001
            targets = []
        targets = [f for f in (targets or []) if isinstance(f, FuncInfo)]
        if not targets and not (isinstance(e.func, ast.Name) and fn == ("global", e.func.id)):
            # a call through a local that holds a package class / function (`make = Wrapper; make(...)`)
            g = self._global_callee(fn)
            if g is not None:
                targets = [g]
        if not targets and fn[0] == "attr" and fn[1] in (SELF, ("param", "cls")) and self.func.cls is not None:
            # self.method(...) / cls.method(...): the method of the enclosing class (overrides are by-name siblings)
            m = self.func.cls.lookup(fn[2])
            if m is not None and m.kind != "property" and not self.ix.subclasses(self.func.cls) or (
                    m is not None and m.kind == "staticmethod"):
                targets = [m]
        if targets:
            self.summ.precise.add(t)
        else:
            targets = [f for f in self.te.site_targets(self.func, e) if isinstance(f, FuncInfo)]
        if targets:
            self.summ.calls[t] = targets
        # calls evaluated inside larger expressions still happen: record them as effects when they are method calls
        # with a mutating name or package calls (the rules look at summ.all_calls for the rest)
        return t


class _FuncCtx:
    """What _global_callee_impl needs to resolve a dotted name: the index and the function whose module the name is
    written in."""

    def __init__(self, ix, func):
        self.ix, self.func = ix, func


def _nt_fields(cls):
    if not any(isinstance(b, str) and b.split(".")[-1] == "NamedTuple" for b in cls.bases):
        return None
    return [st.target.id for st in cls.node.body if isinstance(st, ast.AnnAssign) and isinstance(st.target, ast.Name)]


def _nt_construction(ev, e, args, kwargs):
    """NamedTupleClass(...) as the tuple of its fields (positional / keyword arguments and defaults bound), or None."""
    try:
        ent = ev.ix.resolve_expr_entity(e.func, ev.func.module)
    except Exception:  # noqa: BLE001
        return None
    if ent is None or ent[0] != "class":
        return None
    fields = _nt_fields(ent[1])
    if not fields or any(a[0] == "star" for a in args) or any(k is None for k, _ in kwargs):
        return None
    vals = dict(zip(fields, args))
    for k, v in kwargs:
        vals[k] = v
    defaults = {st.target.id: st.value for st in ent[1].node.body
                if isinstance(st, ast.AnnAssign) and isinstance(st.target, ast.Name) and st.value is not None}
    out = []
    for f in fields:
        if f in vals:
            out.append(vals[f])
        elif f in defaults:
            try:
                out.append(_from_python(ast.literal_eval(defaults[f])))
            except (ValueError, SyntaxError, TypeError):
                return None
        else:
            return None
    return ("tuple", tuple(out))


def _global_callee_impl(ev, f):
    if f[0] == "attr" and f[1][0] == "global":
        # Class.method: a static / class method named through its class
        try:
            ent = ev.ix.resolve_expr_entity(ast.parse(f[1][1], mode="eval").body, ev.func.module)
        except Exception:  # noqa: BLE001
            return None
        if ent is not None and ent[0] == "class":
            m = ent[1].lookup(f[2])
            if m is not None and (m.kind in ("staticmethod", "classmethod") or m.cls is None):
                return m
        return None
    if f[0] != "global":
        return None
    try:
        ent = ev.ix.resolve_expr_entity(ast.parse(f[1], mode="eval").body, ev.func.module)
    except Exception:  # noqa: BLE001
        return None
    if ent is None:
        return None
    if ent[0] == "class":
        return ent[1].lookup("__init__")
    if ent[0] == "func":
        return ent[1]
    return None


def _from_python(v):
    if isinstance(v, tuple):
        return ("tuple", tuple(_from_python(x) for x in v))
    if isinstance(v, list):
        return ("list", tuple(_from_python(x) for x in v))
    if isinstance(v, (set, frozenset)):
        return ("set", tuple(_from_python(x) for x in sorted(v, key=repr)))
    if isinstance(v, dict):
        raise TypeError("dict constant")
    return ("const", v)


def _as_load(t):
    t2 = ast.parse(ast.unparse(t), mode="eval").body
    return t2


def _handler_names(h: ast.ExceptHandler) -> list:
    if h.type is None:
        return ["BaseException"]
    if isinstance(h.type, ast.Tuple):
        return [ast.unparse(x) for x in h.type.elts]
    return [ast.unparse(h.type)]


def _common_prefix(*pcs):
    if not pcs:
        return ()
    out = []
    for xs in zip(*pcs):
        if all(x == xs[0] for x in xs):
            out.append(xs[0])
        else:
            break
    return tuple(out)


def _norm_cmp(op, a, b):
    """Orient comparisons so that a constant operand is on the right (x > 3, never 3 < x)."""
    if a[0] == "const" and b[0] != "const" and op in _FLIP:
        return ("cmp", _FLIP[op], b, a)
    if op in ("is", "is not") and b == NONE and a[0] == "ite" and NONE in (a[2], a[3]):
        # `found = <x if c else None>; if found is not None` - the search idiom: the test is c (and x itself not None)
        c, x = (a[1], a[2]) if a[3] == NONE else (neg(a[1]), a[3])
        inner = _norm_cmp(op, x, NONE)
        return mk_bool("and", [c, inner]) if op == "is not" else mk_bool("or", [neg(c), inner])
    return ("cmp", op, a, b)


# ------------------------------------------------------------------------------------------- inlined summaries
def _subst_effect(e: Effect, amap: dict, pc_prefix: tuple, ctx_prefix: tuple) -> Effect:
    sub = lambda t: substitute(t, amap) if isinstance(t, tuple) else t  # noqa: E731
    ctx = tuple((c[0], c[1], sub(c[2])) if c[0] in ("for", "while") and c[2] is not None else
                ((c[0], sub(c[1])) if c[0] == "with" else c) for c in e.ctx)
    key = sub(e.key) if e.kind == "store_sub" else e.key
    return Effect(e.kind, sub(e.base), key, sub(e.value), pc_prefix + tuple(sub(c) for c in e.pc), ctx_prefix + ctx,
                  e.node, e.func, e.aug)


def _inline(te: "TermEval", func: FuncInfo, depth: int, stack: tuple, stop) -> Summary:
    base = te.summary(func)
    out = Summary(func)
    out.calls, out.props = dict(base.calls), dict(base.props)
    out.precise = set(base.precise)
    out.falls_through, out.fall_pc, out.final_env = base.falls_through, base.fall_pc, base.final_env
    memo: dict = {}
    hoisted: dict = {}   # call term -> [(pc, ctx)] where its effects were already placed: a value bound to a local
    #                       and used later (under the same or further conditions / loops) is not called again

    def already_hoisted(x, pc, ctx):
        return any(pc[:len(p0)] == p0 and ctx[:len(c0)] == c0 for p0, c0 in hoisted.get(x, ()))

    def callee_of(c):
        tg = base.calls.get(c) or out.calls.get(c)
        if not tg or len(tg) != 1 or c not in out.precise:
            return None   # only callees resolved by type inference are looked through (never by-name guesses)
        f = tg[0]
        if f in stack or f is func or f.is_generator() or not isinstance(f.node, ast.FunctionDef):
            return None
        if stop is not None and stop(f):
            return None
        return f

    def expand(t, pc, ctx, sink):
        """Rewrite term t: package calls -> their (inlined) return term; the callee's effects go to sink first."""
        if depth <= 0 or not isinstance(t, tuple):
            return t

        def f(orig):
            cal = callee_of(orig) if orig[0] == "call" else None
            x = map_children(orig, f)
            if x is not orig and orig[0] == "call" and orig in base.calls:
                out.calls.setdefault(x, base.calls[orig])
                if orig in out.precise:
                    out.precise.add(x)
            if orig[0] == "attr" and orig in base.props:
                out.props.setdefault(x, base.props[orig])
                getters = base.props[orig]
                if len(getters) == 1 and getters[0] not in stack and getters[0] is not func and x[1] == SELF and \
                        getters[0].param_names and (stop is None or not stop(getters[0])):
                    g = getters[0]
                    key = (id(g.node),)
                    if key not in memo:
                        memo[key] = _inline(te, g, depth - 1, stack + (func,), stop)
                    gs = memo[key]
                    if not gs.effects or all(e.kind in ("raise", "call") for e in gs.effects):
                        amap = {g.param_names[0]: x[1]}
                        for ce in gs.effects:
                            sink.append(_subst_effect(ce, amap, pc, ctx))
                        for k, v in gs.calls.items():
                            k2 = substitute(k, amap)
                            out.calls.setdefault(k2, v)
                            if k in gs.precise:
                                out.precise.add(k2)
                        for k, v in gs.props.items():
                            out.props.setdefault(substitute(k, amap), v)
                        return substitute(gs.return_term(), amap)
            if cal is None:
                return x
            amap = te._bind_args(cal, x)
            if amap is None:
                return x
            is_ctor = cal.name == "__init__" and x[1][0] != "attr" and cal.param_names
            if is_ctor:
                # Class(...): the value is the new object (named by the call term itself); __init__'s stores go into it
                amap = dict(amap)
                amap[cal.param_names[0]] = x
            key = (id(cal.node),)
            if key not in memo:
                memo[key] = _inline(te, cal, depth - 1, stack + (func,), stop)
            cs = memo[key]
            if cal.parent is func:
                # a closure of the function being summarised: its free variables are this function's locals
                amap = dict(amap)
                for n, v in base.final_env.items():
                    amap.setdefault("<free>" + n, v)
            for ce in (cs.effects if not already_hoisted(x, pc, ctx) else ()):
                sink.append(_subst_effect(ce, amap, pc, ctx))
            hoisted.setdefault(x, []).append((pc, ctx))
            for k, v in cs.calls.items():
                k2 = substitute(k, amap)
                out.calls.setdefault(k2, v)
                if k in cs.precise:
                    out.precise.add(k2)
                elif k2 != k and k2[0] == "call" and k2 not in out.precise:
                    # a callable passed in as an argument (e.g. the class to construct) is known at this call site
                    g2 = _global_callee_impl(_FuncCtx(te.ix, func), k2[1])
                    if g2 is not None:
                        out.calls[k2] = [g2]
                        out.precise.add(k2)
            for k, v in cs.props.items():
                out.props.setdefault(substitute(k, amap), v)
            for rpc, rt, rn in cs.raises:
                out.raises.append((pc + tuple(substitute(c, amap) for c in rpc), substitute(rt, amap), rn))
            if is_ctor:
                return x
            return substitute(cs.return_term(), amap)
        return f(t)

    def expand_pc(pc, ctx):
        # conditions and loop iterables are rewritten too (helper predicates / helper iterables looked through); the
        # effects of calls made there are not hoisted a second time
        junk: list = []
        n_r = len(out.raises)
        pc2 = ()
        for c in pc:
            pc2 += literals(expand(c, (), (), junk))
        ctx2 = tuple((c[0], c[1], expand(c[2], (), (), junk)) if c[0] in ("for", "while") and isinstance(c[2], tuple)
                     else c for c in ctx)
        del out.raises[n_r:]
        return pc2, ctx2

    survived: list = []   # [(call-site pc, call-site ctx, literals)]: a callee that raises under P, called at
    #                        statement level, lets the code after the call run only under not P

    def after_calls(pc, ctx):
        extra = ()
        for spc, sctx, lits in survived:
            if pc[:len(spc)] == spc and ctx[:len(sctx)] == sctx:
                extra += tuple(l for l in lits if l not in pc and l not in extra)
        return extra

    for e in base.effects:
        sink: list = []
        pc_exp, ctx_x = expand_pc(e.pc, e.ctx)
        pc_x = pc_exp + after_calls(e.pc, e.ctx)

        def placed(sk, e=e, pc_x=pc_exp, ctx_x=ctx_x):
            # the callee's effects happen under the call site's conditions / loops *as rewritten here* (helper
            # predicates in the caller's conditions looked through)
            res = []
            for ce in sk:
                if ce.pc[:len(e.pc)] == e.pc and ce.ctx[:len(e.ctx)] == e.ctx and (pc_x != e.pc or ctx_x != e.ctx):
                    ce = Effect(ce.kind, ce.base, ce.key, ce.value, pc_x + ce.pc[len(e.pc):],
                                ctx_x + ce.ctx[len(e.ctx):], ce.node, ce.func, ce.aug)
                res.append(ce)
            return res
        if e.kind == "raise":
            val = expand(e.value, e.pc, e.ctx, sink)
            out.effects.extend(placed(sink))
            out.effects.append(Effect("raise", None, None, val, pc_x, ctx_x, e.node, e.func))
            continue
        n_raises = len(out.raises)
        b = expand(e.base, e.pc, e.ctx, sink) if isinstance(e.base, tuple) else e.base
        k = expand(e.key, e.pc, e.ctx, sink) if e.kind == "store_sub" else e.key
        v = expand(e.value, e.pc, e.ctx, sink) if isinstance(e.value, tuple) else e.value
        out.effects.extend(placed(sink))
        if e.kind == "call" and e.value[0] == "call":
            tg_ = base.calls.get(e.value) or out.calls.get(e.value)
            if tg_ and len(tg_) == 1 and e.value in out.precise and tg_[0].is_generator():
                continue   # creating a generator object has no effect; its body runs where it is iterated
        # raises of callees expanded here that do not sit in a loop of the callee: afterwards their condition is false
        for ce in sink:
            if ce.kind == "raise" and ce.ctx == e.ctx and ce.pc[:len(e.pc)] == e.pc:
                cond = ce.pc[len(e.pc):]
                if cond:
                    negl = literals(("and", cond) if len(cond) > 1 else cond[0], False)
                    survived.append((e.pc, e.ctx, negl))
        if e.kind == "call" and v[0] != "call":
            continue  # a statement-level package call: replaced by the callee's effects
        if e.kind == "call" and v != e.value and v not in out.precise and isinstance(e.node, (ast.Assign, ast.AnnAssign)):
            continue  # `x = helper()` whose value is an external call: as for `x = external()` written directly
        out.effects.append(Effect(e.kind, b, k, v, pc_x, ctx_x, e.node, e.func, e.aug))
    # generator fusion: an effect inside `for x in <package generator>(...)` happens once per value the generator
    # yields - it is replaced by one copy per yield statement, with x := the yielded value and the yield's own loops and
    # conditions in place of the loop over the generator call
    def unwrap(it):
        # list(gen()) / tuple(gen()) / iter(gen()) iterate the same values in the same order
        while it[0] == "call" and it[1] in (("global", "list"), ("global", "tuple"), ("global", "iter")) and \
                len(it[2]) == 1 and not it[3]:
            it = it[2][0]
        return it

    def gen_of(it):
        it = unwrap(it)
        tg = base.calls.get(it) or out.calls.get(it)
        if it[0] != "call" or not tg or len(tg) != 1 or it not in out.precise:
            return None
        g = tg[0]
        if not g.is_generator() or g in stack or g is func or depth <= 0:
            return None
        return g
    fused = []
    for e in out.effects:
        todo = [e]
        for _ in range(3):
            nxt = []
            again = False
            for x in todo:
                hit = None
                for i, c in enumerate(x.ctx):
                    if c[0] == "for" and isinstance(c[2], tuple) and gen_of(c[2]) is not None:
                        hit = (i, c, gen_of(c[2]))
                        break
                if hit is None:
                    nxt.append(x)
                    continue
                i, c, g = hit
                amap = te._bind_args(g, unwrap(c[2]))
                if amap is None:
                    nxt.append(x)
                    continue
                gs = _inline(te, g, depth - 1, stack + (func,), stop)
                el = ("elem", c[2], c[1])
                if not gs.yields:
                    nxt.append(x)
                    continue
                ylist = []
                for ypc, yt, yn, yctx in gs.yields:
                    if yt[0] == "star":
                        # `yield from X`: one value per element of X
                        lid2 = f"Y{next(te._ids)}"
                        ylist.append((ypc, ("elem", yt[1], lid2), yn, tuple(yctx) + (("for", lid2, yt[1]),)))
                    else:
                        ylist.append((ypc, yt, yn, yctx))
                for ypc, yt, yn, yctx in ylist:
                    val = substitute(yt, amap)
                    rep = lambda t, val=val: rebuild(t, lambda z: val if z == el else (  # noqa: E731
                        val[1][z[2][1]] if z[0] == "sub" and z[1] == el and z[2][0] == "const" and
                        val[0] == "tuple" and isinstance(z[2][1], int) and z[2][1] < len(val[1]) else z)) \
                        if isinstance(t, tuple) else t
                    # (the subscript case first: rebuild is bottom-up, so handle el[i] before el is replaced)
                    def rep2(t, val=val):
                        if not isinstance(t, tuple):
                            return t

                        def f(z):
                            if z[0] == "sub" and z[1] == el and z[2][0] == "const" and val[0] == "tuple" and \
                                    isinstance(z[2][1], int) and z[2][1] < len(val[1]):
                                return val[1][z[2][1]]
                            return z
                        t2 = _top_down(t, f)
                        return rebuild(t2, lambda z: val if z == el else z)
                    yctx2 = tuple((k[0], k[1], substitute(k[2], amap)) if k[0] in ("for", "while") and
                                  isinstance(k[2], tuple) else k for k in yctx)
                    new_ctx = x.ctx[:i] + yctx2 + tuple(
                        (k[0], k[1], rep2(k[2])) if k[0] in ("for", "while") and isinstance(k[2], tuple) else k
                        for k in x.ctx[i + 1:])
                    new_pc = tuple(substitute(q, amap) for q in ypc) + tuple(rep2(q) for q in x.pc)
                    nxt.append(Effect(x.kind, rep2(x.base), rep2(x.key) if x.kind == "store_sub" else x.key,
                                      rep2(x.value), new_pc, new_ctx, x.node, x.func, x.aug))
                    again = True
            todo = nxt
            if not again:
                break
        fused.extend(todo)
    out.effects = fused
    for pc, t, n in base.returns:
        sink = []
        out.returns.append((expand_pc(pc, ())[0] + after_calls(pc, ()), expand(t, pc, (), sink), n))
        out.effects.extend(sink)
    for pc, t, n in base.raises:
        out.raises.append((expand_pc(pc, ())[0], t, n))
    for pc, t, n, ctx in base.yields:
        g = gen_of(t[1]) if t[0] == "star" and isinstance(t[1], tuple) else None
        amap = te._bind_args(g, unwrap(t[1])) if g is not None else None
        if g is not None and amap is not None:
            # `yield from <package generator>(...)`: that generator's own yields, in its order, under this yield's
            # conditions and loops
            gs = _inline(te, g, depth - 1, stack + (func,), stop)
            for ypc, yt, yn, yctx in gs.yields:
                yctx2 = tuple((k[0], k[1], substitute(k[2], amap)) if k[0] in ("for", "while") and
                              isinstance(k[2], tuple) else k for k in yctx)
                yt2 = ("star", substitute(yt[1], amap)) if yt[0] == "star" else substitute(yt, amap)
                out.yields.append((tuple(pc) + tuple(substitute(q, amap) for q in ypc), yt2, yn,
                                   tuple(ctx) + yctx2))
            for k, v in gs.calls.items():
                k2 = substitute(k, amap)
                out.calls.setdefault(k2, v)
                if k in gs.precise:
                    out.precise.add(k2)
            continue
        sink = []
        out.yields.append((pc, expand(t, pc, ctx, sink), n, ctx))
        out.effects.extend(sink)
    return out


def _te_inline(self, func: FuncInfo, depth: int = 3, stop=None) -> Summary:
    """Summary of `func` with the effects, raises and return values of the package functions it calls (uniquely
    resolved, non-recursive, non-generator) substituted in place, `depth` levels deep: what the function does, however
    the work is split over helpers.  Path conditions of callee effects are prefixed with the call's own condition."""
    key = ("inl", id(func.node), depth, id(stop))
    hit = self._cache.get(key)
    if hit is None or hit[0] is not stop:
        # (the entry keeps `stop` alive: the id of a predicate that was freed could be handed to another one)
        hit = self._cache[key] = (stop, _inline(self, func, depth, (), stop))
    return hit[1]


TermEval.inline = _te_inline


# ------------------------------------------------------------------------------------------ derived views
def _closed_const(t) -> bool:
    return t[0] == "const" or (t[0] in ("tuple", "list") and all(_closed_const(x) for x in t[1]))


def unroll_const_loops(items):
    """items: iterable of (pc, term, ctx, payload).  An item inside `for x in (<constants>)` (constants, or tuples of
    constants that the loop unpacks) is replaced by one copy per element with each(...) substituted, <tuple>[i] folded
    and getattr(obj, '<const>') turned into obj.<const>: a loop over a fixed table and the same statements written out
    are the same thing."""
    out = []
    for pc, t, ctx, payload in items:
        loops = [c for c in ctx if c[0] == "for" and isinstance(c[2], tuple) and c[2][0] in ("tuple", "list") and
                 c[2][1] and all(_closed_const(x) for x in c[2][1])]
        if not loops:
            out.append((pc, t, ctx, payload))
            continue
        lp = loops[-1]
        rest = tuple(c for c in ctx if c is not lp)
        el = ("elem", lp[2], lp[1])
        for const in lp[2][1]:
            def f(x, const=const):
                if x == el:
                    return const
                if x[0] == "sub" and x[1][0] in ("tuple", "list") and x[2][0] == "const" and isinstance(x[2][1], int) \
                        and -len(x[1][1]) <= x[2][1] < len(x[1][1]):
                    return x[1][1][x[2][1]]
                if x[0] == "call" and x[1] == ("global", "getattr") and len(x[2]) == 2 and x[2][1][0] == "const" \
                        and isinstance(x[2][1][1], str) and not x[3]:
                    return ("attr", x[2][0], x[2][1][1])
                return x
            out.extend(unroll_const_loops([(tuple(rebuild(c, f) for c in pc), rebuild(t, f), rest, payload)]))
    return out


def attr_stores(summ: Summary):
    """Stores into object attributes in either spelling: `obj.name = v`, `setattr(obj, key, v)`.
    -> [(obj term, key term (a ('const', name) for a fixed name), value term, Effect)]"""
    out = []
    for e in summ.effects:
        if e.kind == "store_attr":
            out.append((e.base, ("const", e.key), e.value, e))
        elif e.kind == "call" and e.value[1] == ("global", "setattr") and len(e.value[2]) == 3:
            out.append((e.value[2][0], e.value[2][1], e.value[2][2], e))
        elif e.kind == "call" and e.value[1][0] == "attr" and e.value[1][2] == "__setattr__" and \
                len(e.value[2]) in (2, 3):
            recv = e.value[1][1]
            args = e.value[2]
            if len(args) == 3:      # object.__setattr__(obj, key, value)
                out.append((args[0], args[1], args[2], e))
            elif is_call(recv, "super") or recv == ("global", "object"):
                out.append((SELF, args[0], args[1], e))
            else:
                out.append((recv, args[0], args[1], e))
    return out


def return_alternatives(summ: Summary) -> list:
    """[(conditions, term)] for every value the function can return: one entry per return statement and per branch of a
    conditional expression in it (conditions = path condition + the branch's own)."""
    out = []
    for pc, t, _ in summ.returns:
        for conds, alt in alternatives(t):
            out.append((tuple(pc) + tuple(conds), alt))
    return out


def raise_conditions(summ: Summary) -> list:
    """[(conditions, exception term)] for every raise (including those of inlined callees)."""
    seen, out = set(), []
    for pc, t, _ in summ.raises:
        if (pc, t) not in seen:
            seen.add((pc, t))
            out.append((tuple(pc), t))
    for e in summ.effects:
        if e.kind == "raise" and (e.pc, e.value) not in seen:
            seen.add((e.pc, e.value))
            out.append((tuple(e.pc), e.value))
    return out


def exc_name(t) -> Optional[str]:
    if t[0] == "call":
        return call_name(t)
    if t[0] == "global":
        return t[1].split(".")[-1]
    return None


def mentions(t, pred) -> bool:
    return contains(t, pred)


def same_call(te: "TermEval", summ: Summary, c1, c2) -> bool:
    """Are two call terms the same call (same callee and receiver, same arguments whether passed by position or by
    keyword)?"""
    if c1 == c2:
        return True
    if c1[0] != "call" or c2[0] != "call" or c1[1] != c2[1]:
        return False
    t1, t2 = summ.calls.get(c1), summ.calls.get(c2)
    g = (t1 or t2 or [None])[0]
    if g is None or (t1 and t2 and t1 != t2):
        return False
    a1, a2 = te._bind_args(g, c1), te._bind_args(g, c2)
    return a1 is not None and a1 == a2


def generator_sources(te: "TermEval", summ: Summary, t, depth: int = 2) -> list:
    """For every call of a (precisely resolved) package generator inside `t`: the terms its values come from - the
    yielded values and the iterables of the loops around the yields, instantiated with the call's arguments."""
    out = []
    if depth <= 0:
        return out
    for x in subterms(t):
        if x[0] != "call" or x not in summ.precise:
            continue
        tg = summ.calls.get(x) or []
        if len(tg) != 1 or not tg[0].is_generator():
            continue
        amap = te._bind_args(tg[0], x)
        if amap is None:
            continue
        gs = te.inline(tg[0], 2)
        for ypc, yt, yn, yctx in gs.yields:
            v = substitute(yt[1] if yt[0] == "star" else yt, amap)
            out.append(v)
            for c in yctx:
                if c[0] == "for" and isinstance(c[2], tuple):
                    out.append(substitute(c[2], amap))
            sub = Summary(tg[0])
            sub.calls = {substitute(k, amap): vv for k, vv in gs.calls.items()}
            sub.precise = {substitute(k, amap) for k in gs.precise}
            out.extend(generator_sources(te, sub, v, depth - 1))
    return out


def unconditionally_calls(te: "TermEval", f, target, depth: int = 3) -> bool:
    """Does every refusal-free run of f call `target` - directly or through helpers of f's own class (or module), outside
    any loop and under no condition other than earlier refusals having passed?"""
    def stop(g):
        if g is target or g.name == "__init__":
            return True
        return not ((f.cls is not None and g.cls is not None and (g.cls is f.cls or g.cls in f.cls.mro() or
                                                                   f.cls in g.cls.mro()))
                    or (f.cls is None and g.cls is None and g.module is f.module))
    su = te.inline(f, depth, stop=stop)
    refusal = refusal_literals(su)
    for e in su.effects:
        if e.kind == "call" and e.value in su.precise and target in su.calls.get(e.value, ()) and not e.loops() and \
                all(passed_refusal(l, refusal) for l in e.pc):
            return True
    return False


def is_fresh_empty_list(te: "TermEval", func, t) -> bool:
    """Is `t` a list that is new and empty when the function creates it: `[]`, `list()`, or the list-valued field (declared
    with an empty-list default / default_factory=list) of a dataclass object constructed in this very function?"""
    if t in (("list", ()), ("call", ("global", "list"), (), ())):
        return True
    if t[0] == "attr" and t[1][0] == "call" and t[1][1][0] == "global":
        try:
            ent = te.ix.resolve_expr_entity(ast.parse(t[1][1][1], mode="eval").body, func.module)
        except Exception:  # noqa: BLE001
            return False
        if ent is None or ent[0] != "class":
            return False
        if any(k == t[2] for k, _ in t[1][3]):
            return False      # passed in by the caller of the constructor: not new
        for st in ent[1].node.body:
            if isinstance(st, ast.AnnAssign) and isinstance(st.target, ast.Name) and st.target.id == t[2] and \
                    st.value is not None:
                src = ast.unparse(st.value).replace(" ", "")
                return src in ("[]", "list()") or (src.startswith("field(") and "default_factory=list" in src)
    return False


def refusal_literals(summ: Summary) -> set:
    """The literals under which the function (or a callee looked through) refuses by raising."""
    out = set()
    for pc, _ in raise_conditions(summ):
        for c in pc:
            out.update(literals(c))
    return out


def passed_refusal(l, refusal: set) -> bool:
    """Is literal `l` nothing but "an earlier refusal did not happen" - the negation of a raise condition, or of a
    conjunction of raise conditions?"""
    n = neg(l)
    return n in refusal or all(x in refusal for x in literals(n))


def field_resolver(te: "TermEval", cls, depth: int = 4, skip=()):
    """-> resolve(term): every read of an instance field `self.f` (of `cls`) that the constructor stores exactly once,
    on its refusal-free path, is replaced by the stored value - a term over the constructor's *parameters*.  Rules
    phrased over the resolved form do not depend on how (under which private names, in which containers) the object
    keeps what it was constructed with.  Properties of the class are looked through as well."""
    init = cls.lookup("__init__")
    stored: dict = {}
    if init is not None:
        isum = te.inline(init, 2, stop=lambda g: g.cls is None or (g.cls is not cls and g.cls not in cls.mro()))
        refusal = set()
        for pc, _ in raise_conditions(isum):
            for c in pc:
                refusal.update(literals(c))
        count: dict = {}
        for obj, key, val, e in attr_stores(isum):
            if obj == SELF and key[0] == "const":
                count[key[1]] = count.get(key[1], 0) + 1
                if not e.ctx and all(passed_refusal(l, refusal) for l in e.pc):
                    stored[key[1]] = val
        stored = {k: v for k, v in stored.items() if count.get(k) == 1 and k not in skip}
    # fields stored anywhere else as well are not constants of the object
    volatile = set()
    for f in te.ix.functions.values():
        if f is init or f.cls is None or not (f.cls is cls or cls in f.cls.mro() or f.cls in cls.mro()):
            continue
        for obj, key, val, e in attr_stores(te.summary(f)):
            if obj == SELF and key[0] == "const":
                volatile.add(key[1])
    props = {n: m for n, m in ((k, cls.lookup(k)) for k in {k for c in cls.mro() for k in c.methods})
             if m is not None and m.kind == "property"}

    def through_properties(t, table, d):
        # properties of *other* objects (e.g. of a NamedTuple kept in a field), as recorded by type inference in the
        # summary the term comes from: <obj>.prop -> the getter's value for self := <obj>
        if not table or d <= 0:
            return t

        def g(x):
            getters = table.get(x) if x[0] == "attr" and x[1] != SELF else None
            if getters and len(getters) == 1 and getters[0].param_names:
                ps = te.summary(getters[0])
                if len(ps.returns) == 1 and not ps.effects:
                    inner = through_properties(ps.returns[0][1], ps.props, d - 1)
                    return substitute(inner, {getters[0].param_names[0]: through_properties(x[1], table, d - 1)})
            return x
        return _top_down(t, g)

    def resolve(t, d=depth, props_of=None):
        if d <= 0 or not isinstance(t, tuple):
            return t
        t = through_properties(t, props_of, d)

        def f(x):
            if x[0] == "attr" and x[1] == SELF:
                if x[2] in stored and x[2] not in volatile:
                    return resolve(stored[x[2]], d - 1, isum.props if init is not None else None)
                if x[2] in props:
                    ps = te.summary(props[x[2]])
                    if len(ps.returns) == 1 and not ps.effects:
                        return resolve(ps.returns[0][1], d - 1, ps.props)
            return x
        return rebuild(t, f)
    resolve.stored = stored
    return resolve


def bound_arg(te: "TermEval", summ: Summary, c, name: str):
    """What the callee's parameter `name` receives in call term `c`, whether passed by position or by keyword (the
    callee must be resolved by type; otherwise only an explicit keyword counts).  None when it is not passed."""
    if c[0] != "call":
        return None
    tg = summ.calls.get(c, ()) if c in summ.precise else ()
    if len(tg) == 1:
        g = tg[0]
        a = g.node.args
        pos = [x.arg for x in a.posonlyargs + a.args]
        if g.parent is None and g.cls is not None and g.kind != "staticmethod" and pos:
            pos = pos[1:]
        for k, v in c[3]:
            if k == name:
                return v
        if name in pos and pos.index(name) < len(c[2]) and not any(x[0] == "star" for x in c[2]):
            return c[2][pos.index(name)]
        return None
    return call_arg(c, kw=name)


def ctor_calls(summ: Summary, cls) -> list:
    """Distinct call terms of `summ` that construct an instance of the package class `cls` (resolved by type, so an
    alias or a module-qualified name of the class is the same thing)."""
    own_init = "__init__" in cls.methods
    out = []
    for c in summ.all_calls():
        if c[1][0] == "attr" and c[1][2] == "__init__":
            continue     # an explicit base-class initialiser call, not a construction
        if c not in summ.precise or c in out:
            continue
        tg = summ.calls.get(c, ())
        if own_init:
            hit = any(f.name == "__init__" and f.cls is cls for f in tg)
        else:
            hit = call_name(c) == cls.name and any(f.name == "__init__" for f in tg)
        if hit:
            out.append(c)
    return out


def first_of(t):
    """If `t` is "the first element of X" (X[0], next(X), next(X, default), next(iter(X) ...)) return X, else None."""
    if t[0] == "sub" and t[2] == ("const", 0):
        return t[1]
    if t[0] == "call" and t[1] == ("global", "next") and 1 <= len(t[2]) <= 2 and not t[3]:
        x = t[2][0]
        if x[0] == "call" and x[1] == ("global", "iter") and len(x[2]) == 1:
            x = x[2][0]
        return x
    return None


def normalise_loops(effects: list) -> list:
    """Effects with their loops brought to normal form:
    * `for x in (A if c else B)` is the loop over A under c and the loop over B under not c;
    * `for x in (<item>, <item>, ...)` (a tuple / list display) is the body once per item, x := item, with <tuple>[i] of a
      display folded - so a one-element table `(('value', v),)` and the statements written out are the same thing."""
    out = []
    todo = list(effects)
    guard = 0
    while todo:
        guard += 1
        if guard > 10000:
            break
        e = todo.pop(0)
        hit = None
        for i, c in enumerate(e.ctx):
            if c[0] == "for" and isinstance(c[2], tuple) and c[2][0] in ("ite", "tuple", "list"):
                if c[2][0] == "ite" or len(c[2][1]) <= 8:
                    hit = (i, c)
                    break
        if hit is None:
            out.append(e)
            continue
        i, c = hit
        el = ("elem", c[2], c[1])

        def subst(t, f):
            return rebuild(t, f) if isinstance(t, tuple) else t

        def fold(x):
            if x[0] == "sub" and x[1][0] in ("tuple", "list") and x[2][0] == "const" and isinstance(x[2][1], int) \
                    and -len(x[1][1]) <= x[2][1] < len(x[1][1]):
                return x[1][1][x[2][1]]
            return x
        if c[2][0] == "ite":
            for branch, lits in ((c[2][2], literals(c[2][1])), (c[2][3], literals(c[2][1], False))):
                nel = ("elem", branch, c[1])
                f = lambda x, nel=nel: nel if x == el else x  # noqa: E731
                ctx = e.ctx[:i] + (("for", c[1], branch),) + tuple(
                    (k[0], k[1], subst(k[2], f)) if k[0] in ("for", "while") and isinstance(k[2], tuple) else k
                    for k in e.ctx[i + 1:])
                todo.insert(0, Effect(e.kind, subst(e.base, f), subst(e.key, f) if e.kind == "store_sub" else e.key,
                                      subst(e.value, f), lits + tuple(subst(q, f) for q in e.pc), ctx, e.node, e.func,
                                      e.aug))
        else:
            for item in reversed(c[2][1]):
                f = lambda x, item=item: fold(item if x == el else x)  # noqa: E731
                ctx = e.ctx[:i] + tuple(
                    (k[0], k[1], subst(k[2], f)) if k[0] in ("for", "while") and isinstance(k[2], tuple) else k
                    for k in e.ctx[i + 1:])
                todo.insert(0, Effect(e.kind, subst(e.base, f), subst(e.key, f) if e.kind == "store_sub" else e.key,
                                      subst(e.value, f), tuple(subst(q, f) for q in e.pc), ctx, e.node, e.func, e.aug))
    return out
