"""Whole-package call graph on top of the index: direct calls, class-hierarchy dispatch, property getters/setters,
implicit protocol calls (__iter__/__next__/__len__/__getitem__/__setattr__), by-name fallback for untyped receivers
and a pool of escaping function values for calls through variables (converters, dispatch tables)."""

from __future__ import annotations

import ast
from typing import Optional

from .index import Index, Scope, FuncInfo, ClassInfo, walk_local, BUILTINS


class CallSite:
    __slots__ = ("node", "targets", "external", "kind", "note", "caller")

    def __init__(self, caller, node, targets, external, kind, note=None):
        self.caller = caller
        self.node = node
        self.targets = targets
        self.external = external
        self.kind = kind
        self.note = note

    @property
    def lineno(self):
        return getattr(self.node, "lineno", 0)

    def __repr__(self):
        return f"<CallSite {self.caller.short}:{self.lineno} {self.kind} -> {[t.short for t in self.targets]} {self.external}>"


IMPLICIT = {"__iter__", "__next__", "__len__", "__getitem__", "__setattr__", "__eq__", "__str__", "__repr__",
            "__del__", "__new__", "__init__", "__enter__", "__exit__"}


class CallGraph:
    def __init__(self, ix: Index):
        self.ix = ix
        self.sites: dict[FuncInfo, list[CallSite]] = {}
        self.methods_by_name: dict[str, list[FuncInfo]] = {}
        for f in ix.functions.values():
            if f.cls is not None and f.parent is None:
                self.methods_by_name.setdefault(f.name, []).append(f)
        self.escaping: list[FuncInfo] = []
        self._find_escaping()
        for f in list(ix.functions.values()):
            self.sites[f] = self._scan(f)
        if self._bind_params():
            ix._local_type_cache.clear()
            ix._field_cache.clear()
            for f in list(ix.functions.values()):
                self.sites[f] = self._scan(f)
        self.n_calls = sum(1 for ss in self.sites.values() for s in ss if s.kind != "implicit" and s.kind != "property"
                           and s.kind != "setter")
        self.n_unresolved = sum(1 for ss in self.sites.values() for s in ss if s.kind == "unresolved")

    # -------------------------------------------------------------- escaping function values
    def _find_escaping(self):
        ix = self.ix
        seen = set()

        def note(fi):
            if fi is not None and fi not in seen:
                seen.add(fi)
                self.escaping.append(fi)

        for f in ix.functions.values():
            sc = Scope(ix, f)
            callee_nodes = set()
            for n in walk_local(f.node):
                if isinstance(n, ast.Call):
                    callee_nodes.add(id(n.func))
            for n in walk_local(f.node):
                if id(n) in callee_nodes:
                    continue
                if isinstance(n, ast.Lambda):
                    note(sc.find_lambda(n))
                elif isinstance(n, ast.Name) and isinstance(n.ctx, ast.Load):
                    t = sc.name_type(n.id)
                    if t is not None and t[0] == "func":
                        note(t[1])
                elif isinstance(n, ast.Attribute) and isinstance(n.ctx, ast.Load):
                    t = ix.infer(n, sc)
                    if t is not None and t[0] == "boundmethod" and t[1].kind != "property":
                        note(t[1])
                    elif t is not None and t[0] == "func":
                        note(t[1])
        # module level / class level tables (e.g. _struct_dict) and decorators
        for m in ix.modules.values():
            sc = Scope(ix, None, m)
            for expr in list(m.assigns.values()):
                for n in ast.walk(expr):
                    if isinstance(n, ast.Name):
                        ent = ix.resolve_name(n.id, m)
                        if ent and ent[0] == "func":
                            note(ent[1])
            for c in m.classes.values():
                for expr in c.class_assigns.values():
                    for n in ast.walk(expr):
                        if isinstance(n, ast.Lambda):
                            pass

    # -------------------------------------------------------------- 0-CFA parameter bindings
    def _bind_params(self) -> bool:
        """For parameters without a usable annotation, take the union of the argument types at resolved call sites."""
        ix = self.ix
        cand: dict = {}
        for f, ss in self.sites.items():
            sc = Scope(ix, f)
            for s in ss:
                if s.kind not in ("direct", "cha") or not isinstance(s.node, ast.Call):
                    continue
                for g in s.targets:
                    if isinstance(g.node, ast.Lambda):
                        continue
                    params = list(g.node.args.posonlyargs) + list(g.node.args.args)
                    if g.cls is not None and g.parent is None and g.kind in ("method", "classmethod", "property",
                                                                           "setter"):
                        params = params[1:]
                    names = [p.arg for p in params] + [p.arg for p in g.node.args.kwonlyargs]
                    allp = {p.arg: p for p in params + list(g.node.args.kwonlyargs)}
                    pairs = []
                    for i, a in enumerate(s.node.args):
                        if isinstance(a, ast.Starred):
                            break
                        if i < len(params):
                            pairs.append((params[i].arg, a))
                    for kw in s.node.keywords:
                        if kw.arg is not None and kw.arg in allp:
                            pairs.append((kw.arg, kw.value))
                    for pname, a in pairs:
                        p = allp[pname]
                        if p.annotation is not None and ix.ann_to_type(p.annotation, g.module) is not None:
                            continue
                        t = ix.infer(a, sc)
                        cand.setdefault((g, pname), []).append(t)
        changed = False
        for key, ts in cand.items():
            ts = [t for t in ts if t is not None and t != ("none",)]
            uniq = []
            for t in ts:
                if t not in uniq:
                    uniq.append(t)
            if not uniq:
                continue
            val = uniq[0] if len(uniq) == 1 else ("union", uniq)
            if ix.param_bindings.get(key) != val:
                ix.param_bindings[key] = val
                changed = True
        return changed

    # -------------------------------------------------------------- scanning one function
    def _scan(self, f: FuncInfo) -> list[CallSite]:
        ix = self.ix
        sc = Scope(ix, f)
        out: list[CallSite] = []
        comp_scopes: dict[int, Scope] = {}

        def scope_for(node, cur: Scope) -> Scope:
            return cur

        def visit(n, cur: Scope):
            if isinstance(n, (ast.FunctionDef, ast.Lambda, ast.ClassDef)) and n is not f.node:
                return
            if isinstance(n, (ast.ListComp, ast.SetComp, ast.GeneratorExp, ast.DictComp)):
                sub = Scope(ix, f, f.module, parent=cur, comp=n.generators)
                for g in n.generators:
                    visit(g.iter, cur)
                    self._implicit_iter(f, g.iter, cur, out)
                    for c in g.ifs:
                        visit(c, sub)
                if isinstance(n, ast.DictComp):
                    visit(n.key, sub)
                    visit(n.value, sub)
                else:
                    visit(n.elt, sub)
                return
            if isinstance(n, ast.Call):
                self._call(f, n, cur, out)
            elif isinstance(n, ast.Attribute):
                if isinstance(n.ctx, ast.Load):
                    for g in ix.resolve_property_load(n, cur):
                        out.append(CallSite(f, n, [g], None, "property"))
                elif isinstance(n.ctx, ast.Store):
                    targets = ix.resolve_property_store(n, cur)
                    for g in targets:
                        out.append(CallSite(f, n, [g], None, "setter"))
                    base = ix.infer(n.value, cur)
                    if base is not None and base[0] == "inst":
                        sa = base[1].lookup("__setattr__")
                        if sa is not None:
                            out.append(CallSite(f, n, [sa], None, "implicit"))
            elif isinstance(n, (ast.For,)):
                self._implicit_iter(f, n.iter, cur, out)
            elif isinstance(n, ast.YieldFrom):
                self._implicit_iter(f, n.value, cur, out)
            elif isinstance(n, ast.Subscript) and isinstance(n.ctx, ast.Load):
                base = ix.infer(n.value, cur)
                if base is not None and base[0] == "inst":
                    gi = base[1].lookup("__getitem__")
                    if gi is not None:
                        out.append(CallSite(f, n, [gi], None, "implicit"))
            for ch in ast.iter_child_nodes(n):
                visit(ch, cur)

        body = [f.node.body] if isinstance(f.node, ast.Lambda) else f.node.body
        for st in body:
            visit(st, sc)
        return out

    def _const_param_values(self, f: FuncInfo, pname: str):
        """String constants a parameter of a *nested* function can take: its default and the constants passed at the
        calls inside the defining function (the closure does not escape otherwise); None if not all are constants."""
        if f.parent is None or isinstance(f.node, ast.Lambda):
            return None
        vals = set()
        a = f.node.args
        params = [p.arg for p in a.args]
        if pname in params:
            i = params.index(pname) - (len(params) - len(a.defaults))
            if i >= 0:
                d = a.defaults[i]
                if isinstance(d, ast.Constant) and isinstance(d.value, str):
                    vals.add(d.value)
                else:
                    return None
        for node in walk_local(f.parent.node):
            if isinstance(node, ast.Call) and isinstance(node.func, ast.Name) and node.func.id == f.name:
                idx = params.index(pname) if pname in params else None
                v = None
                if idx is not None and idx < len(node.args):
                    v = node.args[idx]
                for k in node.keywords:
                    if k.arg == pname:
                        v = k.value
                if v is None:
                    continue
                if isinstance(v, ast.Constant) and isinstance(v.value, str):
                    vals.add(v.value)
                else:
                    return None
            elif isinstance(node, ast.Name) and node.id == f.name and isinstance(node.ctx, ast.Load):
                pass
        return sorted(vals) if vals else None

    def _implicit_iter(self, f, it, sc, out):
        t = self.ix.infer(it, sc)
        if t is not None and t[0] == "inst":
            for name in ("__iter__", "__next__"):
                m = t[1].lookup(name)
                if m is not None:
                    out.append(CallSite(f, it, [m], None, "implicit"))

    def _call(self, f, n: ast.Call, sc: Scope, out):
        ix = self.ix
        fn = n.func
        # setattr / getattr with names
        if isinstance(fn, ast.Name) and fn.id in ("setattr", "getattr") and sc.name_type(fn.id) is None \
                and len(n.args) >= 2:
            base = ix.infer(n.args[0], sc)
            names = None
            if isinstance(n.args[1], ast.Constant) and isinstance(n.args[1].value, str):
                names = [n.args[1].value]
            elif isinstance(n.args[1], ast.Name) and n.args[1].id in f.param_names:
                names = self._const_param_values(f, n.args[1].id)
            kind = "setter" if fn.id == "setattr" else "property"
            targets = []
            if names is not None:
                for nm in names:
                    targets += ix._property_of(base, nm, kind)
            else:
                # dynamic attribute name: every property/setter of the receiver type (or of any class if untyped)
                classes = []
                if base is not None and base[0] == "inst":
                    classes = [base[1]] + ix.subclasses(base[1])
                    classes = list(dict.fromkeys(c2 for c in classes for c2 in c.mro()))
                else:
                    classes = list(ix.classes.values())
                for c in classes:
                    for m in c.methods.values():
                        if m.kind == kind and m not in targets:
                            targets.append(m)
            out.append(CallSite(f, n, targets, "builtins." + fn.id, "setter" if kind == "setter" else "property"))
            if fn.id == "setattr" and base is not None and base[0] == "inst":
                sa = base[1].lookup("__setattr__")
                if sa is not None:
                    out.append(CallSite(f, n, [sa], None, "implicit"))
            return
        if isinstance(fn, ast.Name) and fn.id in ("len", "next", "iter", "list", "tuple", "sorted") \
                and sc.name_type(fn.id) is None and n.args:
            t = ix.infer(n.args[0], sc)
            if t is not None and t[0] == "inst":
                names = {"len": ["__len__"], "next": ["__next__"]}.get(fn.id, ["__iter__", "__next__"])
                for nm in names:
                    m = t[1].lookup(nm)
                    if m is not None:
                        out.append(CallSite(f, n, [m], None, "implicit"))
        targets, ext, note = ix.resolve_call(n, sc)
        if targets:
            kind = "direct" if len(targets) == 1 else "cha"
            out.append(CallSite(f, n, targets, None, kind))
            return
        # function values handed to code we do not see (timeit(fn), map(fn, ..), filter(..)) may be called by it
        cbs = []
        for a in list(n.args) + [kw.value for kw in n.keywords]:
            t = ix.infer(a, sc)
            if t is not None and t[0] == "func":
                cbs.append(t[1])
            elif t is not None and t[0] == "boundmethod" and t[1].kind != "property":
                cbs.append(t[1])
        if cbs:
            out.append(CallSite(f, n, cbs, None, "callback"))
        if ext:
            out.append(CallSite(f, n, [], ext, "external"))
            return
        # fallbacks
        if isinstance(fn, ast.Attribute):
            cands = self.methods_by_name.get(fn.attr, [])
            base = ix.infer(fn.value, sc)
            if base is None and cands:
                out.append(CallSite(f, n, list(cands), None, "byname", note))
                return
            if base is None:
                out.append(CallSite(f, n, [], f"<untyped>.{fn.attr}", "external", note))
                return
        # call through a variable / stored callable: any escaping function of compatible arity
        npos = len(n.args)
        pool = []
        for e in self.escaping:
            if isinstance(e.node, ast.Lambda):
                a = e.node.args
            else:
                a = e.node.args
            nparams = len(a.posonlyargs) + len(a.args)
            if e.cls is not None and e.parent is None and e.kind in ("method", "classmethod"):
                nparams -= 1
            ndefaults = len(a.defaults)
            if a.vararg is not None or (nparams - ndefaults <= npos <= nparams):
                pool.append(e)
        if pool:
            out.append(CallSite(f, n, pool, None, "dynamic", note))
        else:
            out.append(CallSite(f, n, [], None, "unresolved", note))

    # -------------------------------------------------------------- queries
    def callees(self, f: FuncInfo, kinds=None) -> list[FuncInfo]:
        out = []
        for s in self.sites.get(f, []):
            if kinds is not None and s.kind not in kinds:
                continue
            for t in s.targets:
                if t not in out:
                    out.append(t)
        return out

    def reachable(self, roots, kinds=None, stop=None) -> dict[FuncInfo, Optional[FuncInfo]]:
        """Functions reachable from roots; returns {func: predecessor} (a spanning tree for path reporting)."""
        pred: dict[FuncInfo, Optional[FuncInfo]] = {}
        work = []
        for r in roots:
            if r not in pred:
                pred[r] = None
                work.append(r)
        while work:
            f = work.pop()
            if stop is not None and stop(f):
                continue
            for s in self.sites.get(f, []):
                if kinds is not None and s.kind not in kinds:
                    continue
                for t in s.targets:
                    if t not in pred:
                        pred[t] = f
                        work.append(t)
            # nested functions are considered reachable when their definer is (closures are created there)
        return pred

    def path_to(self, pred: dict, f: FuncInfo) -> list[str]:
        path = []
        cur = f
        while cur is not None:
            path.append(cur.short)
            cur = pred.get(cur)
        return list(reversed(path))

    def callers_of(self, target: FuncInfo) -> list[CallSite]:
        out = []
        for ss in self.sites.values():
            for s in ss:
                if target in s.targets:
                    out.append(s)
        return out
