"""Obligation bookkeeping, known-findings handling, evidence and replay files, exit codes."""

from __future__ import annotations

import json
import os
import time

from . import AnalysisError, VERIF

EVIDENCE_DIR = os.path.join(VERIF, "evidence")
REPLAY_DIR = os.path.join(EVIDENCE_DIR, "replay")
KNOWN_FILE = os.path.join(VERIF, "known_findings.json")


def load_known():
    if not os.path.exists(KNOWN_FILE):
        return {"known": [], "fixed": []}
    with open(KNOWN_FILE) as f:
        return json.load(f)


class Ob:
    __slots__ = ("rule", "key", "status", "detail", "where", "nontrivial", "witness")

    def __init__(self, rule, key, status, detail, where, nontrivial, witness=None):
        self.rule, self.key, self.status, self.detail, self.where = rule, key, status, detail, where
        self.nontrivial = nontrivial
        self.witness = witness

    def as_dict(self):
        d = {"rule": self.rule, "instance": self.key, "verdict": self.status, "where": self.where}
        if self.detail:
            d["detail"] = self.detail
        if self.witness is not None:
            d["witness"] = self.witness
        return d


class Check:
    """Collects the obligations of one property on one tree."""

    def __init__(self, prop_id: str, tier: str = "quick", seed: int = 0, ix=None, cg=None, quiet=False):
        self.prop_id = prop_id
        self.tier = tier
        self.seed = seed
        self.ix = ix
        self.cg = cg
        self.obs: list[Ob] = []
        self.consulted_functions: set[str] = set()
        self.notes: list[str] = []
        self.info: dict = {}
        self.assumptions: list[str] = []
        self.trusted: list[str] = []
        self.quiet = quiet
        self.t0 = time.time()
        self.selfcheck: dict = {}
        self.deferred: list = []
        self._terms = None

    @property
    def terms(self):
        """E6 summaries (value-flow normal form), shared by the rules of one run."""
        if self._terms is None:
            from .terms import TermEval
            self._terms = TermEval(self.ix, self.cg)
        return self._terms

    def summary(self, cls_or_func, meth=None):
        f = self.ix.get_method(cls_or_func, meth) if meth is not None else \
            (self.ix.get_function(cls_or_func) if isinstance(cls_or_func, str) else cls_or_func)
        self.consult(f)
        return self.terms.summary(f)

    # ---- recording
    def ok(self, rule, key, detail="", where="", nontrivial=True):
        self.obs.append(Ob(rule, str(key), "discharged", detail, where, nontrivial))

    def fail(self, rule, key, detail, where="", witness=None):
        if hasattr(witness, "resolve"):
            witness = witness.resolve()
        self.obs.append(Ob(rule, str(key), "violated", detail, where, True, witness))

    def require(self, cond, rule, key, detail_fail, where="", detail_ok="", nontrivial=True, witness=None):
        if cond:
            self.ok(rule, key, detail_ok, where, nontrivial)
        else:
            self.fail(rule, key, detail_fail, where, witness)
        return bool(cond)

    def floor(self, what: str, measured: int, minimum: int):
        """Instance-count floor: a rule that matches fewer sites than were confirmed by hand must not pass vacuously."""
        self.info.setdefault("floors", {})[what] = {"measured": measured, "minimum": minimum}
        if measured < minimum and self.violations():
            # a confirmed violation is already on record: report that rather than the thinned-out instance count
            self.note(f"instance count for '{what}' is {measured} < {minimum} (violations already found)")
            return
        if measured < minimum:
            raise AnalysisError(f"instance count for '{what}' is {measured}, below the confirmed floor {minimum}: "
                                f"the anchor moved or the extractor is blind")

    def guard(self, fn, *args, **kwargs):
        """Run one rule group; an analysis failure inside it is deferred: if other rules found violations those are
        reported, otherwise the failure is raised at the end (exit 2)."""
        try:
            return fn(*args, **kwargs)
        except AnalysisError as exc:
            self.deferred.append(exc)
            return None

    def new_violations(self):
        """Violations that are not listed known findings."""
        known = {(k["property"], k["rule"], k["key"]) for k in load_known().get("known", [])}
        return [o for o in self.violations() if (self.prop_id, o.rule, o.key) not in known]

    def raise_deferred(self):
        if self.deferred and not self.new_violations():
            raise self.deferred[0]
        for exc in self.deferred:
            self.note(f"rule group not evaluated: {exc}")

    def consult(self, *funcs):
        for f in funcs:
            if f is not None:
                self.consulted_functions.add(f.qualname if hasattr(f, "qualname") else str(f))

    def note(self, s: str):
        self.notes.append(s)

    # ---- outcome
    def violations(self):
        return [o for o in self.obs if o.status == "violated"]

    def finish(self, level: str, explanation: str, checker_cmd: str, write=True) -> int:
        known = load_known()
        known_keys = {(k["property"], k["rule"], k["key"]): k for k in known.get("known", [])}
        viol, kn = [], []
        for o in self.violations():
            k = known_keys.get((self.prop_id, o.rule, o.key))
            if k is not None:
                o.status = "known"
                kn.append((o, k))
            else:
                viol.append(o)
        lines = []
        for o, k in kn:
            lines.append(f"KNOWN-FINDING: property={self.prop_id} {o.rule} {o.key}: {k.get('what', o.detail)}")
        replay_paths = []
        if viol and write:
            os.makedirs(REPLAY_DIR, exist_ok=True)
        for i, o in enumerate(viol):
            path = os.path.join(REPLAY_DIR, f"{self.prop_id}-{i}.json")
            if write:
                with open(path, "w") as f:
                    json.dump({"property": self.prop_id, **o.as_dict()}, f, indent=1)
            replay_paths.append(path)
            lines.append(f"  {o.rule} [{o.key}] at {o.where}: {o.detail}" +
                         (f"  witness: {o.witness}" if o.witness is not None else ""))
            lines.append(f"VIOLATION property={self.prop_id} replay={path}")
        n_ob = len(self.obs)
        n_dis = sum(1 for o in self.obs if o.status == "discharged")
        distinct_nontrivial = len({(o.rule, o.key) for o in self.obs if o.nontrivial})
        wall = time.time() - self.t0
        if write:
            os.makedirs(EVIDENCE_DIR, exist_ok=True)
            samples = [o.as_dict() for o in self._samples()]
            rules = {}
            for o in self.obs:
                r = rules.setdefault(o.rule, {"instances": 0, "discharged": 0, "violated": 0, "known": 0})
                r["instances"] += 1
                r[o.status] += 1
            ev = {
                "property_id": self.prop_id,
                "tier": self.tier,
                "seed": self.seed,
                "level": level,
                "coverage": {
                    "obligations": n_ob,
                    "discharged": n_dis,
                    "evaluations": n_ob,
                    "distinct_nontrivial": distinct_nontrivial,
                    "rule": "one evaluation per rule instance (rule id + construct key) found on the current tree; "
                            "non-trivial = the verdict needed reasoning about a path, table row, call site or "
                            "abstract state rather than the mere absence of a construct; distinct by (rule, key)",
                    "samples": samples,
                    "checker_cmd": checker_cmd,
                    "trusted_base": self.trusted or ["Python ast semantics for the modelled subset", "sa/ engines"],
                    "explanation": explanation,
                    "exhaustive": True,
                    "rules": rules,
                    "analysed": {
                        "modules": len(self.ix.modules) if self.ix is not None else 0,
                        "functions_consulted": sorted(self.consulted_functions),
                        "call_sites_resolved": (self.cg.n_calls - self.cg.n_unresolved) if self.cg else None,
                        "call_sites_total": self.cg.n_calls if self.cg else None,
                    },
                    "known_findings": [o.as_dict() for o, _ in kn],
                    "violations": [o.as_dict() for o in viol],
                    "info": self.info,
                    "self_validation": self.selfcheck,
                    "notes": self.notes,
                },
                "assumptions": self.assumptions,
                "wall_s": round(wall, 3),
                "violations": len(viol),
            }
            with open(os.path.join(EVIDENCE_DIR, f"{self.prop_id}.json"), "w") as f:
                json.dump(ev, f, indent=1, default=str)
        if not self.quiet:
            for ln in lines:
                print(ln)
            print(f"{self.prop_id} [{self.tier}] obligations={n_ob} discharged={n_dis} known={len(kn)} "
                  f"violations={len(viol)} wall={wall:.2f}s")
        return 1 if viol else 0

    def _samples(self):
        obs = [o for o in self.obs if o.nontrivial]
        if not obs:
            obs = self.obs
        if not obs:
            return []
        # deterministic, seed only permutes which instances are shown
        step = max(1, len(obs) // 6)
        start = self.seed % step if step else 0
        pick = obs[start::step][:8]
        bad = [o for o in self.obs if o.status != "discharged"][:4]
        for b in bad:
            if b not in pick:
                pick.append(b)
        return pick
